import sys, threading, linecache
sys.path.insert(0, "/repo")
import logging; logging.disable(logging.CRITICAL)
from jsonrpclib.threadpool import FutureResult, EventData
fut = FutureResult(); reached = threading.Event(); gate = threading.Event()
code = EventData.raise_exception.__code__
def tracer(frame, event, arg):
    if frame.f_code is code:
        def local(frame, event, arg):
            if event == "line" and "__event.set()" in linecache.getline(code.co_filename, frame.f_lineno):
                reached.set(); gate.wait()      # executor is about to run `self.__event.set()`
            return local
        return local
def task(): raise ValueError("task failed")
def worker():
    sys.settrace(tracer)
    try: fut.execute(task, None, None)
    except ValueError: pass
th = threading.Thread(target=worker); th.start(); reached.wait()
try: print("result(0.01) ->", fut.result(0.01))
except Exception as ex: print("result(0.01) raised", type(ex).__name__, ex)
print("done() ->", fut.done())
gate.set(); th.join(); print("after execute returned: done() ->", fut.done())
