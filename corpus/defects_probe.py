#!/venv/bin/python
"""
Stand-alone demonstrations of the defects found on the pinned tree (DESIGN.md section 6).

Each probe runs the real code (PYTHONPATH=/repo) on the specific failing input and prints
`DEFECT <name>` when the property-violating behaviour shows, `ok <name>` otherwise.  Used
(a) to confirm every defect before its `fix:` commit, (b) afterwards to confirm the repair,
(c) as the demonstration for the reverted-fix entries under seeded/.

Usage: defects_probe.py [name ...]     exit 1 if any selected probe shows the defect.
"""
import json
import sys
import threading
import time

sys.path.insert(0, "/repo")

import jsonrpclib  # noqa: E402
import jsonrpclib.config  # noqa: E402
import jsonrpclib.jsonclass as jsonclass  # noqa: E402
import jsonrpclib.threadpool as threadpool  # noqa: E402
from jsonrpclib.SimpleJSONRPCServer import (  # noqa: E402
    SimpleJSONRPCDispatcher,
    PooledJSONRPCServer,
    SimpleJSONRPCRequestHandler,
)

PROBES = {}


def probe(fn):
    PROBES[fn.__name__] = fn
    return fn


def _disp(version=2.0):
    cfg = jsonrpclib.config.Config(version=version)
    d = SimpleJSONRPCDispatcher(config=cfg)
    d.register_function(lambda *a, **k: a[0] if a else None, "echo")
    return d


@probe
def c02_decimal_id():
    d = _disp()
    body = '{"jsonrpc":"2.0","id":{"__jsonclass__":["decimal.Decimal",["1"]]},"method":"echo","params":[1]}'
    try:
        d._marshaled_dispatch(body)
    except Exception as ex:
        return "raised %s" % type(ex).__name__
    return None


@probe
def c03_custom_dispatch_loses_id():
    d = _disp()

    def raising(method, params):
        raise KeyError("boom")

    out = json.loads(d._marshaled_dispatch('{"jsonrpc":"2.0","id":3,"method":"x"}', raising))
    if out.get("id") != 3:
        return "id=%r" % (out.get("id"),)
    return None


@probe
def c03_result_conversion_loses_id():
    d = _disp()

    class Bad(object):
        def _serialize(self):
            raise RuntimeError("nope")

    d.register_function(lambda: Bad(), "bad")
    out = json.loads(d._marshaled_dispatch('{"jsonrpc":"2.0","id":7,"method":"bad"}'))
    if out.get("id") != 7:
        return "id=%r" % (out.get("id"),)
    return None


@probe
def c04_notification_answered():
    d = _disp()

    def raising(method, params):
        raise KeyError("boom")

    out = d._marshaled_dispatch('{"jsonrpc":"2.0","method":"x"}', raising)
    if out != "":
        return "answered %s" % out
    return None


@probe
def c05_body_typeerror():
    d = _disp()

    def f(a):
        return a + "x"

    d.register_function(f, "f")
    out = json.loads(d._marshaled_dispatch('{"jsonrpc":"2.0","id":1,"method":"f","params":[1]}'))
    if out["error"]["code"] != -32603:
        return "code=%r" % out["error"]["code"]
    return None


@probe
def c06_typeerrors():
    bad = []
    cases = [
        {"jsonrpc": "2.0", "id": 1, "error": {"reason": "x"}},
        {"jsonrpc": "2.0", "id": 1, "error": "error code here"},
        {"jsonrpc": "2.0", "id": 1, "error": 5},
        {"jsonrpc": "2.0", "id": 1, "error": ["code"]},
        {"jsonrpc": "2.0", "id": 1, "error": {"code": "x", "message": "m"}},
        {"id": 1, "result": None, "error": True},
    ]
    for c in cases:
        try:
            jsonrpclib.jsonrpc.check_for_errors(c)
            bad.append(("returned", c))
        except jsonrpclib.ProtocolError:
            pass
        except Exception as ex:
            bad.append((type(ex).__name__, c["error"]))
    return repr(bad) if bad else None


class _Local(object):
    def __init__(self):
        self.a = 1

    def __eq__(self, o):
        return type(o) is type(self) and o.__dict__ == self.__dict__


@probe
def c07_local_class_nested():
    classes = jsonrpclib.config.LocalClasses()
    classes.add(_Local, "_Local")
    dumped = [{"__jsonclass__": ["_Local", []], "a": 1}]
    try:
        out = jsonclass.load(dumped, classes)
    except Exception as ex:
        return "raised %s: %s" % (type(ex).__name__, ex)
    return None if out == [_Local()] else "got %r" % (out,)


class _Mangled(object):
    __slots__ = ("__z", "y")

    def __init__(self):
        self.__z = 4
        self.y = 5


@probe
def c07_mangled_slot():
    try:
        d = jsonclass.dump(_Mangled())
    except Exception as ex:
        return "raised %s: %s" % (type(ex).__name__, ex)
    if d.get("_Mangled__z") != 4:
        return "dump=%r" % (d,)
    return None


@probe
def c11_join_shortcut():
    pool = threadpool.ThreadPool(2, 1)
    pool.start()
    gate = threading.Event()
    started = threading.Event()

    def task():
        started.set()
        gate.wait(5)

    fut = pool.enqueue(task)
    started.wait(5)
    r1 = pool.join(0.2)
    t0 = time.time()
    res = []
    th = threading.Thread(target=lambda: res.append(pool.join()))
    th.daemon = True
    th.start()
    th.join(0.5)
    early = bool(res) and not fut.done()
    gate.set()
    th.join(5)
    pool.stop()
    msgs = []
    if r1 is True:
        msgs.append("join(0.2) returned True with a running task")
    if early:
        msgs.append("join() returned %r after %.2fs with a running task" % (res[0], time.time() - t0))
    return "; ".join(msgs) or None


@probe
def c12_close_without_serve():
    srv = PooledJSONRPCServer(("127.0.0.1", 0), logRequests=False)
    th = threading.Thread(target=srv.server_close)
    th.daemon = True
    th.start()
    th.join(3)
    if th.is_alive():
        return "server_close() still blocked after 3s"
    return None


@probe
def c14_rpcid_zero():
    out = json.loads(jsonrpclib.dumps([1], "m", rpcid=0))
    if out.get("id") != 0 or out.get("id") is False:
        return "id=%r" % (out.get("id"),)
    out = json.loads(jsonrpclib.dumps([1], "m", rpcid=0.0))
    if out.get("id") != 0:
        return "id=%r" % (out.get("id"),)
    return None


class _Slotted(object):
    __slots__ = ("a",)


@probe
def c15_load_mutates_on_failure():
    classes = jsonrpclib.config.LocalClasses()
    classes.add(_Slotted, "_Slotted")
    arg = {"__jsonclass__": ["_Slotted", []], "a": 1, "nope": 2}
    before = json.dumps(arg, sort_keys=True)
    try:
        jsonclass.load(arg, classes)
    except Exception:
        pass
    after = json.dumps(arg, sort_keys=True)
    return None if before == after else "argument changed: %s -> %s" % (before, after)


@probe
def c16_double_callback():
    """
    Forces the interleaving: registrar stores callback+extra, executor completes
    (sets the event and notifies), registrar then tests the event and notifies too.
    Uses sys.settrace on the registrar to pause it after the stores.
    """
    fut = threadpool.FutureResult()
    calls = []
    paused = threading.Event()
    resume = threading.Event()
    code = threadpool.FutureResult.set_callback.__code__
    first = code.co_firstlineno

    def tracer(frame, event, arg):
        if frame.f_code is code:
            def local(frame, event, arg):
                # pause just before testing whether the task is done (3rd executable line)
                if event == "line" and not paused.is_set():
                    src_line = frame.f_lineno
                    # line holding the is_set / completed test comes after both stores
                    if local.count >= 2:
                        paused.set()
                        resume.wait(5)
                    local.count += 1
                return local
            local.count = 0
            return local
        return None

    def registrar():
        sys.settrace(tracer)
        try:
            fut.set_callback(lambda r, e, x: calls.append((r, x)), "X")
        finally:
            sys.settrace(None)

    th = threading.Thread(target=registrar)
    th.start()
    paused.wait(5)
    fut.execute(lambda: 42, None, None)
    resume.set()
    th.join(5)
    return None if len(calls) == 1 else "callback invoked %d times: %r" % (len(calls), calls)


@probe
def c17_chunked_decode():
    import io

    body = '{"jsonrpc":"2.0","id":1,"method":"echo","params":["é"]}'.encode("utf-8")
    cut = body.index(b"\xc3") + 1

    class ShortReads(io.RawIOBase):
        def __init__(self, parts):
            self.parts = list(parts)

        def read(self, n=-1):
            return self.parts.pop(0) if self.parts else b""

    class FakeServer(SimpleJSONRPCDispatcher):
        pass

    srv = FakeServer(config=jsonrpclib.config.Config())
    srv.register_function(lambda x: x, "echo")
    srv.logRequests = False

    h = SimpleJSONRPCRequestHandler.__new__(SimpleJSONRPCRequestHandler)
    h.server = srv
    h.path = "/"
    h.headers = {"content-length": str(len(body))}
    h.rfile = ShortReads([body[:cut], body[cut:]])
    h.wfile = io.BytesIO()
    h.request_version = "HTTP/1.1"
    h.requestline = "POST / HTTP/1.1"
    h.client_address = ("x", 0)
    h.close_connection = True
    status = []
    h.send_response = lambda code, message=None: status.append(code)
    h.send_header = lambda k, v: None
    h.end_headers = lambda: None
    h.is_rpc_path_valid = lambda: True
    h.decode_request_content = lambda data: data
    h.do_POST()
    return None if status == [200] else "status %r" % (status,)


class _RecConn(object):
    def __init__(self):
        self.headers = []

    def putheader(self, k, v):
        self.headers.append((k, v))

    def endheaders(self):
        pass

    def send(self, b):
        pass


@probe
def c18_case_collision():
    t = jsonrpclib.jsonrpc.Transport(jsonrpclib.config.DEFAULT)
    for h in [{"x-test": "1"}, {"X-Test": "2"}, {"x-test": "3"}]:
        t.push_headers(h)
    c = _RecConn()
    t.send_content(c, "{}")
    vals = [v for k, v in c.headers if k.lower() == "x-test"]
    return None if vals == ["3"] else "x-test sent as %r" % (vals,)


@probe
def c18_exception_exit():
    t = jsonrpclib.jsonrpc.Transport(jsonrpclib.config.DEFAULT)
    p = jsonrpclib.ServerProxy("http://localhost:1/", transport=t)
    before = [dict(h) for h in t.additional_headers]
    try:
        with p._additional_headers({"X-A": "1"}):
            raise RuntimeError("leave")
    except RuntimeError:
        pass
    after = [dict(h) for h in t.additional_headers]
    return None if before == after else "stack %r -> %r" % (before, after)


def main(argv):
    names = argv or sorted(PROBES)
    bad = 0
    for n in names:
        msg = PROBES[n]()
        if msg:
            bad += 1
            print("DEFECT %s: %s" % (n, msg))
        else:
            print("ok %s" % n)
    sys.stdout.flush()
    import os
    os._exit(1 if bad else 0)


if __name__ == "__main__":
    main(sys.argv[1:])
