"""
Request bodies as BYTES (C05, C17; the white-space twins of C04 travel the same paths).

The str-level generators of harness/servercases*.py hand the dispatcher a Python text; an HTTP client sends bytes.  This module
builds byte strings that differ from "the UTF-8 encoding of a JSON text" in the ways that matter to a decoder, and drives them
through every path of the library that receives bytes:

  post           the real `SimpleJSONRPCRequestHandler.do_POST` on a fake connection (rfile/wfile), real dispatcher behind it
  socket         a real `SimpleJSONRPCServer` on 127.0.0.1 (TCP) and on a Unix socket, raw HTTP written by the harness
  cgi            the real `CGIJSONRPCRequestHandler.handle_request()` reading the body from `sys.stdin` (a UTF-8 text stream
                 over the bytes, as a CGI process has), `CONTENT_LENGTH` / `REQUEST_METHOD` in the environment
  direct-bytes / direct-bytearray   OUT OF DOMAIN, run but not judged (histogram key out-of-domain/direct-bytes):
                 `_marshaled_dispatch(data)` documents `data` as "A JSON request string"; no entry point of the library hands it
                 bytes (do_POST and the CGI handler decode first).  A bytes argument reaches json.loads undecoded, which decodes on
                 its own (byte-order marks, UTF-16 / UTF-32 detection, surrogatepass) — RFC 8259 section 8.1 allows a parser to
                 ignore a byte-order mark.  (The empty b"" of harness/props/c05.py empty_body_check stays: it agrees.)

  variants (histogram keys  class:bytes/<variant>/<path>):
    as-is, ws-wrapped, multibyte, bom-inside-string     valid UTF-8 of a JSON text: must run as the text does
    utf8-bom, utf8-bom-twice, utf8-bom-ws, bom-only, bom-suffix, utf16le, utf16be, utf32le, utf32be, nul-prefix, nul-suffix,
    nul-in-string, nul-between-tokens, nbsp-prefix
                                                        valid UTF-8 of a text RFC 8259 rejects: -32700, nothing invoked
    utf16le-bom, utf16be-bom, utf32le-bom, utf32be-bom, invalid-start, invalid-continuation, truncated-multibyte, overlong-slash,
    overlong-quote, overlong-brace, overlong-nul, surrogate-utf8, surrogate-pair-utf8, five-byte-lead, latin1-char,
    latin1-nbsp-prefix, cp1252-quotes, lone-continuation
                                                        not UTF-8: nothing invoked, no result

Monitor (from the statements of C05 and C17, never from the model):  let T be the strict UTF-8 decoding of the bytes sent.
  no T              nothing is invoked and no success is reported;
  RFC 8259 rejects T  the reply is the single -32700 error object and nothing is invoked;
  otherwise         the reply and the invocations are those of `_marshaled_dispatch(T)`.
"""
import io
import json
import os
import socket
import sys
import threading

import impl

# --------------------------------------------------------------------------------------------
# the byte strings

BOM8 = b"\xef\xbb\xbf"


def strict_text(b):
    try:
        return bytes(b).decode("utf-8")
    except UnicodeDecodeError:
        return None


def _string_site(text):
    """Index of the closing quotation mark of the LAST string literal of the text (a place inside a string value)."""
    return text.rindex('"')


def byte_variants(text):
    """[(variant, bytes)] built from a JSON request text that contains at least one string literal."""
    u = text.encode("utf-8")
    q = len(text[:_string_site(text)].encode("utf-8"))       # byte offset of a place inside the last string literal
    first_colon = u.index(b":")

    def inside(x):
        return u[:q] + x + u[q:]

    out = [
        ("as-is", u),
        ("ws-wrapped", b" \r\n\t" + u + b"\n "),
        ("multibyte", inside("é日\U0001f600".encode("utf-8"))),
        ("bom-inside-string", inside(BOM8)),
        ("utf8-bom", BOM8 + u),
        ("utf8-bom-twice", BOM8 + BOM8 + u),
        ("utf8-bom-ws", BOM8 + b" " + u),
        ("bom-only", BOM8),
        ("bom-suffix", u + BOM8),
        ("utf16le", text.encode("utf-16-le")),
        ("utf16be", text.encode("utf-16-be")),
        ("utf32le", text.encode("utf-32-le")),
        ("utf32be", text.encode("utf-32-be")),
        ("utf16le-bom", b"\xff\xfe" + text.encode("utf-16-le")),
        ("utf16be-bom", b"\xfe\xff" + text.encode("utf-16-be")),
        ("utf32le-bom", b"\xff\xfe\x00\x00" + text.encode("utf-32-le")),
        ("utf32be-bom", b"\x00\x00\xfe\xff" + text.encode("utf-32-be")),
        ("nul-prefix", b"\x00" + u),
        ("nul-suffix", u + b"\x00"),
        ("nul-in-string", inside(b"\x00")),
        ("nul-between-tokens", u[:first_colon + 1] + b"\x00" + u[first_colon + 1:]),
        ("nbsp-prefix", "\xa0".encode("utf-8") + u),
        ("invalid-start", b"\xff" + u),
        ("invalid-continuation", inside(b"\xc3\x28")),
        ("truncated-multibyte", inside(b"\xe6\x97")),
        ("overlong-slash", inside(b"\xc0\xaf")),
        ("overlong-quote", u[:q] + b"\xc0\xa2" + u[q + 1:]),
        ("overlong-brace", b"\xc1\xbb" + u[1:] if u[:1] == b"{" else b"\xc1\x9b" + u[1:]),
        ("overlong-nul", inside(b"\xc0\x80")),
        ("surrogate-utf8", inside(b"\xed\xa0\x80")),
        ("surrogate-pair-utf8", inside(b"\xed\xa0\xbd\xed\xb8\x80")),
        ("five-byte-lead", inside(b"\xf8\x88\x80\x80\x80")),
        ("latin1-char", inside(b"\xe9")),
        ("latin1-nbsp-prefix", b"\xa0" + u),
        ("cp1252-quotes", inside(b"\x93x\x94")),
        ("lone-continuation", inside(b"\x80")),
    ]
    return out


BASE_REQUESTS = [
    ("call", '{"jsonrpc": "2.0", "method": "one", "params": ["v"], "id": 1}'),
    ("notification", '{"jsonrpc": "2.0", "method": "one", "params": ["n"]}'),
    ("call-1.0", '{"method": "opt", "params": {"a": "x"}, "id": "r"}'),
    ("batch", '[{"jsonrpc": "2.0", "method": "add", "params": [1, 2], "id": 1}, {"jsonrpc": "2.0", "method": "one", "params": ["b"]}]'),
    ("unknown", '{"jsonrpc": "2.0", "method": "nosuch", "params": ["u"], "id": 2}'),
]

PATHS = ["post", "direct-bytes", "direct-bytearray", "cgi", "socket-tcp", "socket-unix"]

# --------------------------------------------------------------------------------------------
# the paths


def _registry():
    import servercases as sc
    want = ("add", "noargs", "one", "opt", "star", "kw", "boom")
    return {"funcs": [f for f in sc.REGISTRIES["funcs"]["funcs"] if f[0] in want], "inst": None, "custom": None}


def _reply_doc(raw):
    """Reply bytes / text -> ('empty',) | ('doc', value) | ('not-json', …)."""
    import servercases as sc
    if isinstance(raw, (bytes, bytearray)):
        try:
            raw = bytes(raw).decode("utf-8")
        except UnicodeDecodeError:
            return ("not-json", repr(raw[:80]))
    return sc.canon_real_reply("ok", raw)


class Outcome(object):
    """What one path did with one byte string."""
    __slots__ = ("path", "kind", "reply", "raw", "status", "log", "note")

    def __init__(self, path):
        self.path = path
        self.kind = "ok"        # ok | raise
        self.reply = None       # canonical reply
        self.raw = None
        self.status = None      # HTTP status (post / socket)
        self.log = []
        self.note = ""


def run_direct(body, ver, as_bytearray=False):
    import servercases as sc
    real = sc.Real(_registry(), ver, False, "absent")
    o = Outcome("direct-bytearray" if as_bytearray else "direct-bytes")
    k, v = impl.outcome(real.disp._marshaled_dispatch, bytearray(body) if as_bytearray else bytes(body), None)
    o.log = list(real.log)
    o.raw = v
    if k == "err":
        o.kind, o.note = "raise", "%s: %s" % (type(v).__name__, str(v)[:120])
    else:
        o.reply = _reply_doc(v)
    return o


def run_text(text, ver):
    """The reference: the text itself handed to the dispatcher."""
    import servercases as sc
    real = sc.Real(_registry(), ver, False, "absent")
    o = Outcome("text")
    k, v = impl.outcome(real.disp._marshaled_dispatch, text, None)
    o.log = list(real.log)
    o.raw = v
    if k == "err":
        o.kind, o.note = "raise", "%s: %s" % (type(v).__name__, str(v)[:120])
    else:
        o.reply = _reply_doc(v)
    return o


def run_post(body, ver):
    import servercases as sc
    real = sc.Real(_registry(), ver, False, "absent")
    o = Outcome("post")
    try:
        status, out, _headers = real.post(bytes(body))
    except Exception as ex:  # noqa: BLE001
        o.kind, o.note = "raise", "%s: %s" % (type(ex).__name__, str(ex)[:120])
        o.log = list(real.log)
        return o
    o.log = list(real.log)
    o.status = status[0] if len(status) == 1 else status
    o.raw = out
    o.reply = _reply_doc(out)
    return o


def run_cgi(body, ver):
    """The real CGI handler: body on sys.stdin (UTF-8 text stream over the bytes), reply on sys.stdout."""
    import servercases as sc
    import jsonrpclib.SimpleJSONRPCServer as S
    cfg = impl.jsonrpclib.config.Config(version=ver, use_jsonclass=False)
    h = S.CGIJSONRPCRequestHandler(config=cfg)
    log = []
    for name, c in _registry()["funcs"]:
        h.register_function(sc.make_callable(c, name, "func", log), name)

    class Out(io.StringIO):
        def __init__(self):
            io.StringIO.__init__(self)
            self.buffer = io.BytesIO()

    o = Outcome("cgi")
    old = sys.stdin, sys.stdout
    env_old = dict((k, os.environ.get(k)) for k in ("REQUEST_METHOD", "CONTENT_LENGTH"))
    out = Out()
    sys.stdin = io.TextIOWrapper(io.BytesIO(bytes(body)), encoding="utf-8", newline="")
    sys.stdout = out
    os.environ["REQUEST_METHOD"] = "POST"
    os.environ["CONTENT_LENGTH"] = str(len(body))
    try:
        k, v = impl.outcome(h.handle_request)
    finally:
        sys.stdin, sys.stdout = old
        for kk, vv in env_old.items():
            if vv is None:
                os.environ.pop(kk, None)
            else:
                os.environ[kk] = vv
    o.log = list(log)
    o.raw = out.buffer.getvalue()
    if k == "err":
        o.kind, o.note = "raise", "%s: %s" % (type(v).__name__, str(v)[:120])
        if o.raw:
            o.reply = _reply_doc(o.raw)
    else:
        o.reply = _reply_doc(o.raw)
    return o


class SocketServers(object):
    """One real SimpleJSONRPCServer per (family, version), each serving in its own thread; stopped at the end of the stage."""

    def __init__(self):
        self.servers = {}
        self.tmpdir = None

    def get(self, family, ver):
        import servercases as sc
        import jsonrpclib.SimpleJSONRPCServer as S
        key = (family, ver)
        if key in self.servers:
            return self.servers[key]
        cfg = impl.jsonrpclib.config.Config(version=ver, use_jsonclass=False)
        if family == "unix":
            import tempfile
            if self.tmpdir is None:
                self.tmpdir = tempfile.mkdtemp(prefix="jrv-bytes-")
            addr = os.path.join(self.tmpdir, "s%d.sock" % len(self.servers))
            srv = S.SimpleJSONRPCServer(addr, logRequests=False, config=cfg, address_family=socket.AF_UNIX)
        else:
            srv = S.SimpleJSONRPCServer(("127.0.0.1", 0), logRequests=False, config=cfg)
            addr = srv.server_address
        log = []
        for name, c in _registry()["funcs"]:
            srv.register_function(sc.make_callable(c, name, "func", log), name)
        th = threading.Thread(target=srv.serve_forever, kwargs={"poll_interval": 0.02}, daemon=True)
        th.start()
        self.servers[key] = (srv, addr, log, th)
        return self.servers[key]

    def close(self):
        for srv, _addr, _log, th in self.servers.values():
            try:
                srv.shutdown()
                srv.server_close()
            except Exception:  # noqa: BLE001
                pass
            th.join(5)
        self.servers = {}
        if self.tmpdir is not None:
            import shutil
            shutil.rmtree(self.tmpdir, ignore_errors=True)
            self.tmpdir = None


def run_socket(servers, family, body, ver):
    import core
    srv, addr, log, _th = servers.get(family, ver)
    del log[:]
    o = Outcome("socket-" + family)
    s = socket.socket(socket.AF_UNIX if family == "unix" else socket.AF_INET, socket.SOCK_STREAM)
    s.settimeout(20)
    try:
        s.connect(addr)
        s.sendall(b"POST / HTTP/1.0\r\nContent-Type: application/json-rpc\r\nContent-Length: %d\r\n\r\n" % len(body) + bytes(body))
        chunks = []
        while True:
            c = s.recv(65536)
            if not c:
                break
            chunks.append(c)
    except (socket.timeout, ConnectionError, OSError) as ex:
        raise core.InfraError("socket trouble talking to the real server (%s): %r" % (family, ex))
    finally:
        s.close()
    data = b"".join(chunks)
    head, _, payload = data.partition(b"\r\n\r\n")
    try:
        o.status = int(head.split(b" ", 2)[1])
    except (IndexError, ValueError):
        o.status = None
    o.raw = payload
    o.reply = _reply_doc(payload)
    o.log = list(log)
    return o


def run_path(path, body, ver, servers=None):
    if path == "post":
        return run_post(body, ver)
    if path == "direct-bytes":
        return run_direct(body, ver)
    if path == "direct-bytearray":
        return run_direct(body, ver, True)
    if path == "cgi":
        return run_cgi(body, ver)
    own = servers is None
    servers = servers or SocketServers()
    try:
        return run_socket(servers, path.split("-", 1)[1], body, ver)
    finally:
        if own:
            servers.close()


# --------------------------------------------------------------------------------------------
# the monitor


def _code_of(reply):
    if not reply or reply[0] != "doc" or not isinstance(reply[1], dict) or not isinstance(reply[1].get("error"), dict):
        return None
    return reply[1]["error"].get("code")


def _has_result(reply):
    if not reply or reply[0] != "doc":
        return False
    docs = reply[1] if isinstance(reply[1], list) else [reply[1]]
    return any(isinstance(d, dict) and d.get("error") is None and "result" in d for d in docs)


def _calls(log):
    import servercases as sc
    return sorted(sc.call_counts(log).items())


def monitor(body, o, ver):
    """(message or None, key).  `o`: the Outcome of one path on `body`."""
    import servercases as sc
    import servercases_ext as sx
    text = strict_text(body)
    shown = "%s bytes %s" % (o.path, bytes(body[:48]).hex() + ("…" if len(body) > 48 else ""))
    if text is None:
        if o.log:
            return ("%s: the body is not UTF-8 (it has no text), yet %r was invoked; reply %r" % (shown, _calls(o.log), _short(o.raw)),
                    _key(o, body, "undecodable-invoked"))
        if _has_result(o.reply):
            return ("%s: the body is not UTF-8 (it has no text), yet a result was returned: %r" % (shown, _short(o.raw)),
                    _key(o, body, "undecodable-result"))
        return None, None
    verdict = sx.rfc8259_accepts(text)
    if verdict is False:
        why = "the body is the UTF-8 encoding of %r, which RFC 8259 rejects" % (text[:60],)
        if o.log:
            return "%s: %s, yet %r was invoked; reply %r" % (shown, why, _calls(o.log), _short(o.raw)), _key(o, body, "malformed-invoked")
        if o.kind == "raise":
            return "%s: %s: it must be answered -32700, %s was raised" % (shown, why, o.note), _key(o, body, "malformed-raised")
        if o.reply is None or o.reply[0] != "doc" or isinstance(o.reply[1], list) or _code_of(o.reply) != -32700:
            return ("%s: %s: it must be answered with the single -32700 error object, the reply is %r" % (shown, why, _short(o.raw)),
                    _key(o, body, "malformed-code"))
        return None, None
    if verdict is None or not sx.text_domain(text):
        return None, None
    ref = run_text(text, ver)
    if (o.kind, sc.struct_key(list(o.reply or ())), _calls(o.log)) != (ref.kind, sc.struct_key(list(ref.reply or ())), _calls(ref.log)):
        return ("%s: the body is the UTF-8 encoding of the JSON text %r, yet it is not handled as that text: text -> %s %r invocations %r; "
                "bytes -> %s %r invocations %r" % (shown, text[:80], ref.kind, ref.reply, _calls(ref.log), o.kind, o.reply or o.note, _calls(o.log)),
                _key(o, body, "not-as-text"))
    return None, None


def _family(path):
    return "direct" if path.startswith("direct") else path


def _key(o, body, what):
    return "bytes/%s:%s" % (_family(o.path), what)


def _short(v):
    s = repr(v)
    return s if len(s) < 240 else s[:240] + "..."


def real_class(o):
    """What the real path made of the body, in the vocabulary of JRV.Model.ByteBody (post / socket paths)."""
    if o.status == 500:
        return "undecodable"
    if o.reply is not None and o.reply[0] == "doc" and not isinstance(o.reply[1], list) and _code_of(o.reply) == -32700 and not o.log:
        return "malformed"
    return "wellformed"


# --------------------------------------------------------------------------------------------
# the stage of C05


def stage(ctx, pid="C05"):
    """Every variant of every base request through the fake-connection do_POST and the direct call (both tiers), the CGI handler and
    real sockets for a seeded sample (quick) / everything (thorough); monitor + correspondence with `bytebody` of the model."""
    rng = ctx.derive_rng("bytes")
    servers = SocketServers()
    lines, reals, cases = [], [], []
    try:
        for bname, text in BASE_REQUESTS:
            for vname, body in byte_variants(text):
                if ctx.thorough:
                    paths = list(PATHS)
                else:
                    paths = ["post", rng.choice(["direct-bytes", "direct-bytearray"])]
                    if rng.random() < 0.35 or (bname == "call" and vname.startswith("utf8-bom")):
                        paths.append("cgi")
                    if rng.random() < 0.2 or (bname == "call" and vname in ("utf8-bom", "utf16le", "invalid-start", "as-is")):
                        paths.append(rng.choice(["socket-tcp", "socket-unix"]))
                ver = rng.choice([1.0, 2.0])
                for path in paths:
                    o = run_path(path, body, ver, servers)
                    case = {"bytes_case": True, "base": bname, "variant": vname, "path": path, "body_hex": bytes(body).hex(), "ver": ver}
                    if path.startswith("direct"):
                        # outside the domain ("data: A JSON request string"): run (the dispatcher must survive it), never judged
                        ctx.hist["out-of-domain/direct-bytes"] += 1
                        continue
                    m, key = monitor(body, o, ver)
                    if m:
                        ctx.violate(case, "codes: " + m, key=key)
                    ctx.hist["class:bytes/%s/%s" % (vname, path)] += 1
                    text_ = strict_text(body)
                    ctx.count(case_repr={"kind": "bytes/" + vname, "path": path, "body_hex": bytes(body).hex()[:200], "reply": _short(o.raw)},
                              nontrivial_key=("bytes", bname, vname, path) if text_ != text else None, kind="bytes/" + path)
                    if path in ("post", "socket-tcp", "socket-unix"):
                        lines.append("bytebody " + (bytes(body).hex() or "-"))
                        reals.append(real_class(o))
                        cases.append(case)
    finally:
        servers.close()
    outs = ctx.lean(lines) if lines else []
    for case, want, got in zip(cases, reals, outs):
        if want != got:
            ctx.disagree({k: case[k] for k in ("base", "variant", "path", "body_hex")}, want, got, component="bytebody")
    ctx.traces_validated += len(lines)
    ctx.rule += ("; bodies as bytes (harness/bytecases.py): %d request shapes x %d byte variants (BOM prefixes UTF-8 / UTF-16 / UTF-32, "
                 "UTF-16 / UTF-32 without mark, invalid / overlong / truncated UTF-8, surrogates in UTF-8, NUL, latin-1 and cp1252 bytes, "
                 "next to valid multi-byte and white-space-wrapped encodings) through do_POST on a fake connection, real TCP / Unix-socket "
                 "servers and the CGI handler reading stdin (class:bytes/<variant>/<path>); bytes / bytearray handed straight to "
                 "_marshaled_dispatch are run but not judged (out-of-domain/direct-bytes)"
                 % (len(BASE_REQUESTS), len(byte_variants(BASE_REQUESTS[0][1]))))
    ctx.assumptions.append(
        "direct byte arguments are outside the domain: _marshaled_dispatch(data) documents data as 'A JSON request string'; every entry "
        "point of the library (do_POST, the CGI handler) decodes the body before calling it, so bytes / bytearray passed to it directly "
        "(which json.loads would decode on its own: byte-order marks, UTF-16 / UTF-32 detection) are run but not judged "
        "(histogram key out-of-domain/direct-bytes); the empty b'' body of fix e82f118 is still checked (empty_body_check)")
    ctx.assumptions.append(
        "bodies as bytes: a body that is not valid UTF-8 is not a text, so C05 does not say with which code it is turned away (do_POST "
        "answers HTTP 500 with a -32603 fault, the CGI process dies in sys.stdin.read): the monitor requires that nothing is invoked and "
        "no result is returned; CGI stdin is modelled as a strict UTF-8 text stream over the bytes")


def replay(case):
    body = bytes.fromhex(case["body_hex"])
    o = run_path(case["path"], body, case["ver"])
    print("path %s, body bytes %s (strict UTF-8 text: %r)" % (case["path"], body.hex(), strict_text(body)))
    print("->", o.kind, o.note or "", "status", o.status, "reply", _short(o.raw), "invocations", _calls(o.log))
    m, _key = monitor(body, o, case["ver"])
    print(("VIOLATION reproduced: " + m) if m else "no violation on this input")
    return 1 if m else 0
