"""
C01 — the METHOD NAME dimension of the property's quantifier ("all method names: identifiers, dotted paths, arbitrary
Unicode names; excluding dunder names and the proxy's own attributes").

The other generators of harness/props/c01.py draw names from identifiers, a small Unicode pool and underscore shapes.
This module adds the names that LOOK special to some layer between the caller and the callable — and must not be:

  class (histogram key `name/<class>`)   examples
  reserved-rpc-prefix                    rpc.x  rpc.echo  rpc.v2.echo  rpc.  rpc..x      (JSON-RPC 2.0 section 4.3 "reserved")
  rpc-lookalike                          rpc  rpcx.echo  RPC.x  x.rpc.y
  system-prefix                          system.x  system.listMethods (a user's own)  system.multicall
  system-lookalike                       system  systemx.y  System.x  x.system.y
  keyword                                class  def  None  lambda  if.else  self  print
  dispatcher-attr                        funcs  instance  register_function  _dispatch  _marshaled_dispatch  json_config
  client-word                            request  notify  close  history  _request_  x._request  (NOT own attributes)
  digit-first                            1st  0  9.9  1.x  -1
  unicode                                日本.語  ﬁ (NFKC-sensitive)  combining marks  astral  zero-width  RTL override
  whitespace                             " "  "a b"  tab  newline  leading / trailing blank  NBSP
  control-char                           NUL  DEL  ESC
  very-long                              2500 characters, 150 segments
  dot-at-ends                            .x  x.  .  ..  .x.
  empty-segment                          a..b  a...b                                      (and every dot-at-ends name)
  json-word                              null  true  id  method  params  jsonrpc  result  error  "  \\  {}  [ x ]  a,b  %s  {0}

`classify(name)` decides the classes by PREDICATE (never by membership in the fixed list), so names drawn at random are
counted under the same keys.  `fixed_scenarios` exercises EVERY name of the fixed list, on every run whatever the seed:
registered as a function AND (where the server can route it) as an attribute path of the registered instance, under every
pair of client / server versions in {1.0, 2.0}, as single call (positional through attribute access, keyword through one
getattr of the whole name), notification and at three MultiCall positions (positional, keyword, notification).
`registry_programs` adds the names of the system./rpc. families to registries WITH the introspection functions
registered (before and after), including a user's own function registered over `system.listMethods`.

Outside the quantifier (counted, not called): `name/excluded-dunder` (ServerProxy.__getattr__ refuses them by design),
`name/excluded-proxy-own-attr` (normal lookup finds `_request`, `_notify`, … on the helper objects before __getattr__ is
consulted).  Not routable by construction of the server and therefore not generated for INSTANCE paths (they are for
registered functions): a segment starting with `_` (`resolve_dotted_attribute` refuses it) — `name/instance-path-private-
segment-func-only`; more than 60 segments (fuel of the model's driver) — func only as well.
"""
import keyword

VARIADIC = [[], 0, True, True]

LONG_FLAT = "n" * 2500
LONG_UNI = "é€" * 600
LONG_DOTTED = ".".join("seg%d" % i for i in range(150))

FIXED = [
    ("reserved-rpc-prefix", ["rpc.x", "rpc.echo", "rpc.v2.echo", "rpc.", "rpc..x", "rpc.rpc.rpc", "rpc.system.listMethods", "rpc._x"]),
    ("rpc-lookalike", ["rpc", "rpcx.echo", "RPC.x", "Rpc.echo", "x.rpc.y", "rpc_.x", "rpc-x", "xrpc.y", " rpc.x"]),
    ("system-prefix", ["system.x", "system.listMethods", "system.methodHelp.x", "system.multicall", "system.", "system.system",
                       "system._private"]),
    ("system-lookalike", ["system", "systemx.y", "System.x", "SYSTEM.listMethods", "x.system.y", "system_listMethods"]),
    ("keyword", ["class", "def", "None", "True", "False", "import", "lambda", "if.else", "for.in.not", "print", "self", "cls",
                 "async.await", "match", "return.yield", "del", "global.nonlocal"]),
    ("dispatcher-attr", ["_dispatch", "funcs", "instance", "register_function", "register_instance",
                         "register_introspection_functions", "register_multicall_functions", "_marshaled_dispatch",
                         "_unmarshaled_dispatch", "_marshaled_single_dispatch", "_method_exception_fault", "system_listMethods",
                         "system_methodHelp", "json_config", "encoding", "allow_none", "use_builtin_types", "serve_forever",
                         "shutdown", "server_close", "socket", "handle_request", "set_notification_pool", "funcs.get",
                         "instance.funcs", "_dispatch._dispatch", "funcs.clear"]),
    ("client-word", ["request", "notify", "close", "history", "transport", "_request_", "x._request", "x._notify.y", "_notify.x",
                     "_request.x", "job_list", "_job", "results", "x._job_list", "send", "name", "x._Method__name"]),
    ("digit-first", ["1st", "0", "9.9", "1.x", "007", "-1", "1e5", "x.2", "٣"]),
    ("unicode", ["日本.語", "é", "e\u0301", "\U0001f600", "ключ.значение", "\ufb01", "ª", "İ", "ß.ẞ", "\u200b", "a\u0301.b\u0308",
                 "\ufeffx", "\U0001d4b3", "\u202eabc", "Ω.Ω", "\U0001f468\u200d\U0001f469.\U0001f600", "\ud7ff", "\uffff"]),
    ("whitespace", [" ", "a b", "\t", "\n", " lead", "trail ", "a. b", "a .b", "\r\n", "\u00a0", "\u3000", " . ", "a\nb.c", "\u2028"]),
    ("control-char", ["\u0000", "\u0000.\u0000", "\u007f", "\u001b[0m", "a\u0000b", "\u0085"]),
    ("very-long", [LONG_FLAT, LONG_UNI, LONG_DOTTED]),
    ("dot-at-ends", [".x", "x.", ".", "..", ".x.", "x..", "..x", "._x", "x._"]),
    ("empty-segment", ["a..b", "a...b", "a..b..c", "é..é"]),
    ("json-word", ["null", "true", "false", "id", "method", "params", "jsonrpc", "result", "error", "\"", "\\", "{}", "[]", "a\"b",
                   "a\\b", "a/b", "</script>", "%s", "{0}", "%", "a,b", "a:b", "[ x ]", "#", "?q=1", "*", "\\u0041", "\\n", "'",
                   "{\"method\": \"x\"}", "2.0", "__jsonclass__x", "x.__jsonclass__.y"]),
]

# outside the property's quantifier: counted in the histogram, never called as in-domain ops
EXCLUDED_DUNDER = ["__init__", "__x__", "__", "___", "__a.b__", "__rpc.x__", "__class__", "__call__", "__getattr__"]
EXCLUDED_OWN = ["_request", "_notify", "_run_request", "_request_notify", "_config", "_job_list", "_server", "_additional_headers",
                "_Method__name", "_Method__send", "_ServerProxy__host", "_ServerProxy__transport", "_ServerProxy__history"]

_KEYWORDS = set(keyword.kwlist) | set(getattr(keyword, "softkwlist", [])) | {"print", "self", "cls", "exec"}
_JSON_WORDS = {"null", "true", "false", "id", "method", "params", "jsonrpc", "result", "error", "2.0", "1.0"}
_JSON_CHARS = set("\"\\{}[],:/%#?*'<>&")
_CLIENT_WORDS = {"request", "notify", "close", "history", "transport", "send", "name", "results", "job_list", "server", "config",
                 "headers", "version", "verbose", "encoding"}
_dispatcher_attrs = []


def dispatcher_attrs():
    """The dunder-free attribute names of the real server-side classes (computed from the classes, not listed)."""
    if not _dispatcher_attrs:
        import servercases
        S = servercases.S
        names = set()
        for cls in (S.SimpleJSONRPCDispatcher, S.SimpleJSONRPCServer, S.PooledJSONRPCServer, S.SimpleJSONRPCRequestHandler):
            names.update(n for n in dir(cls) if not (n.startswith("__") and n.endswith("__")))
        names.update(["funcs", "instance", "json_config", "encoding", "allow_none", "use_builtin_types", "socket"])
        _dispatcher_attrs.append(names)
    return _dispatcher_attrs[0]


def is_dunder(n):
    return n.startswith("__") and n.endswith("__")


def classify(name):
    """The classes of the table above the name belongs to (by predicate)."""
    out = []
    segs = name.split(".")
    low = name.lower()
    if name.startswith("rpc."):
        out.append("reserved-rpc-prefix")
    elif "rpc" in low:
        out.append("rpc-lookalike")
    if name.startswith("system."):
        out.append("system-prefix")
    elif "system" in low:
        out.append("system-lookalike")
    if any(s in _KEYWORDS for s in segs):
        out.append("keyword")
    datt = dispatcher_attrs()
    if any(s in datt for s in segs):
        out.append("dispatcher-attr")
    if any(s.strip("_") in _CLIENT_WORDS or s.lstrip("_") in ("request", "notify", "job", "job_list", "Method__name") for s in segs):
        out.append("client-word")
    if any(s[:1].isdigit() or (s[:1] == "-" and s[1:2].isdigit()) for s in segs):
        out.append("digit-first")
    if any(ord(ch) > 127 for ch in name):
        out.append("unicode")
    if any(ch.isspace() for ch in name):
        out.append("whitespace")
    if any(ord(ch) < 32 or 127 <= ord(ch) < 160 for ch in name):
        out.append("control-char")
    if len(name) >= 1000:
        out.append("very-long")
    if name.startswith(".") or name.endswith("."):
        out.append("dot-at-ends")
    if "" in segs:
        out.append("empty-segment")
    if any(s in _JSON_WORDS for s in segs) or any(ch in _JSON_CHARS for ch in name) or "__jsonclass__" in name:
        out.append("json-word")
    return out


def attr_routable(name):
    """Can the server route the name through the attributes of a registered instance (and the model's driver read it)?"""
    segs = name.split(".")
    return not any(s.startswith("_") for s in segs) and len(segs) <= 60


def in_domain(name, excl):
    """Inside the quantifier: not a dunder name, not an own attribute of the proxy-side objects, not empty."""
    return bool(name) and not is_dunder(name) and name not in excl


def walked_path(name, excl):
    """The name as nested attribute accesses where every access reaches __getattr__; else one getattr of the whole name."""
    segs = name.split(".")
    if all(s and s not in excl and not is_dunder(s) for s in segs):
        return segs
    return [name]


def conflicts(a, b):
    return a == b or a.startswith(b + ".") or b.startswith(a + ".")


def chunks(names, size=5):
    """Groups of at most `size` names, no name of a group a dotted prefix of another."""
    out = []
    for n in names:
        for g in out:
            if len(g) < size and not any(conflicts(n, u) for u in g):
                g.append(n)
                break
        else:
            out.append([n])
    return out


def _job(callee, path, args=(), kwargs=None, notify=False):
    return {"notify": notify, "callee": callee, "path": list(path), "args": list(args), "kwargs": kwargs or {}, "tup": False}


def _call(callee, path, args=(), kwargs=None, op="call"):
    return {"op": op, "callee": callee, "path": list(path), "args": list(args), "kwargs": kwargs or {}, "tup": False}


VERSION_PAIRS = ((1.0, 1.0), (2.0, 2.0), (1.0, 2.0), (2.0, 1.0))


def fixed_scenarios(excl, excl_first, pairs=VERSION_PAIRS, classes=None):
    """One scenario per (class, chunk of names, target, version pair): every name as single call in both argument styles
    (and both ways of spelling the attribute access), as notification, and at three positions of one MultiCall batch."""
    out = []
    for label, names in FIXED:
        if classes is not None and label not in classes:
            continue
        # `excl`: own attributes of ANY helper object (decides how a path is spelled); `excl_first`: of the objects a whole
        # name is looked up on (decides whether the name is inside the quantifier at all)
        names = [n for n in names if in_domain(n, excl_first)]
        for target in ("func", "attr"):
            usable = [n for n in names if target == "func" or attr_routable(n)]
            for group in chunks(usable):
                cs = [{"name": n, "target": target, "sig": VARIADIC,
                       "beh": ["echo"] if i % 2 == 0 else ["ret", [label, i, None]]} for i, n in enumerate(group)]
                cs.append({"name": "plain", "target": "func", "sig": VARIADIC, "beh": ["ret", 0]})
                ops, jobs = [], []
                for i, n in enumerate(group):
                    w = walked_path(n, excl)
                    ops.append(_call(i, w, [i, "p", [None]]))
                    ops.append(_call(i, [n], [], {"a": i, "k": {"c": 0}}))
                    ops.append(_call(i, w, [i], op="notify"))
                    jobs.append(_job(i, w, [i, 7]))
                    jobs.append(_job(i, [n], [], {"pos": i}))
                    jobs.append(_job(i, w, [], {"n": i}, notify=True))
                    if i == 0:
                        jobs.append(_job(len(group), ["plain"], [1]))
                ops.append({"op": "batch", "jobs": jobs})
                ops.append({"op": "batch", "jobs": [_job(0, [group[0]], [0])]})
                for cver, sver in pairs:
                    out.append({"cver": cver, "carg": None, "cuj": False, "sver": sver, "suj": False, "mver": cver, "muj": False,
                                "callables": cs, "ops": ops, "names": label})
    return out


# ------------------------------------------------------------------------------------------------
# with the introspection functions registered: registry programs (see harness/c01reg.py for the op format)

def registry_programs():
    def ret(uid):
        return {"sig": VARIADIC, "beh": ["ret", ["c%d" % uid, uid]]}
    cs = [ret(i) for i in range(8)]

    def reg(**op):
        return dict({"op": "reg"}, **op)

    def call(name, args=(), kwargs=None, op="call", whole=False):
        return {"op": op, "path": [name] if whole else name.split("."), "args": list(args), "kwargs": kwargs or {}, "tup": False}

    def batch(*names):
        return {"op": "batch", "jobs": [{"notify": i % 3 == 2, "path": n.split("."), "args": [i] if i % 2 == 0 else [],
                                         "kwargs": {} if i % 2 == 0 else {"k": i}, "tup": False} for i, n in enumerate(names)]}

    def leaf(uid):
        return {"callee": uid, "none": False, "children": []}

    def ns(children):
        return {"callee": None, "none": False, "children": children}
    tree = [["system", ns([["y", leaf(2)], ["listMethods2", leaf(3)], ["deep", ns([["leaf", leaf(6)]])]])],
            ["rpc", ns([["y", leaf(4)], ["v2", ns([["echo", leaf(5)]])]])]]
    progs = {
        # functions under system.* / rpc.* registered AFTER the introspection functions
        "introspection-then-functions": [
            reg(do="introspection"), call("system.listMethods"),
            reg(do="regfunc", name="system.x", callee=0, style="direct"), call("system.x", [1]), call("system.x", [], {"k": 1}),
            reg(do="regfunc", name="rpc.x", callee=1, style="decorator"), call("rpc.x", [1]), call("rpc.x", [], {"k": 1}, whole=True),
            call("system.listMethods"), batch("system.x", "rpc.x", "system.x", "rpc.x"), call("rpc.x", [2], op="notify"),
            call("system.x", [2], op="notify"), call("system.methodSignature", ["rpc.x"])],
        # … registered BEFORE them
        "functions-then-introspection": [
            reg(do="regfunc", name="system.x", callee=0, style="direct"), reg(do="regfunc", name="rpc.v2.echo", callee=1, style="direct"),
            reg(do="regfunc", name="rpc", callee=7, style="direct"),
            call("system.x", [1]), call("rpc.v2.echo", [1]), call("rpc", [1]),
            reg(do="introspection"), call("system.x", [2]), call("rpc.v2.echo", [], {"k": 2}), call("rpc", [], {"k": 2}),
            call("system.listMethods"), batch("rpc.v2.echo", "system.x", "rpc", "rpc.v2.echo")],
        # attribute paths system.* / rpc.* of the registered instance, introspection registered
        "introspection-and-instance-paths": [
            reg(do="introspection"), reg(do="newinst", tree=tree), reg(do="reginst", inst=0, dotted=True),
            call("system.y", [1]), call("system.listMethods2", [], {"k": 1}), call("system.deep.leaf"), call("rpc.y", [1]),
            call("rpc.v2.echo", [], {"k": 1}), call("rpc.v2.echo", [1], whole=True), call("system.listMethods"),
            batch("rpc.y", "system.y", "rpc.v2.echo", "system.deep.leaf"), call("rpc.y", [2], op="notify"),
            reg(do="reginst", inst=0, dotted=False), call("rpc.y", [3]), call("system.y", [3])],
        # a user's own function over the name of an introspection function, then deleted, then introspection again
        "user-function-over-introspection-name": [
            reg(do="introspection"), call("system.listMethods"),
            reg(do="regfunc", name="system.listMethods", callee=0, style="direct"), call("system.listMethods", [1]),
            call("system.listMethods", [], {"k": 1}), batch("system.listMethods", "system.listMethods"),
            reg(do="regfunc", name="system.methodHelp", callee=1, style="decorator"), call("system.methodHelp", ["x"]),
            reg(do="introspection"), call("system.listMethods"),
            reg(do="regfunc", name="system.listMethods", callee=2, style="direct"), call("system.listMethods", [2]),
            reg(do="delfunc", name="system.listMethods"), call("system.listMethods", [3])],
    }
    out = []
    for label in sorted(progs):
        for cver in (1.0, 2.0):
            for sver in (1.0, 2.0):
                out.append({"cver": cver, "carg": None, "cuj": False, "sver": sver, "suj": False, "mver": cver, "muj": False,
                            "registry": True, "callables": cs, "ops": progs[label], "label": "names/" + label, "names": "introspection"})
    return out


# ------------------------------------------------------------------------------------------------
# random draws

SPECIAL_SEGMENTS = ["rpc", "system", "RPC", "rpcx", "class", "def", "None", "lambda", "import", "self", "print", "funcs", "instance",
                    "register_function", "json_config", "shutdown", "listMethods", "methodHelp", "multicall", "request", "notify",
                    "close", "1", "007", "9z", "-1", " ", "a b", "\t", " x", "x ", "\n", "null", "true", "id", "method", "params",
                    "jsonrpc", "result", "error", "\"", "\\", "{}", "a,b", "%s", "{0}", "\u0000", "\u007f", "\ufb01", "e\u0301",
                    "\u200b", "\u00a0", "İ", "x" * 300]


def special_segment(rng):
    return rng.choice(SPECIAL_SEGMENTS)


def special_name(rng, target, excl):
    """A whole name of the fixed list (None when the draw is not usable for the target)."""
    label, names = rng.choice(FIXED)
    n = rng.choice(names)
    if not in_domain(n, excl) or len(n) > 600 or (target == "attr" and not attr_routable(n)):
        return None
    return n
