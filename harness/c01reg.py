"""
C01 — two families of scenarios for harness/props/c01.py.

(1) REGISTRY PROGRAMS: the server's registry as a MUTABLE object over a history.  A scenario with `"registry": true`
    starts from an empty dispatcher; its ops are calls / notifications / batches INTERLEAVED with operations of the
    program on the registry (op "reg"):

      {"op": "reg", "do": "regfunc", "name": N, "callee": uid, "style": "direct" | "decorator" | "byname"}
                        register_function(f, N) / register_function(name=N)(f) / f.__name__ = N; register_function(f)
      {"op": "reg", "do": "delfunc", "name": N}                        del server.funcs[N]
      {"op": "reg", "do": "introspection"}                              register_introspection_functions()
      {"op": "reg", "do": "newinst", "tree": [[seg, node]..]}           a new object (index = number of objects so far)
      {"op": "reg", "do": "reginst", "inst": k | null, "dotted": bool}  register_instance(object k | None, allow_dotted_names)
      {"op": "reg", "do": "setattr", "inst": k, "path": [..], "node": node}    setattr(walk(object k, path[:-1]), path[-1], …)
      {"op": "reg", "do": "delattr", "inst": k, "path": [..]}
          node = {"callee": uid | null, "none": bool, "children": [[seg, node]..]}
                 a callable of the pool / an attribute bound to None / a namespace object with attributes

    `callables` is a POOL: callable `uid` is one function object (`def`, variadic signature), which the program may
    register under several names, as function and as attribute, at different times; it logs its uid, so the monitor
    sees WHICH function object ran, and returns a value carrying its uid.

    What a name denotes at the moment of a call is decided by `Sim` — the statement of "the callable registered on the
    server" for a mutable registry: the entry of `funcs` if there is one, else the attribute the dotted path reaches on the
    object that is registered NOW (no segment starting with `_`), with the attributes that object has NOW.  It is
    computed from the ops alone (never from the state of the real dispatcher), again for every sub-sequence the shrinker
    tries.  `resolved(s)` turns the scenario into the form the monitor of c01.py reads: `callee` filled in; calls of
    names that denote nothing / a non-callable / `None` become out-of-domain ops (correspondence with the model only);
    calls of `system.listMethods` / `system.methodSignature` carry the value these bound methods must return NOW.

(2) SIZES: boundary sizes around powers of ten and two for every count the other generators keep small: jobs per batch
    (the results identify their position: the callable returns its arguments, job i is given i), positional arguments,
    keywords, segments of a dotted name, nesting depth and width of a value, registered functions, exchanges on one
    proxy / History, calls of one kept MultiCall, length of a method name.
"""

# ------------------------------------------------------------------------------------------------
# (2) sizes

SIZES_QUICK = list(range(0, 13)) + [15, 16, 17, 19, 20, 21, 31, 32, 33, 63, 64, 65, 99, 100, 101, 127, 128, 129]
SIZES_THOROUGH = SIZES_QUICK + [255, 256, 257, 511, 512, 513, 999, 1000, 1001, 1023, 1024, 1025]
# always run, on every rig: the sizes at which a decimal or binary representation of a position gains a digit
SIZES_CORE = [0, 1, 2, 9, 10, 11, 12, 16, 17, 99, 100, 101]

VARIADIC = [[], 0, True, True]


def _base(cver, sver, uj=False):
    return {"cver": cver, "carg": None, "cuj": uj, "sver": sver, "suj": uj, "mver": cver, "muj": uj}


def _versions(n):
    return ((2.0, 2.0), (1.0, 1.0), (1.0, 2.0), (2.0, 1.0))[n % 4]


def _call(callee, path, args=(), kwargs=None, op="call"):
    return {"op": op, "callee": callee, "path": list(path), "args": list(args), "kwargs": kwargs or {}, "tup": False}


def _job(callee, path, args=(), kwargs=None, notify=False):
    return {"notify": notify, "callee": callee, "path": list(path), "args": list(args), "kwargs": kwargs or {}, "tup": False}


def nest(n, leaf, kind):
    v = leaf
    for i in range(n):
        v = [v] if (kind == "list" or (kind == "mixed" and i % 2 == 0)) else {"k": v}
    return v


def sized_batch(n, mode, k=0):
    """A batch of `n` jobs whose results identify their position; `mode`: which jobs are notifications."""
    cs = [{"name": "echo", "target": "func", "sig": VARIADIC, "beh": ["echo"]},
          {"name": "ns.echo", "target": "attr", "sig": VARIADIC, "beh": ["echo"]},
          {"name": "seven", "target": "func", "sig": VARIADIC, "beh": ["ret", 7]}]
    jobs = []
    for i in range(n):
        notify = {"none": False, "all": True, "some": i % 5 == 3, "first": i == 0, "last": i == n - 1}[mode]
        r = i % 4
        if r == 0:
            jobs.append(_job(0, ["echo"], [i, "p"], notify=notify))
        elif r == 1:
            jobs.append(_job(1, ["ns", "echo"], [], {"i": i, "flag": None}, notify=notify))
        elif r == 2:
            jobs.append(_job(0, ["echo"], [[i], {"k": i}], notify=notify))
        else:
            jobs.append(_job(1, ["ns", "echo"], [i], notify=notify))
    if n == 0:
        op = {"op": "odd", "kind": "batch", "jobs": []}
    else:
        op = {"op": "batch", "jobs": jobs}
    cver, sver = _versions(n + k)
    return dict(_base(cver, sver), callables=cs, ops=[op], size=["batch-" + mode, n])


def sized_args(n, k=0):
    cs = [{"name": "echo", "target": "func", "sig": VARIADIC, "beh": ["echo"]},
          {"name": "ns.echo", "target": "attr", "sig": VARIADIC, "beh": ["echo"]}]
    kw = dict(("k%d" % i, i) for i in range(n))
    ops = [_call(0, ["echo"], list(range(n))), _call(1, ["ns", "echo"], [], kw),
           {"op": "batch", "jobs": [_job(0, ["echo"], list(range(n))), _job(0, ["echo"], [], kw, notify=True),
                                    _job(1, ["ns", "echo"], [], kw)]},
           _call(0, ["echo"], list(range(n)), op="notify")]
    cver, sver = _versions(n + k)
    return dict(_base(cver, sver), callables=cs, ops=ops, size=["args", n])


def sized_path(n, k=0):
    """A method name of `n` segments (n >= 1), as a registered function and as an attribute path of the instance (the
    attribute path has at most 60 segments: the driver reads attribute trees with a fuel of 64)."""
    segs = ["s%d" % i for i in range(n)]
    asegs = ["root"] + segs[:59]
    name = ".".join(segs)
    cs = [{"name": name, "target": "func", "sig": VARIADIC, "beh": ["ret", ["func", n]]},
          {"name": ".".join(asegs), "target": "attr", "sig": VARIADIC, "beh": ["ret", ["attr", n]]}]
    ops = [_call(0, segs, [1]), _call(1, asegs, [], {"k": 2}), _call(0, [name], [3]),
           {"op": "batch", "jobs": [_job(1, asegs, [4]), _job(0, segs, [5])]},
           _call(1, asegs, [6], op="notify")]
    cver, sver = _versions(n + k)
    return dict(_base(cver, sver), callables=cs, ops=ops, size=["path-segments", n])


def sized_value(n, what, k=0):
    """A value nested `n` deep / `n` wide, as argument and as result."""
    if what == "depth-list":
        v = nest(n, 0, "list")
    elif what == "depth-dict":
        v = nest(n, None, "dict")
    elif what == "depth-mixed":
        v = nest(n, "é", "mixed")
    elif what == "width-list":
        v = list(range(n))
    else:
        v = dict(("k%d" % i, i) for i in range(n))
    cs = [{"name": "echo", "target": "func", "sig": VARIADIC, "beh": ["echo"]},
          {"name": "give", "target": "func", "sig": VARIADIC, "beh": ["ret", v]}]
    ops = [_call(0, ["echo"], [v]), _call(1, ["give"]), _call(0, ["echo"], [], {"v": v}),
           {"op": "batch", "jobs": [_job(1, ["give"], [0]), _job(0, ["echo"], [v, 1])]}]
    cver, sver = _versions(n + k)
    return dict(_base(cver, sver), callables=cs, ops=ops, size=[what, n])


def sized_registry(n, k=0):
    """`n` registered callables (two thirds functions, one third attributes of the instance); the first, the last and the
    ones around the boundaries are called."""
    cs = [{"name": "f%d" % i, "target": "func" if i % 3 else "attr", "sig": VARIADIC, "beh": ["ret", i]} for i in range(n)]
    picks = sorted(set(i for i in (0, 1, 8, 9, 10, 11, 15, 16, 17, 99, 100, 101, n // 2, n - 2, n - 1) if 0 <= i < n))
    ops = [_call(i, ["f%d" % i], [i]) for i in picks]
    if picks:
        ops.append({"op": "batch", "jobs": [_job(i, ["f%d" % i]) for i in picks]})
    else:
        cs = [{"name": "other", "target": "func", "sig": VARIADIC, "beh": ["ret", 0]}]
        ops = [{"op": "odd", "kind": "call", "path": ["f0"], "args": [], "kwargs": {}}]
    cver, sver = _versions(n + k)
    return dict(_base(cver, sver), callables=cs, ops=ops, size=["registered-callables", n])


def sized_ops(n, k=0):
    """`n` exchanges on one proxy with one History (calls, every third a notification, every seventh a small batch)."""
    cs = [{"name": "echo", "target": "func", "sig": VARIADIC, "beh": ["echo"]}]
    ops = []
    for i in range(n):
        if i % 7 == 6:
            ops.append({"op": "batch", "jobs": [_job(0, ["echo"], [i]), _job(0, ["echo"], [i, i], notify=True)]})
        elif i % 3 == 2:
            ops.append(_call(0, ["echo"], [i], op="notify"))
        else:
            ops.append(_call(0, ["echo"], [i]))
    if not ops:
        ops = [{"op": "odd", "kind": "batch", "jobs": []}]
    cver, sver = _versions(n + k)
    return dict(_base(cver, sver), callables=cs, ops=ops, size=["exchanges", n])


def sized_reuse(n, k=0):
    """One kept MultiCall called `n` times (one or two new jobs before each call), one kept method called `n` times."""
    cs = [{"name": "echo", "target": "func", "sig": VARIADIC, "beh": ["echo"]},
          {"name": "ns.echo", "target": "attr", "sig": VARIADIC, "beh": ["echo"]}]
    ops = []
    for i in range(n):
        jobs = [_job(0, ["echo"], [i])]
        if i % 2:
            jobs.append(_job(1, ["ns", "echo"], [], {"i": i}, notify=i % 4 == 3))
        ops.append({"op": "batch", "mc": "mc0", "jobs": jobs})
        ops.append(dict(_call(1, ["ns", "echo"], [i]), keep=["m0", 2]))
    if not ops:
        ops = [{"op": "odd", "kind": "batch", "jobs": []}]
    cver, sver = _versions(n + k)
    return dict(_base(cver, sver), callables=cs, ops=ops, size=["kept-object-uses", n], reuse=True)


def sized_name(n, k=0):
    """A method name of `n` characters (n >= 1), non-ASCII every fourth character."""
    name = "".join("é" if i % 4 == 3 else "abcdefghij"[i % 10] for i in range(n))
    cs = [{"name": name, "target": "func", "sig": VARIADIC, "beh": ["ret", n]}]
    ops = [_call(0, [name], [n]), {"op": "batch", "jobs": [_job(0, [name]), _job(0, [name], [], {"k": n}, notify=True)]}]
    cver, sver = _versions(n + k)
    return dict(_base(cver, sver), callables=cs, ops=ops, size=["name-length", n])


def sized_mixed(n, k=0):
    """An out-of-domain batch of `n` jobs mixing fates (answered, unknown method, notification, fixed-arity callable given
    too many arguments): correspondence with the model only (per-position outcome, `C01_batch_mixed`)."""
    cs = [{"name": "echo", "target": "func", "sig": VARIADIC, "beh": ["echo"]},
          {"name": "two", "target": "func", "sig": [["a", "b"], 0, False, False], "beh": ["ret", 2]}]
    jobs = []
    for i in range(n):
        r = i % 4
        if r == 0:
            jobs.append({"notify": False, "path": ["echo"], "args": [i], "kwargs": {}})
        elif r == 1:
            jobs.append({"notify": False, "path": ["nosuch"], "args": [i], "kwargs": {}})
        elif r == 2:
            jobs.append({"notify": True, "path": ["echo"], "args": [i, i], "kwargs": {}})
        else:
            jobs.append({"notify": False, "path": ["two"], "args": [i, i, i], "kwargs": {}})
    cver, sver = _versions(n + k)
    return dict(_base(cver, sver), callables=cs, ops=[{"op": "odd", "kind": "batch", "jobs": jobs}], size=["batch-mixed-fates", n])


def sized_scenarios(sizes, full, k=0):
    """The sized scenarios for the listed sizes.  `full`: every dimension (else the batch sizes only, two modes)."""
    out = []
    for n in sizes:
        out.append(sized_batch(n, "none", k))
        out.append(sized_batch(n, "some", k))
        if not full:
            continue
        if n >= 1:
            out.append(sized_batch(n, ("all", "first", "last")[n % 3], k))
        out.append(sized_args(n, k))
        out.append(sized_mixed(n, k))
        if 1 <= n <= 129:
            out.append(sized_path(n, k))
            out.append(sized_name(n, k))
        if n <= 257:
            out.append(sized_value(n, ("depth-list", "depth-dict", "depth-mixed")[n % 3], k))
        out.append(sized_value(n, ("width-list", "width-dict")[n % 2], k))
        out.append(sized_registry(n, k))
        if n <= 129:
            out.append(sized_ops(n, k))
        if n <= 33:
            out.append(sized_reuse(n, k))
    return out


# ------------------------------------------------------------------------------------------------
# (1) registry programs: the statement of "the callable registered now"

INTRO_NAMES = ("system.listMethods", "system.methodSignature", "system.methodHelp")
SIGNATURES_NOT_SUPPORTED = "signatures not supported"


def _tree(pairs):
    return dict((seg, _node(n)) for seg, n in pairs)


def _node(n):
    return {"callee": n.get("callee"), "none": bool(n.get("none")), "children": _tree(n.get("children") or [])}


class Sim(object):
    """The registry as the ops of the program leave it (never read from the real dispatcher)."""

    def __init__(self):
        self.funcs = {}
        self.objs = []
        self.inst = None

    # -- the operations of the program; returns None, or the name of the exception Python raises
    def apply(self, op):
        do = op["do"]
        if do == "regfunc":
            self.funcs[op["name"]] = ("user", op["callee"])
        elif do == "delfunc":
            if op["name"] not in self.funcs:
                return "KeyError"
            del self.funcs[op["name"]]
        elif do == "introspection":
            for n in INTRO_NAMES:
                self.funcs[n] = ("intro", n)
        elif do == "newinst":
            self.objs.append(_tree(op["tree"]))
        elif do == "reginst":
            self.inst = op["inst"]
        elif do in ("setattr", "delattr"):
            children = self.objs[op["inst"]]
            path = op["path"]
            for seg in path[:-1]:
                node = children.get(seg)
                if node is None or node["none"]:
                    return "AttributeError"
                children = node["children"]
            if do == "setattr":
                children[path[-1]] = _node(op["node"])
            else:
                if path[-1] not in children:
                    return "AttributeError"
                del children[path[-1]]
        else:
            raise ValueError(do)
        return None

    # -- what a method name denotes now
    def resolve(self, name):
        """("user", uid) | ("intro", name) | ("noncallable",) | None (nothing, or an attribute bound to None)."""
        if name in self.funcs:
            return self.funcs[name]
        if self.inst is None or not name:
            return None
        node = {"callee": None, "none": False, "children": self.objs[self.inst]}
        for seg in name.split("."):
            if seg.startswith("_") or node["none"]:
                return None
            node = node["children"].get(seg)
            if node is None:
                return None
        if node["none"]:
            return None
        if node["callee"] is None:
            return ("noncallable",)
        return ("user", node["callee"])

    def listed(self):
        """What system.listMethods returns now: the registered function names and the public callable attributes of the
        registered instance."""
        names = set(self.funcs)
        if self.inst is not None:
            for seg, node in self.objs[self.inst].items():
                if not seg.startswith("_") and not node["none"] and node["callee"] is not None:
                    names.add(seg)
        return sorted(names)


def _expect_call(sim, name, args, kwargs):
    r = sim.resolve(name)
    if r is None or r[0] == "noncallable":
        return None
    if r[0] == "user":
        return r
    if r[1] == "system.listMethods" and not args and not kwargs:
        return ("intro", sim.listed())
    if r[1] == "system.methodSignature" and len(args) == 1 and not kwargs:
        return ("intro", SIGNATURES_NOT_SUPPORTED)
    return None


def resolved(s):
    """The scenario in the form the monitor reads (see the module docstring)."""
    sim = Sim()
    cs = [{"name": "#%d" % i, "target": "uid", "sig": c["sig"], "beh": c["beh"]} for i, c in enumerate(s["callables"])]
    ops = []
    for op in s["ops"]:
        kind = op["op"]
        if kind == "reg":
            sim.apply(op)
            ops.append(op)
        elif kind in ("call", "notify"):
            e = _expect_call(sim, ".".join(op["path"]), op["args"], op["kwargs"])
            if e is None or (e[0] == "intro" and kind == "notify"):
                ops.append(dict(op, op="odd", kind=kind))
            elif e[0] == "intro":
                ops.append(dict(op, callee=None, intro=[e[1]]))
            else:
                ops.append(dict(op, callee=e[1]))
        elif kind == "batch":
            jobs, ok = [], True
            for j in op["jobs"]:
                e = _expect_call(sim, ".".join(j["path"]), j["args"], j["kwargs"])
                if e is None or e[0] != "user":
                    ok = False
                    break
                jobs.append(dict(j, callee=e[1]))
            ops.append(dict(op, jobs=jobs) if ok and jobs else dict(op, op="odd", kind="batch"))
        else:
            ops.append(op)
    return dict(s, callables=cs, ops=ops)


def intro_names_at(s):
    """For every op, the method names that denote a bound method of the dispatcher when the op runs."""
    sim = Sim()
    out = []
    for op in s["ops"]:
        if op["op"] == "reg":
            sim.apply(op)
        out.append(set(n for n, e in sim.funcs.items() if e[0] == "intro"))
    return out


def stale_possible(s):
    """Indices of the call ops that call a name whose denotation CHANGED since an earlier call of the same name."""
    sim = Sim()
    seen, out = {}, []
    for n, op in enumerate(s["ops"]):
        if op["op"] == "reg":
            sim.apply(op)
            continue
        for j in (op.get("jobs") or [op]):
            if "path" not in j:
                continue
            name = ".".join(j["path"])
            now = sim.resolve(name)
            if name in seen and seen[name] != now:
                out.append(n)
            seen[name] = now
    return sorted(set(out))


# ------------------------------------------------------------------------------------------------
# the real side

class _Node(object):
    pass


class RealRegistry(object):
    """Executes the registry ops on a real dispatcher, with real function objects and real instance objects."""

    def __init__(self, disp, callables, log, make_def):
        disp.funcs.clear()
        disp.instance = None
        self.disp, self.callables, self.log, self.make_def = disp, callables, log, make_def
        self.defs = {}
        self.objs = []

    def fn(self, uid):
        if uid not in self.defs:
            c = self.callables[uid]
            self.defs[uid] = self.make_def(c["sig"], "#%d" % uid, "uid", c["beh"], self.log)
        return self.defs[uid]

    def build(self, node):
        if node.get("none"):
            return None
        if node.get("callee") is not None:
            return self.fn(node["callee"])
        obj = _Node()
        for seg, ch in node.get("children") or []:
            setattr(obj, seg, self.build(ch))
        return obj

    def apply(self, op):
        do, disp = op["do"], self.disp
        if do == "regfunc":
            f = self.fn(op["callee"])
            style = op.get("style", "direct")
            if style == "decorator":
                disp.register_function(name=op["name"])(f)
            elif style == "byname":
                f.__name__ = op["name"]
                disp.register_function(f)
            else:
                disp.register_function(f, op["name"])
        elif do == "delfunc":
            del disp.funcs[op["name"]]
        elif do == "introspection":
            disp.register_introspection_functions()
        elif do == "newinst":
            self.objs.append(self.build({"children": op["tree"]}))
        elif do == "reginst":
            disp.register_instance(None if op["inst"] is None else self.objs[op["inst"]], bool(op.get("dotted")))
        elif do in ("setattr", "delattr"):
            obj = self.objs[op["inst"]]
            for seg in op["path"][:-1]:
                obj = getattr(obj, seg)
            if do == "setattr":
                setattr(obj, op["path"][-1], self.build(op["node"]))
            else:
                delattr(obj, op["path"][-1])
        else:
            raise ValueError(do)
        return None


# ------------------------------------------------------------------------------------------------
# the model side

def enc_regop(op, callables, enc_beh):
    """The op as the `e2e` component of the driver reads it (a Python structure for pyval.enc)."""
    def callable_(uid):
        c = callables[uid]
        return [list(c["sig"]), enc_beh(c["beh"])]

    def attr(node):
        if node.get("none"):
            return "none"
        return [None if node.get("callee") is None else callable_(node["callee"]),
                [[seg, attr(ch)] for seg, ch in node.get("children") or []]]
    do = op["do"]
    if do == "regfunc":
        return ["regfunc", op["name"], callable_(op["callee"])]
    if do == "delfunc":
        return ["delfunc", op["name"]]
    if do == "introspection":
        return ["introspection", [[["method_name"], 0, False, False], ["ret", ""]]]
    if do == "newinst":
        return ["newinst", [[seg, attr(ch)] for seg, ch in op["tree"]]]
    if do == "reginst":
        return ["reginst", op["inst"]]
    if do == "setattr":
        return ["setattr", op["inst"], list(op["path"]), attr(op["node"])]
    if do == "delattr":
        return ["delattr", op["inst"], list(op["path"])]
    raise ValueError(do)


# ------------------------------------------------------------------------------------------------
# generators

def _leaf(uid):
    return {"callee": uid, "none": False, "children": []}


def _ns(children):
    return {"callee": None, "none": False, "children": children}


NONE_NODE = {"callee": None, "none": True, "children": []}

UNIVERSE = ["echo", "alpha", "sub.echo", "sub.deep.leaf", "ns.m", "é.ü", "sub"]


class _Builder(object):
    """Writes a program while simulating it (so that most operations are meaningful at the point they occur)."""

    def __init__(self, rng, value):
        self.rng, self.value = rng, value
        self.callables = []
        self.ops = []
        self.sim = Sim()

    def new_callable(self):
        uid = len(self.callables)
        r = self.rng.random()
        if r < 0.78:
            beh = ["ret", ["c%d" % uid, self.value(self.rng)]]
        elif r < 0.9:
            beh = ["rett", ["c%d" % uid, [uid, [self.value(self.rng)]]]]
        elif r < 0.95:
            beh = ["echo"]
        else:
            beh = ["raise", self.rng.choice(["ValueError", "KeyError", "MyError"]), "c%d" % uid]
        self.callables.append({"sig": VARIADIC, "beh": beh})
        return uid

    def some_callable(self, p_new=0.7):
        if not self.callables or self.rng.random() < p_new:
            return self.new_callable()
        return self.rng.randrange(len(self.callables))

    def reg(self, **op):
        op = dict({"op": "reg"}, **op)
        self.ops.append(op)
        self.sim.apply(op)

    def tree_for(self, names):
        """A tree holding a callable at each of the dotted names (later names win where they collide)."""
        root = []

        def place(children, segs, node):
            for pair in children:
                if pair[0] == segs[0]:
                    if len(segs) == 1:
                        pair[1] = node
                    else:
                        if pair[1]["callee"] is not None or pair[1]["none"]:
                            pair[1] = _ns([])
                        place(pair[1]["children"], segs[1:], node)
                    return
            if len(segs) == 1:
                children.append([segs[0], node])
            else:
                sub = _ns([])
                children.append([segs[0], sub])
                place(sub["children"], segs[1:], node)
        for nm in names:
            r = self.rng.random()
            node = _leaf(self.some_callable()) if r < 0.85 else (NONE_NODE if r < 0.93 else _ns([]))
            place(root, nm.split("."), node)
        return root

    def args(self):
        r = self.rng.random()
        if r < 0.5:
            return [self.value(self.rng) for _ in range(self.rng.randint(1, 2))], {}
        if r < 0.75:
            return [], {self.rng.choice(["k", "é", "a b"]): self.value(self.rng)}
        return [], {}

    def call(self, name, kind=None):
        kind = kind or self.rng.choice(["call", "call", "call", "notify"])
        r = self.sim.resolve(name)
        if r is not None and r[0] == "intro":
            a, k = ([], {}) if r[1] == "system.listMethods" else (["echo"], {})
            kind = "call"
        else:
            a, k = self.args()
        path = name.split(".") if self.rng.random() < 0.85 else [name]
        self.ops.append({"op": kind, "path": path, "args": a, "kwargs": k, "tup": False})

    def batch(self, names):
        jobs = []
        for nm in names:
            a, k = self.args()
            jobs.append({"notify": self.rng.random() < 0.25, "path": nm.split("."), "args": a, "kwargs": k, "tup": False})
        self.ops.append({"op": "batch", "jobs": jobs})

    def resolvable(self, names):
        return [n for n in names if (self.sim.resolve(n) or ("x",))[0] in ("user", "intro")]

    def below_namespace(self, k, name):
        """The longest prefix of the dotted name whose parent objects are namespaces (a function object placed at several
        names is ONE object: attributes set on it would show at all of them, which the tree of `Sim` does not express)."""
        children, segs = self.sim.objs[k], name.split(".")
        for i, seg in enumerate(segs[:-1]):
            node = children.get(seg)
            if node is not None and node["callee"] is not None:
                return ".".join(segs[:i + 1])
            if node is None or node["none"]:
                break
            children = node["children"]
        return name

    def mutate(self, focus):
        rng, sim = self.rng, self.sim
        r = rng.random()
        name = rng.choice(focus) if rng.random() < 0.75 else rng.choice(UNIVERSE)
        if r < 0.22:
            self.reg(do="regfunc", name=name, callee=self.some_callable(), style=rng.choice(["direct", "direct", "decorator", "byname"]))
        elif r < 0.32:
            known = sorted(n for n in sim.funcs if not n.startswith("system."))
            self.reg(do="delfunc", name=rng.choice(known) if known and rng.random() < 0.9 else name)
        elif r < 0.52 or not sim.objs:
            names = rng.sample(UNIVERSE[:6], rng.randint(1, 4))
            if rng.random() < 0.7:
                names = list(dict.fromkeys(names + focus[:2]))
            self.reg(do="newinst", tree=self.tree_for(names))
            self.reg(do="reginst", inst=len(sim.objs) - 1, dotted=rng.random() < 0.5)
        elif r < 0.6:
            self.reg(do="reginst", inst=rng.choice(list(range(len(sim.objs))) + [None]), dotted=rng.random() < 0.5)
        elif r < 0.82:
            k = sim.inst if (sim.inst is not None and rng.random() < 0.8) else rng.randrange(len(sim.objs))
            name = self.below_namespace(k, name)
            rr = rng.random()
            node = _leaf(self.some_callable()) if rr < 0.7 else (NONE_NODE if rr < 0.8 else {"callee": None, "none": False, "children": self.tree_for([rng.choice(["echo", "deep.leaf", "m"])])})
            self.reg(do="setattr", inst=k, path=name.split("."), node=node)
        elif r < 0.94:
            k = sim.inst if (sim.inst is not None and rng.random() < 0.8) else rng.randrange(len(sim.objs))
            name = self.below_namespace(k, name)
            self.reg(do="delattr", inst=k, path=name.split("."))
        else:
            self.reg(do="introspection")


def gen_registry_scenario(rng, value):
    """Phases of (a few operations on the registry, then calls), the calls returning to a small set of focus names."""
    cuj = rng.random() < 0.2
    s = {"cver": rng.choice([1.0, 2.0]), "carg": rng.choice([None, None, 1.0, 2.0]), "cuj": cuj,
         "sver": rng.choice([1.0, 2.0]), "suj": rng.random() < 0.2, "mver": rng.choice([1.0, 2.0]), "muj": cuj,
         "registry": True}
    jc_free = not (s["cuj"] or s["suj"])
    b = _Builder(rng, (lambda r: value(r, 3, 2, jc_free)))
    focus = rng.sample(UNIVERSE[:6], rng.randint(2, 3))
    for phase in range(rng.randint(2, 4)):
        for _ in range(rng.randint(1, 3) if phase else rng.randint(2, 4)):
            b.mutate(focus)
        for _ in range(rng.randint(1, 4)):
            pool = b.resolvable(focus + UNIVERSE)
            r = rng.random()
            if "system.listMethods" in b.sim.funcs and r < 0.15:
                b.call(rng.choice(["system.listMethods", "system.listMethods", "system.methodSignature"]))
            elif r < 0.75 and pool:
                names = [n for n in focus if n in pool] or pool
                if rng.random() < 0.25:
                    b.batch([rng.choice(names if rng.random() < 0.7 else pool) for _ in range(rng.randint(1, 4))])
                else:
                    b.call(rng.choice(names))
            else:
                b.call(rng.choice(focus if rng.random() < 0.7 else UNIVERSE))
    s["callables"] = b.callables
    s["ops"] = b.ops
    return s


def registry_hand_written():
    """One scenario per way the denotation of a name can change between two calls of it."""
    def ret(uid, extra=None):
        return {"sig": VARIADIC, "beh": ["ret", ["c%d" % uid, extra]]}
    cs = [ret(i, i * 10) for i in range(8)]

    def reg(**op):
        return dict({"op": "reg"}, **op)

    def call(name, args=(), kwargs=None, op="call"):
        return {"op": op, "path": name.split("."), "args": list(args), "kwargs": kwargs or {}, "tup": False}

    def batch(*names):
        return {"op": "batch", "jobs": [{"notify": False, "path": n.split("."), "args": [i], "kwargs": {}, "tup": False}
                                       for i, n in enumerate(names)]}
    first = [["echo", _leaf(0)], ["sub", _ns([["echo", _leaf(1)], ["deep", _ns([["leaf", _leaf(2)]])]])]]
    second = [["echo", _leaf(3)], ["sub", _ns([["echo", _leaf(4)], ["deep", _ns([["leaf", _leaf(5)]])]])]]
    progs = {
        # the registered instance is replaced
        "replace-instance": [
            reg(do="newinst", tree=first), reg(do="newinst", tree=second), reg(do="reginst", inst=0, dotted=True),
            call("echo", [1, "x"]), call("sub.echo", [1, "x"]), call("sub.deep.leaf"), batch("echo", "sub.echo"),
            reg(do="reginst", inst=1, dotted=True),
            call("echo", [], {"k": [None, 0]}), call("sub.echo", [], {"k": [None, 0]}), call("sub.deep.leaf", [2]),
            batch("sub.echo", "echo", "sub.deep.leaf"), call("echo", [3], op="notify"),
            reg(do="reginst", inst=0, dotted=False), call("echo", [4]), call("sub.echo", [4])],
        # an attribute of the registered instance is rebound / a whole namespace is replaced / deleted / bound to None
        "rebind-attribute": [
            reg(do="newinst", tree=first), reg(do="reginst", inst=0, dotted=True),
            call("echo", [1]), call("sub.echo", [1]), call("sub.deep.leaf", [1]),
            reg(do="setattr", inst=0, path=["echo"], node=_leaf(6)), call("echo", [2]),
            reg(do="setattr", inst=0, path=["sub", "echo"], node=_leaf(7)), call("sub.echo", [2]), call("sub.deep.leaf", [2]),
            reg(do="setattr", inst=0, path=["sub"], node=_ns([["echo", _leaf(3)]])), call("sub.echo", [3]), call("sub.deep.leaf", [3]),
            reg(do="delattr", inst=0, path=["sub", "echo"]), call("sub.echo", [4]), call("echo", [4]),
            reg(do="setattr", inst=0, path=["echo"], node=NONE_NODE), call("echo", [5]),
            reg(do="setattr", inst=0, path=["echo"], node=_leaf(0)), call("echo", [6]), batch("echo", "echo")],
        # functions: registered again under the same name, deleted (the instance shows through), registered over an attribute
        "functions": [
            reg(do="regfunc", name="echo", callee=0, style="direct"), call("echo", [1]),
            reg(do="regfunc", name="echo", callee=1, style="decorator"), call("echo", [2]),
            reg(do="newinst", tree=first), reg(do="reginst", inst=0, dotted=False), call("echo", [3]), call("sub.echo", [3]),
            reg(do="delfunc", name="echo"), call("echo", [4]),
            reg(do="regfunc", name="sub.echo", callee=6, style="direct"), call("sub.echo", [5]),
            reg(do="delfunc", name="sub.echo"), call("sub.echo", [6]), batch("echo", "sub.echo"),
            reg(do="regfunc", name="named", callee=7, style="byname"), call("named", [7]),
            reg(do="reginst", inst=None, dotted=False), call("echo", [8]), call("named", [8]),
            reg(do="delfunc", name="nosuch")],
        # introspection lists what is registered NOW — not what has been called
        "introspection": [
            reg(do="introspection"), call("system.listMethods"),
            reg(do="newinst", tree=first), reg(do="reginst", inst=0, dotted=True), call("system.listMethods"),
            call("echo", [1]), call("sub.echo", [1]), call("sub.deep.leaf", [1]), call("system.listMethods"),
            reg(do="regfunc", name="beta", callee=6, style="direct"), call("beta"), call("system.listMethods"),
            reg(do="delattr", inst=0, path=["echo"]), reg(do="delfunc", name="beta"), call("system.listMethods"),
            call("system.methodSignature", ["echo"]),
            reg(do="reginst", inst=None, dotted=False), call("system.listMethods")],
        # an object that is not registered is changed; registered later it shows its present attributes
        "unregistered-object": [
            reg(do="newinst", tree=first), reg(do="newinst", tree=second), reg(do="reginst", inst=0, dotted=True),
            call("echo", [1]), reg(do="setattr", inst=1, path=["echo"], node=_leaf(6)), call("echo", [2]),
            reg(do="reginst", inst=1, dotted=True), call("echo", [3]),
            reg(do="setattr", inst=0, path=["echo"], node=_leaf(7)), call("echo", [4]),
            reg(do="reginst", inst=0, dotted=True), call("echo", [5]), call("echo", [6], op="notify")],
    }
    out = []
    order = ["replace-instance", "rebind-attribute", "unregistered-object", "functions", "introspection"]
    assert sorted(order) == sorted(progs)
    for label, ops in [(k, progs[k]) for k in order]:
        for cver in (1.0, 2.0):
            for sver in (1.0, 2.0):
                out.append(dict(_base(cver, sver), registry=True, callables=cs, ops=ops, label=label))
    return out


def shrink_candidates(s, idx):
    """Smaller programs that may still fail at op `idx`: the registry operations before it, the earlier calls of the same
    names, and the op itself."""
    op = s["ops"][idx]
    names = set(".".join(j["path"]) for j in (op.get("jobs") or [op]) if "path" in j)
    keep = []
    for o in s["ops"][:idx]:
        if o["op"] == "reg":
            keep.append(o)
        elif o["op"] in ("call", "notify") and ".".join(o["path"]) in names:
            keep.append(dict(o, op="call") if o["op"] == "call" else o)
    cands = []
    only_reg = [o for o in keep if o["op"] == "reg"]
    # one earlier call of each name, then the op
    firsts, seen = [], set()
    for o in keep:
        if o["op"] == "reg":
            firsts.append(o)
        elif ".".join(o["path"]) not in seen:
            seen.add(".".join(o["path"]))
            firsts.append(o)
    for c in (firsts, keep, only_reg):
        c = c + [op]
        if len(c) < len(s["ops"]) and c not in cands:
            cands.append(c)
    return [dict(s, ops=c) for c in cands]
