"""
Input class `entry/…` of C13: EVERY SERVER CLASS / ENTRY POINT OF THE PACKAGE THAT TAKES A CONFIGURATION, built with a
configuration whose version differs from (and equals) the default one, in every way a caller can write the construction.

The property speaks of "the server's configured version": the object the caller hands to the constructor.  The other stages
of C13 build a `SimpleJSONRPCDispatcher(config=…)` and call `_marshaled_dispatch` / `do_POST` on it; a server class whose
constructor loses the configuration on its way to the dispatcher base (positional / keyword forwarding, `super()` chains,
the request-handler wrapper of the socket servers) serves on `config.DEFAULT` and answers in the default's form — visible only
through that class.  Here (histogram keys `class:entry/<kind>/v<version>`), for each kind below and each version in {1.0, 2.0}:

    dispatcher / dispatcher-positional   SimpleJSONRPCDispatcher(config=cfg) / (None, cfg)           _marshaled_dispatch
    cgi / cgi-positional                 CGIJSONRPCRequestHandler(config=cfg) / ("UTF-8", cfg)       handle_jsonrpc (stdout)
    tcp / tcp-positional                 SimpleJSONRPCServer(addr, config=cfg) / all positional      HTTP POST, real socket
    pooled / pooled-positional           PooledJSONRPCServer(addr, …, config=cfg, thread_pool=p) / all positional
    pooled-ownpool                       PooledJSONRPCServer(addr, config=cfg): the pool the server creates itself
    unix / unix-pooled                   the two socket servers with address_family=AF_UNIX
    tcp-subclass / pooled-subclass       a user subclass whose __init__ calls super().__init__(…, config=cfg)
    cgi-subclass                         the same for the CGI handler

(the first nine are `harness/jcentries.py`'s, shared with C08).  Each entry serves one random history of request bodies
(1.0 / 2.0 calls, notifications, batches, invalid and failing requests, beans, malformed texts: `c13.gen_body`).  Judged
from the property text, nothing else: the form of every reply (`c13.judge_forms`: request without "jsonrpc" -> 1.0 form, with
it -> the form of the version the entry was CONFIGURED with), reply == reply of a fresh in-process dispatcher configured the
same way (history freedom across entry points), the configuration object handed over and config.DEFAULT unchanged field by
field.  The histories also go to the model (`c13hist`) with the other histories of the run.
"""
import json
import socket
import threading

import impl
import jcentries
import servercases as SC

from jsonrpclib.SimpleJSONRPCServer import (CGIJSONRPCRequestHandler, PooledJSONRPCServer, SimpleJSONRPCRequestHandler,
                                            SimpleJSONRPCServer)

EXTRA = ["pooled-positional", "pooled-ownpool", "tcp-subclass", "pooled-subclass", "cgi-subclass"]
KINDS = jcentries.SERVER_ENTRIES + EXTRA


class _TcpSub(SimpleJSONRPCServer):
    def __init__(self, addr, cfg):
        super().__init__(addr, logRequests=False, config=cfg)
        self.extra_state = "user"


class _PooledSub(PooledJSONRPCServer):
    def __init__(self, addr, cfg, pool):
        super().__init__(addr, logRequests=False, config=cfg, thread_pool=pool)
        self.extra_state = "user"


class _CgiSub(CGIJSONRPCRequestHandler):
    def __init__(self, cfg):
        super().__init__(config=cfg)
        self.extra_state = "user"


class Entry(jcentries.ServerEntry):
    """jcentries.ServerEntry plus the constructions of EXTRA."""

    def __init__(self, kind, cfg, methods):
        if kind not in EXTRA:
            jcentries.ServerEntry.__init__(self, kind, cfg, methods)
            return
        self.kind = "cgi" if kind == "cgi-subclass" else "tcp"       # which public path `send` drives
        self.cfg = cfg
        self.dir = self.thread = self.pool = self.path = None
        addr = ("127.0.0.1", 0)
        if kind == "cgi-subclass":
            self.obj = _CgiSub(cfg)
        else:
            if kind in ("pooled-positional", "pooled-subclass"):
                self.pool = impl.jsonrpclib.threadpool.ThreadPool(2, 0, logname="jrv-entry")
                self.pool.start()
            if kind == "pooled-positional":
                self.obj = PooledJSONRPCServer(addr, SimpleJSONRPCRequestHandler, False, None, True, socket.AF_INET, cfg, self.pool)
            elif kind == "pooled-ownpool":
                self.obj = PooledJSONRPCServer(addr, logRequests=False, config=cfg)
            elif kind == "tcp-subclass":
                self.obj = _TcpSub(addr, cfg)
            else:
                self.obj = _PooledSub(addr, cfg, self.pool)
            self.thread = threading.Thread(target=self.obj.serve_forever, kwargs={"poll_interval": 0.01}, daemon=True)
            self.thread.start()
        for name, fn in methods.items():
            self.obj.register_function(fn, name)


def methods():
    """The functions `c13.Disp` registers on its dispatchers (c13.OWN_METHODS)."""
    def boom(*a):
        raise ValueError("boom")

    def deny(*a):
        return impl.jsonrpclib.Fault(-32001, "denied")
    return {"echo": lambda *a, **k: [list(a), k], "add": lambda a, b=2: a + b, "boom": boom, "deny": deny,
            "tuplekey": lambda *a: {(1, 2): 3}, "unser": lambda *a: SC.RaisingSerialize()}


def make_config(version):
    cfg = impl.jsonrpclib.config.Config(version=version, use_jsonclass=True)
    cfg.classes.add(SC.Bean)
    return cfg


def reference(version, text):
    """The reply of a fresh in-process dispatcher configured the same way."""
    e = jcentries.ServerEntry("dispatcher", make_config(version), methods())
    return e.send(text)


class _Catch(object):
    def __init__(self):
        self.hits = []

    def violate(self, case, detail, key=None):
        self.hits.append((detail, key))


def serve_history(c13, kind, version, texts_bodies, on_violation, stats):
    """Builds the entry, serves the history, judges every reply.  Returns (tokens, forms, version the config ended with)."""
    default_cfg = impl.jsonrpclib.config.DEFAULT
    dbefore = c13.snapshot(default_cfg)
    cfg = make_config(version)
    before = c13.snapshot(cfg)
    tokens, forms, seen = [], [], []
    entry = Entry(kind, cfg, methods())
    try:
        for bkind, text, body in texts_bodies:
            out = entry.send(text)
            case = {"entry_kind": kind, "version": version, "history": list(seen), "body": text, "reply": out}
            if bkind == "entries":
                want = reference(version, text)
                if c13.loads_or_raw(out) != c13.loads_or_raw(want):
                    on_violation(case, "entry point %s configured with version %s answers %s, a fresh dispatcher configured the same "
                                 "way answers %s" % (kind, version, out, want), "entry-history-dependence")
                catch = _Catch()
                tf = c13.judge_forms(catch, stats, version, "plain", body, out)
                for detail, key in catch.hits:
                    on_violation(case, "entry point %s configured with version %s: %s" % (kind, version, detail), "entry-form")
                if tf is not None:
                    tokens.append(tf[0])
                    forms.append(tf[1])
            else:
                # rejected as a whole: one reply, in the form of the configuration the entry was given
                rep = c13.loads_or_raw(out)
                if isinstance(rep, dict):
                    tokens.append("[ i ]")
                    forms.append(str(c13.reply_form(rep)))
                    want_form = 20 if version >= 2 else 10
                    if c13.reply_form(rep) != want_form:
                        on_violation(case, "entry point %s configured with version %s rejects the body in %s-form, expected %s-form"
                                     % (kind, version, c13.reply_form(rep), want_form), "entry-form")
            if c13.snapshot(cfg) != before:
                on_violation(case, "the configuration handed to %s changed while serving: %r -> %r" % (kind, before, c13.snapshot(cfg)),
                             "config-changed")
            if c13.snapshot(default_cfg) != dbefore:
                on_violation(case, "config.DEFAULT changed while %s was serving: %r -> %r" % (kind, dbefore, c13.snapshot(default_cfg)),
                             "config-changed")
            seen.append(text)
    finally:
        entry.close()
    return tokens, forms, cfg.version


# one request of each form first, so that no history is blind to the version by bad luck
OPENING = [
    ("entries", {"jsonrpc": "2.0", "id": 1, "method": "add", "params": [1, 2]}),
    ("entries", {"id": 2, "method": "add", "params": [1, 2]}),
    ("entries", {"jsonrpc": "2.0", "id": 3, "method": "nope"}),
    ("entries", [{"jsonrpc": "2.0", "id": 4, "method": "boom"}, {"id": 5, "method": "echo", "params": [1]}, {"jsonrpc": "2.0", "method": "add", "params": [1]}]),
    ("malformed", "{"),
]


def stage(ctx, c13, stats, lines, impl_out):
    rng = ctx.derive_rng("entries")
    n = ctx.budget(6, 30)
    for kind in KINDS:
        for version in (1.0, 2.0):
            hist = []
            for bkind, body in OPENING:
                hist.append((bkind, body if bkind != "entries" else json.dumps(body), body if bkind == "entries" else None))
            for _ in range(n):
                bkind, text, body = c13.gen_body(rng, "plain")
                if text.strip() == "" and kind in jcentries.SOCKET + EXTRA:
                    continue     # an HTTP POST without content is the transport's business (C14), not a request body
                hist.append((bkind, text, body))
            rng.shuffle(hist)
            tokens, forms, endv = serve_history(c13, kind, version, hist, lambda c, d, k: ctx.violate(c, d, key=k), stats)
            lines.append("c13hist %d %s" % (round(version * 10), " ".join(tokens)))
            impl_out.append(" | ".join(forms) + " ; srv=%d" % round(endv * 10))
            both = any("v0" in t for t in tokens) and any("v1" in t for t in tokens)
            ctx.count(case_repr={"entry_kind": kind, "version": version, "bodies": [t for _k, t, _b in hist[:6]], "forms": forms[:6]},
                      nontrivial_key=("entry", kind, version) if both else None, kind="entry/%s/v%s" % (kind, version), n=len(hist))
            ctx.hist["class:entry/%s/v%s" % (kind, version)] += len(hist)
    ctx.rule += ("; entry points (class:entry/<kind>/v<version>): every server class that takes a configuration — dispatcher, CGI "
                 "handler, SimpleJSONRPCServer, PooledJSONRPCServer (given / own pool), AF_UNIX variants, user subclasses calling "
                 "super().__init__ — built positionally and by keyword with Config(version=1.0) and Config(version=2.0), one history "
                 "each over its public path (in-process call, captured stdout, HTTP POST over a real socket)")
    ctx.assumptions.append("C13 entry points: the socket servers are driven by one HTTP client at a time (concurrency is the business "
                           "of the dispatcher-thread stages); POST bodies that are empty / blank are left to C14")


def replay(c13, case):
    hits = []
    kind, version = case["entry_kind"], case.get("version", 2.0)
    hist = []
    for t in list(case.get("history", [])) + [case["body"]]:
        try:
            body, ok = json.loads(t), True
        except ValueError:
            body, ok = None, False
        hist.append(("entries" if ok and (isinstance(body, dict) or (isinstance(body, list) and body)) and not _bad_bean(t) else "other", t, body))
    serve_history(c13, kind, version, hist, lambda c, d, k: hits.append((c, d)), c13.Stats())
    for c, d in hits[:5]:
        print("request:", c["body"])
        print("reply  :", c["reply"])
        print("VIOLATION reproduced:", d)
    if not hits:
        print("no violation on this input")
    return 1 if hits else 0


def _bad_bean(text):
    """Is this body rejected as a whole by the bean translator (the reference then answers once, from the server's config)?"""
    if "__jsonclass__" not in text:
        return False
    k, _v = impl.outcome(impl.jsonrpclib.loads, text, make_config(2.0))
    return k == "err"
