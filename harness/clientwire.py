"""
The reply as it really arrives (C06): bytes of an HTTP body, read by the real transport.

  bodies      `padded(...)`: a JSON text (raw non-ASCII, `ensure_ascii=False` - what a third-party server sends) in which
              a chosen multi-byte character starts at a chosen byte offset, so that 0..L of its L bytes lie before a
              multiple of the 1024-byte read size of `xmlrpc.client.Transport.parse_response`.
  framings    how the body travels: `id` Content-Length, `gz` gzip + `Content-Encoding: gzip`, `ch` chunked transfer
              encoding (HTTP chunk sizes that cut through the characters too), `eof` no length, the peer closes (HTTP/1.0).
  MemTransport  the library's `Transport` whose `make_connection` returns an http.client connection over an in-memory
              socket: real single_request / getresponse / parse_response / JSONParser / JSONTarget, no kernel socket.
  ReplyPeer   a raw-socket peer (TCP on 127.0.0.1 or a Unix socket): answers every request with the reply installed by
              `serve(...)`; the real `Transport` / `UnixTransport` and the kernel deliver it.

Infrastructure trouble raises core.InfraError.
"""
import gzip
import http.client
import io
import json
import os
import socket
import threading

import core

READ = 1024  # read size of Transport.parse_response

CHARS = [("é", 2), ("€", 3), ("\U0001F600", 4)]
FRAMINGS = ["id", "gz", "ch", "eof"]


def dumps(reply, compact=False):
    """The JSON text a server that does not escape non-ASCII sends."""
    return json.dumps(reply, ensure_ascii=False, separators=(",", ":") if compact else None)


def padded(build, ch, start, compact=False):
    """(reply object, body bytes): `build(text)` with a text such that the UTF-8 bytes of the FIRST `ch` of the body begin at
    byte offset `start`.  None when the offset lies before the place the text begins at."""
    tail = "~end"
    body0 = dumps(build(ch + tail), compact).encode("utf-8")
    off0 = body0.index(ch.encode("utf-8"))
    pad = start - off0
    if pad < 0:
        return None
    reply = build("x" * pad + ch + tail)
    body = dumps(reply, compact).encode("utf-8")
    if body.index(ch.encode("utf-8")) != start:
        raise core.InfraError("clientwire.padded: the character is not where it was put")
    return reply, body


def straddles(body):
    """The (char length, bytes before the cut, cut) of every multi-byte character of `body` that lies on both sides of a
    multiple of the read size."""
    out = []
    i = 0
    n = len(body)
    while i < n:
        b = body[i]
        L = 1 if b < 0x80 else 2 if b < 0xE0 else 3 if b < 0xF0 else 4
        cut = (i // READ + 1) * READ
        if L > 1 and i < cut < i + L:
            out.append((L, cut - i, cut))
        i += L
    return out


def http_chunks(body, sizes):
    """The body in chunked transfer encoding, HTTP chunks of the given sizes (cycled)."""
    out = []
    i = k = 0
    while i < len(body):
        s = max(1, sizes[k % len(sizes)])
        part = body[i:i + s]
        out.append(("%x\r\n" % len(part)).encode("ascii") + part + b"\r\n")
        i += s
        k += 1
    out.append(b"0\r\n\r\n")
    return b"".join(out)


def frame(body, framing, keep_alive=True, chunk_sizes=(1000, 23, 1, 2, 777)):
    """The bytes of a complete HTTP 200 reply carrying `body` (+ whether the peer must close afterwards)."""
    head = [b"HTTP/1.1 200 OK", b"Content-Type: application/json-rpc"]
    closes = not keep_alive
    if framing == "id":
        payload = body
        head.append(b"Content-Length: %d" % len(payload))
    elif framing == "gz":
        payload = gzip.compress(body, mtime=0)
        head.append(b"Content-Encoding: gzip")
        head.append(b"Content-Length: %d" % len(payload))
    elif framing == "ch":
        payload = http_chunks(body, list(chunk_sizes))
        head.append(b"Transfer-Encoding: chunked")
    elif framing == "eof":
        payload = body
        head[0] = b"HTTP/1.0 200 OK"
        closes = True
    else:
        raise core.InfraError("clientwire.frame: unknown framing %r" % (framing,))
    if closes and framing != "eof":
        head.append(b"Connection: close")
    return b"\r\n".join(head) + b"\r\n\r\n" + payload, closes


# --------------------------------------------------------------------------------------------
# in memory


class _MemSock(object):
    def __init__(self, conn):
        self.conn = conn

    def sendall(self, data):
        self.conn.sent += bytes(data)

    def makefile(self, mode="rb", *a, **k):
        self.conn.requests_answered += 1
        return io.BytesIO(self.conn.reply_bytes)

    def settimeout(self, t):
        pass

    def setsockopt(self, *a):
        pass

    def close(self):
        pass


class MemConn(http.client.HTTPConnection):
    """http.client's request writer and response reader over an in-memory socket that answers `reply_bytes`."""

    def __init__(self, reply_bytes):
        http.client.HTTPConnection.__init__(self, "localhost")
        self.reply_bytes = reply_bytes
        self.sent = b""
        self.requests_answered = 0

    def connect(self):
        self.sock = _MemSock(self)


def mem_transport(J, cfg, body, framing):
    """An instance of the library's Transport whose connections answer `body` in the given framing."""
    raw, _closes = frame(body, framing)

    class T(J.Transport):
        def make_connection(self, host):
            c = MemConn(raw)
            self.mem_conns.append(c)
            return c

    t = T(cfg)
    t.mem_conns = []
    return t


# --------------------------------------------------------------------------------------------
# real sockets


class ReplyPeer(object):
    """Answers every request it reads with the reply installed by `serve`.  One thread per connection."""

    def __init__(self, kind, tmpdir, io_timeout=20.0):
        self.kind = kind
        self.io_timeout = io_timeout
        self.path = os.path.join(tmpdir, "c06.sock") if kind == "unix" else None
        self.port = None
        self.reply = (b"", True)
        self.answered = 0
        self.lock = threading.Lock()
        try:
            if kind == "tcp":
                s = socket.socket(socket.AF_INET, socket.SOCK_STREAM)
                s.setsockopt(socket.SOL_SOCKET, socket.SO_REUSEADDR, 1)
                s.bind(("127.0.0.1", 0))
                self.port = s.getsockname()[1]
            else:
                s = socket.socket(socket.AF_UNIX, socket.SOCK_STREAM)
                s.bind(self.path)
            s.listen(16)
        except OSError as ex:
            raise core.InfraError("reply peer (%s) cannot listen: %s" % (kind, ex))
        self.listener = s
        self.thread = threading.Thread(target=self._loop)
        self.thread.daemon = True
        self.thread.start()

    def url(self):
        return ("http://127.0.0.1:%d/rpc" % self.port) if self.kind == "tcp" else ("unix+http://%s" % self.path)

    def serve(self, body, framing):
        with self.lock:
            self.reply = frame(body, framing)

    def stop(self):
        try:
            self.listener.close()
        except OSError:
            pass
        if self.path:
            try:
                os.unlink(self.path)
            except OSError:
                pass

    def _loop(self):
        while True:
            try:
                c, _ = self.listener.accept()
            except OSError:
                return
            t = threading.Thread(target=self._serve, args=(c,))
            t.daemon = True
            t.start()

    def _serve(self, c):
        c.settimeout(self.io_timeout)
        buf = b""
        try:
            while True:
                while b"\r\n\r\n" not in buf:
                    d = c.recv(65536)
                    if not d:
                        return
                    buf += d
                head, buf = buf.split(b"\r\n\r\n", 1)
                length = 0
                for ln in head.split(b"\r\n")[1:]:
                    k, _, v = ln.partition(b":")
                    if k.strip().lower() == b"content-length":
                        length = int(v.strip())
                while len(buf) < length:
                    d = c.recv(65536)
                    if not d:
                        return
                    buf += d
                buf = buf[length:]
                with self.lock:
                    raw, closes = self.reply
                    self.answered += 1
                c.sendall(raw)
                if closes:
                    return
        except (OSError, ValueError):
            return
        finally:
            try:
                c.close()
            except OSError:
                pass
