"""
Shared machinery of every check (DESIGN.md section 2.2):

  extract -> build (models + driver, then the property module) -> audit axioms
  -> correspondence + monitors (property module) -> search when anything broke
  -> verdict (known findings consulted) -> evidence file.

Exit codes: 0 property held on everything explored (KNOWN-FINDING lines allowed),
            1 VIOLATION line printed, 2 infrastructure failure (no VIOLATION line).
"""
import collections
import contextlib
import fcntl
import hashlib
import json
import os
import random
import re
import subprocess
import sys
import tempfile
import time

ROOT = os.path.dirname(os.path.dirname(os.path.abspath(__file__)))
LEAN = os.path.join(ROOT, "lean")
REPO = os.environ.get("VERIF_REPO", "/repo")
PY = "/venv/bin/python"

ALLOWED_AXIOMS = {"propext", "Classical.choice", "Quot.sound"}
FORBIDDEN = re.compile(
    r"\bsorry\b|\badmit\b|^\s*axiom\s|\bnative_decide\b|\bbv_decide\b|\bimplemented_by\b|\bunsafe\s|maxHeartbeats\s+0\b",
    re.M,
)

TRUSTED_BASE = [
    "Lean 4.33 kernel (theorems re-checked by `lake build`; thorough tier also `leanchecker`)",
    "axioms of each property theorem as printed by `#print axioms`, required within {propext, Classical.choice, Quot.sound}; no sorry/admit/native_decide/bv_decide/own axioms (source grep on every run)",
    "tools/extract.py (source -> JRV/Generated.lean) and the correspondence harness under harness/ (generators, adapters, canonicalisers)",
    "hand-written Lean models under lean/JRV/Model: tied to /repo by the differential correspondence of this run, not verified against CPython",
]


class InfraError(Exception):
    pass


def log(msg):
    sys.stderr.write("[check] %s\n" % msg)
    sys.stderr.flush()


def sh(cmd, cwd=None, timeout=3600, env=None, input=None):
    e = dict(os.environ)
    e["PYTHONDONTWRITEBYTECODE"] = "1"
    if env:
        e.update(env)
    p = subprocess.run(
        cmd, cwd=cwd, env=e, input=input, stdout=subprocess.PIPE, stderr=subprocess.STDOUT, timeout=timeout, text=True
    )
    return p.returncode, p.stdout


@contextlib.contextmanager
def build_lock():
    path = os.path.join(LEAN, ".build.lock")
    with open(path, "a+") as fh:
        fcntl.flock(fh, fcntl.LOCK_EX)
        try:
            yield
        finally:
            fcntl.flock(fh, fcntl.LOCK_UN)


# --------------------------------------------------------------------------------------------
# Lean side


def run_extractor():
    """Regenerates lean/JRV/Generated.lean from the working tree of REPO.  Returns the facts dict."""
    rc, out = sh([PY, os.path.join(ROOT, "tools", "extract.py"), REPO, os.path.join(LEAN, "JRV", "Generated.lean")])
    if rc != 0:
        raise InfraError("extractor failed:\n" + out)
    try:
        with open(os.path.join(LEAN, "JRV", "Generated.json")) as fh:
            return json.load(fh)
    except Exception as ex:  # pragma: no cover
        raise InfraError("extractor produced no facts file: %s" % ex)


def lake_build(targets):
    rc, out = sh(["lake", "build"] + list(targets), cwd=LEAN, timeout=3600)
    return rc == 0, out


def theorem_names(pid, suffix=""):
    """Names of the property theorems declared in JRV/Properties/<pid><suffix>.lean (prefix `<pid>_`)."""
    path = os.path.join(LEAN, "JRV", "Properties", pid + suffix + ".lean")
    try:
        src = open(path).read()
    except OSError:
        return []
    src = strip_comments(src)
    return re.findall(r"^\s*theorem\s+(%s_[A-Za-z0-9_']+)" % pid, src, re.M)


def has_gen_module(pid):
    """Companion theorems of extracted facts may live in JRV/Properties/<pid>Gen.lean, so that a changed fact
    fails its own obligations only and not the property theorems next to it."""
    return os.path.isfile(os.path.join(LEAN, "JRV", "Properties", pid + "Gen.lean"))


def strip_comments(src):
    # nested block comments /- ... -/ and line comments --
    out = []
    depth = 0
    i = 0
    n = len(src)
    while i < n:
        if src.startswith("/-", i):
            depth += 1
            i += 2
        elif depth and src.startswith("-/", i):
            depth -= 1
            i += 2
        elif depth:
            if src[i] == "\n":
                out.append("\n")
            i += 1
        elif src.startswith("--", i):
            while i < n and src[i] != "\n":
                i += 1
        else:
            out.append(src[i])
            i += 1
    return "".join(out)


def forbidden_tokens():
    hits = []
    for base, _dirs, files in os.walk(os.path.join(LEAN, "JRV")):
        for f in files:
            if f.endswith(".lean"):
                p = os.path.join(base, f)
                src = strip_comments(open(p).read())
                # string literals may legitimately mention words; drop them
                src = re.sub(r'"(\\.|[^"\\])*"', '""', src)
                for m in FORBIDDEN.finditer(src):
                    hits.append("%s: %s" % (os.path.relpath(p, LEAN), m.group(0).strip()))
    return hits


def audit(pid, names, module=None):
    """#print axioms for each theorem; returns {name: [axioms]} or raises InfraError."""
    if not names:
        return {}, ""
    d = os.path.join(LEAN, ".audit")
    os.makedirs(d, exist_ok=True)
    path = os.path.join(d, "Audit_%s_%d.lean" % (module or pid, os.getpid()))
    with open(path, "w") as fh:
        fh.write("import JRV.Properties.%s\n" % (module or pid))
        for n in names:
            fh.write("#print axioms JRV.Props.%s\n" % n)
    try:
        rc, out = sh(["lake", "env", "lean", path], cwd=LEAN, timeout=1800)
    finally:
        try:
            os.unlink(path)
        except OSError:
            pass
    res = {}
    for m in re.finditer(r"'JRV\.Props\.([A-Za-z0-9_']+)' depends on axioms: \[([^\]]*)\]", out.replace("\n", " ")):
        res[m.group(1)] = [a.strip() for a in m.group(2).split(",") if a.strip()]
    for m in re.finditer(r"'JRV\.Props\.([A-Za-z0-9_']+)' does not depend on any axioms", out):
        res[m.group(1)] = []
    return res, out


def lean_run(lines, timeout=1800):
    """Feeds case lines to the executable model; one output line per input line."""
    if not lines:
        return []
    for ln in lines:
        if "\n" in ln:
            raise InfraError("newline inside a case line")
    data = "\n".join(lines) + "\n"
    rc, out = sh(["lake", "env", "lean", "--run", "Main.lean"], cwd=LEAN, timeout=timeout, input=data)
    outs = out.split("\n")
    if outs and outs[-1] == "":
        outs.pop()
    if rc != 0 or len(outs) != len(lines):
        raise InfraError(
            "model driver failed (rc=%s, %d lines in, %d lines out):\n%s" % (rc, len(lines), len(outs), out[-2000:])
        )
    return outs


# --------------------------------------------------------------------------------------------
# Context handed to the property modules


class Ctx(object):
    def __init__(self, pid, tier, seed):
        self.pid = pid
        self.tier = tier
        self.seed = seed
        self.rng = random.Random("%s/%s" % (pid, seed))
        self.t0 = time.time()
        self.evaluations = 0
        self.distinct = set()
        self.samples = []
        self.hist = collections.Counter()
        self.disagreements = []  # correspondence: model vs implementation
        self.violations = []  # monitor hits on the real code
        self.traces_validated = 0
        self.rule = ""
        self.exhaustive = False
        self.assumptions = []
        self.extra = {}
        self.facts = {}
        self.broken = []  # names of obligations that no longer check
        self.searching = False
        self.escalated = False  # the source the property is anchored in differs from the pinned one: thorough budgets
        self.changed_sources = []

    # budgets -------------------------------------------------------------------------------
    def budget(self, quick, thorough):
        n = thorough if self.tier == "thorough" else quick
        if self.searching:
            n = max(n, thorough)
        elif self.escalated:
            # changed source: a deeper look, but bounded so that a quick run stays a quick run
            n = max(n, min(thorough, 3 * quick))
        return n

    @property
    def thorough(self):
        return self.tier == "thorough" or self.searching

    def derive_rng(self, label):
        return random.Random("%s/%s/%s" % (self.pid, self.seed, label))

    # bookkeeping ---------------------------------------------------------------------------
    def count(self, case_repr=None, nontrivial_key=None, kind=None, n=1):
        self.evaluations += n
        if nontrivial_key is not None:
            self.distinct.add(nontrivial_key)
        if kind is not None:
            self.hist[kind] += n
        if case_repr is not None and len(self.samples) < 8:
            s = case_repr if isinstance(case_repr, (dict, list)) else str(case_repr)
            if isinstance(s, str) and len(s) > 600:
                s = s[:600] + "..."
            self.samples.append(s)

    def disagree(self, case, impl, model, component=""):
        self.disagreements.append({"component": component, "case": case, "impl": impl, "model": model})

    def violate(self, case, detail, key=None):
        """A violation of the property shown on the real code (independent monitor)."""
        self.violations.append({"case": case, "detail": detail, "key": key or detail})

    def lean(self, lines):
        return lean_run(lines)

    def elapsed(self):
        return time.time() - self.t0


# --------------------------------------------------------------------------------------------
# Known findings


def load_known():
    path = os.path.join(ROOT, "known_findings.json")
    try:
        with open(path) as fh:
            return json.load(fh)
    except OSError:
        return {"findings": [], "fixed": []}


def match_known(pid, violation, known):
    for f in known.get("findings", []):
        if f.get("property") != pid:
            continue
        pat = f.get("match")
        if pat and re.search(pat, str(violation.get("key", ""))):
            return f
    return None


# --------------------------------------------------------------------------------------------
# Replay files and evidence


def tie_detail(ctx):
    """What no longer checks, in one line: the first broken obligation, else the first model/implementation disagreement."""
    if ctx.broken:
        return "obligation no longer discharged: %s" % (ctx.broken[0],)
    if ctx.disagreements:
        d = ctx.disagreements[0]
        return "model and implementation disagree (%d cases); first: %s case %r: implementation %r, model %r" % (
            len(ctx.disagreements), d.get("component") or "-", d.get("case"), d.get("impl"), d.get("model"))
    return ""


def write_replay(pid, payload):
    d = os.path.join(ROOT, "replays")
    os.makedirs(d, exist_ok=True)
    blob = json.dumps(payload, sort_keys=True, default=repr)
    h = hashlib.sha1(blob.encode("utf-8")).hexdigest()[:10]
    path = os.path.join(d, "%s-%s.json" % (pid, h))
    with open(path, "w") as fh:
        json.dump(payload, fh, indent=1, sort_keys=True, default=repr)
    return path


def write_evidence(ctx, obligations, discharged, axioms, n_viol, checker_cmd, level_note=None):
    # runs against a scratch repository (VERIF_REPO, seeded changes) must not overwrite the evidence of /repo
    d = os.environ.get("VERIF_EVIDENCE_DIR") or os.path.join(ROOT, "evidence")
    os.makedirs(d, exist_ok=True)
    cov = {
        "obligations": len(obligations),
        "discharged": discharged,
        "obligation_names": obligations,
        "undischarged": ctx.broken,
        "axioms": axioms,
        "checker_cmd": checker_cmd,
        "trusted_base": TRUSTED_BASE + ctx.assumptions,
        "evaluations": ctx.evaluations,
        "distinct_nontrivial": len(ctx.distinct),
        "rule": ctx.rule,
        "samples": ctx.samples or ["(no correspondence case executed)"],
        "traces_validated_against_impl": ctx.traces_validated,
        "disagreements_checked": len(ctx.disagreements),
        "distribution": dict(ctx.hist),
        "exhaustive": bool(ctx.exhaustive),
        "changed_sources": ctx.changed_sources,
        "escalated_to_thorough_budgets": bool(ctx.escalated),
    }
    cov.update(ctx.extra)
    ev = {
        "property_id": ctx.pid,
        "tier": ctx.tier,
        "seed": ctx.seed,
        "level": "proof",
        "coverage": cov,
        "assumptions": ctx.assumptions,
        "wall_s": round(ctx.elapsed(), 2),
        "violations": n_viol,
    }
    path = os.path.join(d, ctx.pid + ".json")
    tmp = path + ".tmp%d" % os.getpid()
    with open(tmp, "w") as fh:
        json.dump(ev, fh, indent=1, sort_keys=True, default=repr)
    os.replace(tmp, path)
    return path


# --------------------------------------------------------------------------------------------
# The run of one check


def prepare(pid, required):
    """extract + build + audit.  Returns (facts, obligations, discharged_count, axioms, broken)."""
    broken = []
    with build_lock():
        facts = run_extractor()
        ok, out = lake_build(["JRV.Driver", "JRV.Generated"])
        if not ok:
            raise InfraError("models/driver do not build:\n" + out[-4000:])
        ok, out = lake_build(["JRV.Properties." + pid])
        build_out = out
        names = theorem_names(pid)
        gen_names = theorem_names(pid, "Gen") if has_gen_module(pid) else []
        obligations = list(dict.fromkeys(list(required) + names + gen_names))
        axioms = {}
        if ok:
            axioms, audit_out = audit(pid, [n for n in obligations if n not in gen_names])
        else:
            log("property module does not build:\n" + out[-3000:])
        gen_ok = True
        if gen_names:
            gen_ok, gout = lake_build(["JRV.Properties." + pid + "Gen"])
            if gen_ok:
                gax, _ = audit(pid, gen_names, module=pid + "Gen")
                axioms.update(gax)
            else:
                log("companion module of extracted facts does not build:\n" + gout[-2000:])
                build_out = (build_out if not ok else "") + gout
    bad_tokens = forbidden_tokens()
    discharged = 0
    for n in obligations:
        if n in gen_names and not gen_ok:
            broken.append(n + " (JRV.Properties.%sGen does not build: an extracted fact changed)" % pid)
        elif n not in gen_names and not ok:
            broken.append(n + " (JRV.Properties.%s does not build)" % pid)
        elif n not in axioms:
            broken.append(n + " (theorem missing)")
        elif not set(axioms[n]) <= ALLOWED_AXIOMS:
            broken.append(n + " (axioms: %s)" % ",".join(axioms[n]))
        else:
            discharged += 1
    if bad_tokens:
        broken.append("forbidden tokens in Lean sources: " + "; ".join(bad_tokens[:5]))
    for n, v in facts.get("_missing", {}).items():
        if pid in v.get("properties", []):
            broken.append("extractor pattern not found: %s (%s)" % (n, v.get("why", "")))
    return facts, obligations, discharged, axioms, broken, (build_out if (not ok or not gen_ok) else "")


def anchor_files(pid):
    try:
        for ln in open(os.path.join(ROOT, "properties.jsonl")):
            p = json.loads(ln)
            if p["id"] == pid:
                return [os.path.splitext(os.path.basename(f))[0] for f in p["anchors"]["files"]]
    except OSError:
        pass
    return []


def changed_sources(pid, facts):
    """Functions of the files the property is anchored in whose normalised AST differs from the pinned digest."""
    try:
        pinned = json.load(open(os.path.join(ROOT, "tools", "model_pins.json")))
    except (OSError, ValueError):
        return []
    now = facts.get("sourcePinCount")
    if not isinstance(now, dict):
        return []
    mods = set(anchor_files(pid))
    out = []
    for k in sorted(set(pinned) | set(now)):
        if k.split(".")[0] in mods and pinned.get(k) != now.get(k):
            out.append(k)
    return out


def leanchecker(pid):
    rc, out = sh(["lake", "env", "leanchecker", "JRV.Properties." + pid], cwd=LEAN, timeout=3600)
    return rc == 0, out


def run_check(pid, module, tier, seed):
    ctx = Ctx(pid, tier, seed)
    known = load_known()
    checker_cmd = "cd lean && lake build JRV.Properties.%s && lake env lean <#print axioms of every %s_* theorem>" % (pid, pid)
    try:
        facts, obligations, discharged, axioms, broken, build_out = prepare(pid, getattr(module, "REQUIRED_THEOREMS", []))
        ctx.facts = facts
        ctx.broken = broken
        ctx.changed_sources = changed_sources(pid, facts)
        if ctx.changed_sources and not os.environ.get("VERIF_NO_ESCALATE"):
            ctx.escalated = True
            log("source anchored by %s differs from tools/model_pins.json (%s): running with thorough budgets"
                % (pid, ", ".join(ctx.changed_sources[:6])))
        if tier == "thorough" and not broken:
            ok, out = leanchecker(pid)
            checker_cmd += " && lake env leanchecker JRV.Properties.%s" % pid
            if not ok:
                ctx.broken.append("leanchecker rejected JRV.Properties.%s: %s" % (pid, out[-500:]))
                discharged = 0
        module.run(ctx)
    except InfraError as ex:
        log("infrastructure failure: %s" % ex)
        return 2
    except subprocess.TimeoutExpired as ex:
        log("timeout: %s" % ex)
        return 2
    except Exception as ex:  # noqa: BLE001
        # A crash of the correspondence harness on a source that differs from the one the models were validated against is a
        # correspondence that no longer checks (the change made the real code behave in a way the harness cannot even drive),
        # not an infrastructure problem: it is reported as a broken tie, after the search stage had its chance.  On the
        # pinned source it stays what it is: a defect of the harness.
        import traceback
        if not getattr(ctx, "changed_sources", None):
            raise
        log("correspondence harness crashed on a changed source: %s\n%s" % (ex, traceback.format_exc()[-1500:]))
        ctx.broken.append("correspondence could not be run on the changed source (%s): %s: %s"
                          % (", ".join(ctx.changed_sources[:4]), type(ex).__name__, str(ex)[:200]))

    # search stage: something no longer checks and no monitor has shown a failing input yet
    tie_broken = bool(ctx.broken or ctx.disagreements)
    if tie_broken and not ctx.violations:
        log("tie broken (%d obligations, %d disagreements): searching the real code for a failing input"
            % (len(ctx.broken), len(ctx.disagreements)))
        ctx.searching = True
        try:
            search = getattr(module, "search", None)
            if search is not None:
                search(ctx)
            else:
                for extra_seed in range(1, 4):
                    ctx.rng = random.Random("%s/%s/search%d" % (pid, seed, extra_seed))
                    saved = len(ctx.disagreements)
                    module.run(ctx)
                    del saved
                    if ctx.violations:
                        break
        except InfraError as ex:
            log("search: infrastructure failure: %s" % ex)
        except Exception as ex:  # noqa: BLE001 - a crash of the search must not hide the broken tie
            import traceback
            log("search stage crashed: %s\n%s" % (ex, traceback.format_exc()[-1500:]))
        ctx.searching = False

    exit_code = 0
    lines = []
    unknown = []
    seen_known = set()
    for v in ctx.violations:
        k = match_known(pid, v, known)
        if k is not None:
            if k["id"] not in seen_known:
                seen_known.add(k["id"])
                lines.append("KNOWN-FINDING: property=%s %s" % (pid, k.get("what", k["id"])))
        else:
            unknown.append(v)
    if unknown:
        v = unknown[0]
        path = write_replay(pid, {
            "property": pid, "kind": "failing-input", "seed": seed, "tier": tier,
            "case": v["case"], "detail": v["detail"], "others": [u["detail"] for u in unknown[1:20]],
            "broken_obligations": ctx.broken, "disagreements": ctx.disagreements[:5],
        })
        lines.append("VIOLATION property=%s replay=%s" % (pid, os.path.relpath(path, ROOT)))
        exit_code = 1
    elif tie_broken:
        path = write_replay(pid, {
            "property": pid, "kind": "tie-broken", "seed": seed, "tier": tier,
            "detail": tie_detail(ctx),
            "broken_obligations": ctx.broken,
            "disagreements": ctx.disagreements[:10],
            "build_output": build_out[-3000:],
            "note": "no failing input found on the real code by the search stage; the property is no longer shown to hold",
        })
        lines.append("VIOLATION property=%s replay=%s no-failing-input-found" % (pid, os.path.relpath(path, ROOT)))
        exit_code = 1

    write_evidence(ctx, obligations, discharged, axioms, len(unknown) + (1 if (tie_broken and not unknown) else 0), checker_cmd)
    for ln in lines:
        print(ln)
    print("%s %s tier=%s seed=%d obligations=%d/%d evaluations=%d distinct=%d disagreements=%d wall=%.1fs" % (
        "OK" if exit_code == 0 else "FAIL", pid, tier, seed, discharged, len(obligations), ctx.evaluations,
        len(ctx.distinct), len(ctx.disagreements), ctx.elapsed()))
    sys.stdout.flush()
    return exit_code
