"""
Deterministic line-granular scheduler for the REAL `FutureResult` / `EventData` (property C16).

Nothing in the repository is edited.  A *program* is a set of client threads (one executor, registrar threads
making one or more `set_callback` calls, observer threads making `done()` / `result(timeout)` calls) around one
`FutureResult`.  Each thread runs the real methods under `sys.settrace`; the local trace function hands the
baton back to the controller on every `line` event of a *labelled* line inside the code objects of the two
classes, so exactly one thread runs at a time and the controller decides who executes the next source line.

  * Labels come from the CURRENT source by AST shape (`build_table`): statement kind + the private attribute it
    reads or writes, never line numbers.  A line that touches no shared attribute (argument normalisation,
    `if completed:`, `try:`, a call that merely enters another traced method) is not a scheduling point: it is
    local, commutes with every other thread, and is executed together with the next labelled line.  A line that
    touches a private attribute in a shape the table does not know is labelled `unknown:<text>` and IS a
    scheduling point (so restructured code is still explored at line granularity; only the lockstep complains).
  * `jsonrpclib.threadpool.threading` is replaced, for the duration of a run, by a shim whose `Lock` and `Event`
    cooperate with the controller: a thread that finds the lock held parks until it is free; `Event.wait` on a
    clear flag parks until the flag is set or, when a finite timeout was given, until the controller schedules
    it again, which means "the timeout elapsed" (a timed wait may give up at ANY scheduling point at which the
    flag is clear: a superset of "expiry at quiescence", and exactly the model's `obsTimeout`).
  * The two calls OUT of the traced code that matter -- the registered callable and `logger.exception` -- are
    not recognised by the layout of their source line: a `sys.monitoring` CALL hook (local to the code objects
    of the two classes) fires at the very moment the interpreter is about to call an object, with that object.
    When it is one of the run's registered callables the thread pauses with label `invoke` (after the argument
    reads, before the callee is entered -- also for wrong-arity callables, partials and callable instances, for
    which the call raises before any Python frame exists); when it is the `exception` method of the run's
    logger the thread pauses with label `logErr`.  The order readData, readExc, invoke is therefore the order
    in which things really happen, however the call is formatted.
  * After every step the controller records the projection of the real object (private fields, lock owner,
    event flag, invocation log, logger records) for the lockstep comparison with the Lean model.
  * Objects.  Task results, exceptions, `extra` values and callables are drawn from families that include
    falsy-but-not-None values (0, "", [], False, (), exceptions with empty args / `__bool__` / `__len__`,
    callable instances with `__bool__` False or `__len__` 0, callables without `__name__`).  Every object is
    given a model identity BY IDENTITY (`tok`): `None` is "N", interpreter singletons have fixed numbers, the
    per-run objects have RET_OBJ / EXC_OBJ / EXTRA_BASE + registration.  The harness never asks for the truth
    value of any of them.

Exploration: `explore` enumerates all schedules (optionally with a bound on preemptions) by stateless DFS over
schedule prefixes; `run_program` executes one schedule; `shrink` shortens a failing schedule.
"""
import ast
import functools
import os
import sys
import threading as real_threading
import types
import _thread

import impl  # noqa: F401  (sets sys.path to VERIF_REPO, silences logging)
import jsonrpclib.threadpool as tp

import hostile

RET_OBJ = 7       # model identity of the (per-run) object returned by the task
EXC_OBJ = 9       # model identity of the exception raised by the task
EXTRA_BASE = 100  # a per-registration extra of registration r is EXTRA_BASE + r
# interpreter-wide singletons that are falsy but not None: one identity each, whoever uses them
SINGLETONS = ((0, 50), ("", 51), ((), 52), (False, 53))

# outcome of the task -> how the returned / raised object is made
OUTCOMES_RET = {"ret": "obj", "retnone": "none", "ret0": "zero", "retempty": "str", "retlist": "list", "retfalse": "false"}
OUTCOMES_RAISE = {"raise": "plain", "raisenoargs": "noargs", "raisefalsy": "bool", "raiselen": "len", "raiseos": "os"}
# ... and HOSTILE exception objects (harness/hostile.py): outcome "raiseH_<kind>", e.g. raiseH_strraise
OUTCOMES_RAISE.update({"raiseH_" + k: "H_" + k for k in hostile.KINDS})
HOSTILE_OUTCOMES = tuple("raiseH_" + k for k in hostile.KINDS)
# `extra` of a registration: per-registration truthy tuple, None, 0, "", (), False
EXTRA_SPECS = ("t", "N", "0", "s", "u", "F")
# shape of the registered callable: plain function, functools.partial, callable instance (no __name__),
# instance with __bool__ False / __len__ 0 (lower case: no __name__; upper case: with a __name__ attribute)
FORMS = ("f", "p", "i", "b", "l", "B", "L")
FALSY_FORMS = ("b", "l", "B", "L")
NAMELESS_FORMS = ("p", "i", "b", "l")
TIMED_CALLS = {"t": 0.01, "z": 0, "Z": 0.0}   # result(timeout) calls with a finite timeout

PRIVATE = ("__callback", "__extra", "__completed", "__lock", "__data", "__exception", "__event")


# --------------------------------------------------------------------------------------------
# Label table from the current source


class Label(object):
    __slots__ = ("kind", "text")

    def __init__(self, kind, text=""):
        self.kind = kind
        self.text = text

    def __repr__(self):
        return "Label(%s)" % self.kind


def _self_attr(node):
    """'__x' when node is `self.__x` (as written in the source, before mangling), else None."""
    if isinstance(node, ast.Attribute) and isinstance(node.value, ast.Name) and node.value.id == "self":
        return node.attr
    return None


def _own_nodes(stmt):
    """AST nodes of the statement's own line(s): header expressions, not nested bodies."""
    if isinstance(stmt, (ast.If, ast.While)):
        roots = [stmt.test]
    elif isinstance(stmt, ast.With):
        roots = [i.context_expr for i in stmt.items]
    elif isinstance(stmt, ast.Try):
        roots = []
    elif isinstance(stmt, ast.For):
        roots = [stmt.iter]
    else:
        roots = [stmt]
    for r in roots:
        for n in ast.walk(r):
            yield n


def _touches_private(stmt):
    return sorted({a for n in _own_nodes(stmt) for a in [_self_attr(n)] if a in PRIVATE})


# methods of EventData that are not the publication of an outcome (their stores keep their own labels / `unknown`)
_EVENT_OTHER = ("__init__", "clear", "is_set", "wait", "data", "exception")


def _lock_aliases(fn):
    """Locals of `fn` bound exactly once, from `self.__lock` (`lock = self.__lock`): another name of the same lock."""
    count, alias = {}, set()
    for n in ast.walk(fn):
        if isinstance(n, ast.Name) and isinstance(n.ctx, (ast.Store, ast.Del)):
            count[n.id] = count.get(n.id, 0) + 1
        if isinstance(n, ast.Assign) and len(n.targets) == 1 and isinstance(n.targets[0], ast.Name) \
                and _self_attr(n.value) == "__lock":
            alias.add(n.targets[0].id)
    return {a for a in alias if count.get(a) == 1}


def _is_lock(node, aliases):
    return _self_attr(node) == "__lock" or (isinstance(node, ast.Name) and node.id in aliases)


def _classify(cls, fn, stmt, params):
    """Label of one simple statement / block header, or None when the line is local (silent)."""
    priv = _touches_private(stmt)
    name = fn.name
    aliases = _lock_aliases(fn)
    if isinstance(stmt, ast.With) and len(stmt.items) == 1 and _is_lock(stmt.items[0].context_expr, aliases):
        return Label("lock")
    # the same critical section spelt `self.__lock.acquire()` ... `self.__lock.release()`: the shim lock reports the
    # acq / rel events of these lines exactly as it does for the two ends of a `with`
    if isinstance(stmt, ast.Expr) and isinstance(stmt.value, ast.Call) and isinstance(stmt.value.func, ast.Attribute) \
            and stmt.value.func.attr in ("acquire", "release") and _is_lock(stmt.value.func.value, aliases) \
            and not stmt.value.args and not stmt.value.keywords:
        return Label("lock")
    # `lock = self.__lock`: binds a local to an attribute that only __init__ stores; nothing shared is read or written
    if isinstance(stmt, ast.Assign) and len(stmt.targets) == 1 and isinstance(stmt.targets[0], ast.Name) \
            and stmt.targets[0].id in aliases and _self_attr(stmt.value) == "__lock":
        return None
    if isinstance(stmt, ast.Assign) and len(stmt.targets) == 1:
        tgt, val = stmt.targets[0], stmt.value
        ta, va = _self_attr(tgt), _self_attr(val)
        if cls == "FutureResult":
            if ta == "__callback" and isinstance(val, ast.Name) and val.id in params:
                return Label("storeCb")
            if ta == "__extra" and isinstance(val, ast.Name) and val.id in params:
                return Label("storeExtra")
            if ta == "__completed" and isinstance(val, ast.Constant) and val.value is True:
                return Label("setCompleted")
            if isinstance(tgt, ast.Name) and va == "__completed":
                return Label("readCompleted")
            if isinstance(tgt, ast.Name) and va == "__callback":
                return Label("readCb")
            if isinstance(tgt, ast.Name) and va == "__extra":
                return Label("readExtra")
            if (name == "execute" and isinstance(val, ast.Call) and isinstance(val.func, ast.Name)
                    and params and val.func.id == params[0]):
                return Label("call")
        if cls == "EventData":
            # (in set / raise_exception or in a helper of theirs; clear() is not part of the protocol)
            if name not in _EVENT_OTHER and ta == "__data":
                return Label("sData")
            if name not in _EVENT_OTHER and ta == "__exception":
                return Label("sExc")
            if name == "wait" and isinstance(tgt, ast.Name) and isinstance(val, ast.Call) \
                    and isinstance(val.func, ast.Attribute) and val.func.attr == "wait" \
                    and _self_attr(val.func.value) == "__event":
                return Label("wait")
    if isinstance(stmt, ast.Expr) and isinstance(stmt.value, ast.Call):
        call = stmt.value
        if cls == "EventData" and name not in _EVENT_OTHER and isinstance(call.func, ast.Attribute) \
                and call.func.attr == "set" and _self_attr(call.func.value) == "__event":
            return Label("sEvt")
        # the call of the registered callable and `self._logger.exception(...)` are NOT labelled by line: they
        # are scheduling points through the CALL hook (see `_on_call`), whatever the layout of their source
    if isinstance(stmt, ast.Return) and stmt.value is not None and cls == "EventData":
        va = _self_attr(stmt.value)
        if name == "data" and va == "__data":
            return Label("readData")
        if name == "exception" and va == "__exception":
            return Label("readExc")
        if name == "is_set" and isinstance(stmt.value, ast.Call) and isinstance(stmt.value.func, ast.Attribute) \
                and stmt.value.func.attr == "is_set" and _self_attr(stmt.value.func.value) == "__event":
            return Label("readFlag")
    if cls == "EventData" and name == "wait":
        if isinstance(stmt, ast.If) and priv == ["__exception"]:
            return Label("readExc1")
        if isinstance(stmt, ast.Raise) and _self_attr(stmt.exc) == "__exception":
            return Label("readExc2")
    if priv:
        try:
            text = ast.unparse(stmt).split("\n")[0][:60]
        except Exception:  # pragma: no cover
            text = "?"
        return Label("unknown", text="%s.%s:%s" % (cls, name, text))
    return None


def _walk_statements(body):
    for st in body:
        yield st
        for field in ("body", "orelse", "finalbody"):
            sub = getattr(st, field, None)
            if isinstance(sub, list) and sub and isinstance(sub[0], ast.stmt):
                for x in _walk_statements(sub):
                    yield x
        for h in getattr(st, "handlers", []) or []:
            for x in _walk_statements(h.body):
                yield x


def build_table(path=None):
    """{(code name, first line of def, lineno): Label} for every labelled line of EventData / FutureResult."""
    path = path or tp.__file__
    if path.endswith(".pyc"):
        path = path[:-1]
    tree = ast.parse(open(path, encoding="utf-8").read())
    table = {}
    for cnode in tree.body:
        if isinstance(cnode, ast.ClassDef) and cnode.name in ("EventData", "FutureResult"):
            for fn in cnode.body:
                if not isinstance(fn, ast.FunctionDef) or fn.name == "__init__":
                    continue
                params = [a.arg for a in fn.args.args if a.arg != "self"]
                for st in _walk_statements(fn.body):
                    lab = _classify(cnode.name, fn, st, params)
                    if lab is not None:
                        table[(fn.name, st.lineno)] = lab
    return table


def traced_codes():
    """Code objects of the methods and properties of the two classes (not __init__)."""
    codes = {}
    for cls in (tp.EventData, tp.FutureResult):
        for name, v in vars(cls).items():
            f = v.fget if isinstance(v, property) else v
            code = getattr(f, "__code__", None)
            if code is not None and name != "__init__":
                codes[code] = cls.__name__
    return codes


# --------------------------------------------------------------------------------------------
# Cooperative shim for `threading` inside jsonrpclib.threadpool


class Deadlock(Exception):
    pass


class _Abort(BaseException):
    """Raised inside managed threads to unwind them when a run is abandoned."""


class ShimLock(object):
    def __init__(self, ctrl):
        self._ctrl = ctrl
        self.owner = None

    def acquire(self, blocking=True, timeout=-1):
        me = self._ctrl.current()
        if me is None:  # unmanaged (controller) thread: plain semantics, never contended here
            if self.owner is not None:
                raise RuntimeError("shim lock contended from an unmanaged thread")
            self.owner = "main"
            return True
        while self.owner is not None:
            if not blocking:
                return False
            me.park(("lock", self))
        self.owner = me
        me.events.append("acq")
        return True

    def release(self):
        me = self._ctrl.current()
        if self.owner is None:
            raise RuntimeError("release unlocked lock")
        self.owner = None
        if me is not None:
            me.events.append("rel")

    def locked(self):
        return self.owner is not None

    __enter__ = acquire

    def __exit__(self, *a):
        self.release()


class ShimEvent(object):
    def __init__(self, ctrl):
        self._ctrl = ctrl
        self._flag = False

    def is_set(self):
        return self._flag

    isSet = is_set

    def set(self):
        self._flag = True
        me = self._ctrl.current()
        if me is not None:
            me.events.append("set")

    def clear(self):
        self._flag = False

    def wait(self, timeout=None):
        me = self._ctrl.current()
        if me is None:
            return self._flag
        if not self._flag:
            if timeout is None:
                if me.wait_timeout is not None and self._ctrl.run is not None:
                    # the client passed a finite timeout to result(), yet an UNTIMED wait reached the event
                    # while it is clear: this call cannot time out any more
                    me.events.append("blocked-untimed")
                    self._ctrl.run.blocked.append((me.cur_call, me.wait_timeout, self._ctrl.run.now(), me.name))
                while not self._flag:
                    me.park(("event", self, None))
            elif not me.timeout_granted:
                me.park(("event", self, timeout))
            me.timeout_granted = False
        me.events.append("wait:%s" % ("T" if self._flag else "F"))
        return self._flag


class ShimThreading(object):
    """Stands in for the `threading` module inside jsonrpclib.threadpool during a run."""

    def __init__(self, ctrl):
        self._ctrl = ctrl

    def Lock(self):
        return ShimLock(self._ctrl)

    RLock = Lock

    def Event(self):
        return ShimEvent(self._ctrl)

    def __getattr__(self, name):
        return getattr(real_threading, name)


# --------------------------------------------------------------------------------------------
# Managed threads and the controller


def _baton():
    """A binary semaphore, initially empty (raw lock: much cheaper than threading.Semaphore)."""
    lk = _thread.allocate_lock()
    lk.acquire()
    return lk


class Managed(object):
    def __init__(self, ctrl, name, role, body):
        self.ctrl = ctrl
        self.name = name          # "E", "R0", "O1": thread names (roles), never OS identifiers
        self.role = role
        self.body = body
        self.sem = _baton()
        self.state = ("new",)
        self.events = []
        self.timeout_granted = False
        self.finished = False
        self.invoking = None      # registration whose callable this thread called last (CALL hook)
        self.thread = real_threading.Thread(target=self._main, name="futsched-" + name)
        self.thread.daemon = True
        self.error = None

    # -- called in the managed thread ------------------------------------------------------
    def _main(self):
        self.ctrl.local.me = self
        self.sem.acquire()
        try:
            if not self.ctrl.aborting:
                sys.settrace(self._global_trace)
                try:
                    self.body(self)
                finally:
                    sys.settrace(None)
        except _Abort:
            pass
        except BaseException as ex:  # noqa: BLE001  harness bug or escaped exception: reported by the run
            self.error = ex
        self.finished = True
        self.state = ("done",)
        self.ctrl.sem.release()

    def _global_trace(self, frame, event, arg):
        if frame.f_code in self.ctrl.codes:
            return self._local_trace
        return None

    def _local_trace(self, frame, event, arg):
        if event == "line":
            code = frame.f_code
            lab = self.ctrl.table.get((code.co_name, frame.f_lineno))
            if lab is not None:
                self.pause(("line", code.co_name, frame.f_lineno, lab))
        return self._local_trace

    def pause(self, state):
        self.state = state
        self.ctrl.sem.release()
        self.sem.acquire()
        if self.ctrl.aborting:
            raise _Abort()

    def park(self, what):
        """Blocked inside a shim primitive: give the baton back; resumed when the controller thinks fit."""
        self.pause(("parked",) + what)



# --------------------------------------------------------------------------------------------
# CALL hook: the moment a traced method is about to call the registered callable / logger.exception

INVOKE = Label("invoke")
LOGERR = Label("logErr")
_ACTIVE = [None]      # the controller of the run in progress (runs are sequential in this process)
_TOOL = [None]
_HOOKED = set()


def _on_call(code, offset, callee, arg0):
    ctrl = _ACTIVE[0]
    if ctrl is None or ctrl.aborting:
        return None
    me = ctrl.current()
    if me is None or ctrl.run is None:
        return None
    run = ctrl.run
    try:
        rid = run.rid_of_callable(callee)
        label = None
        if rid is not None:
            label = INVOKE
        elif (type(callee) is types.MethodType and callee.__self__ is run.logger
                and callee.__func__ is RecLogger.exception) or (callee is RecLogger.exception and arg0 is run.logger):
            # `self._logger.exception(...)`: the interpreter hands over the bound method, or (method-call fast
            # path) the plain function with the logger as first argument
            label = LOGERR
        if label is None:
            return None
        line = sys._getframe(1).f_lineno
    except Exception as ex:  # noqa: BLE001  a harness bug must not be swallowed by the code under test
        run.errors.append("CALL hook: %s" % hostile.describe(ex))
        return None
    me.pause(("line", code.co_name, line, label))
    if label is INVOKE:
        # the thread has been scheduled again: the call is attempted now
        me.invoking = rid
        run.attempted.append((rid, me.cur_call, run.now(), me.name))
    return None


def install_call_hook(codes):
    """Local CALL events (sys.monitoring, Python >= 3.12) on the code objects of the two classes."""
    mon = sys.monitoring
    if _TOOL[0] is None:
        for tool in (4, 3, mon.PROFILER_ID, mon.OPTIMIZER_ID):
            try:
                mon.use_tool_id(tool, "futsched")
            except ValueError:
                continue
            _TOOL[0] = tool
            break
        else:  # pragma: no cover
            raise RuntimeError("no free sys.monitoring tool id")
        mon.register_callback(_TOOL[0], mon.events.CALL, _on_call)
    for code in codes:
        if code not in _HOOKED:
            mon.set_local_events(_TOOL[0], code, mon.events.CALL)
            _HOOKED.add(code)


class Step(object):
    __slots__ = ("thread", "label", "line", "events", "void", "proj", "enter", "ended", "func", "call")

    def __init__(self):
        self.enter = []
        self.ended = []
        self.events = []
        self.void = False


class Controller(object):
    def __init__(self, table=None, codes=None):
        self.table = table if table is not None else build_table()
        self.codes = codes if codes is not None else traced_codes()
        self.local = real_threading.local()
        self.sem = _baton()
        self.threads = []
        self.aborting = False
        self.run = None

    def current(self):
        return getattr(self.local, "me", None)

    def add(self, name, role, body):
        t = Managed(self, name, role, body)
        self.threads.append(t)
        return t

    def start_all(self):
        for t in self.threads:
            t.thread.start()
        # bring every thread to its first scheduling point (the prefix is local code of the harness + silent lines)
        for t in self.threads:
            self.resume(t)

    def resume(self, t):
        t.sem.release()
        self.sem.acquire()

    def enabled(self, t, lock_of, event_of):
        if t.finished:
            return False
        st = t.state
        if st[0] == "parked":
            if st[1] == "lock":
                return st[2].owner is None
            if st[1] == "event":
                return st[2]._flag or st[3] is not None
        if st[0] == "line":
            lab = st[3]
            if lab.kind == "lock":
                lk = lock_of()
                if lk is not None and lk.owner is not None and lk.owner is not t:
                    return False
            if lab.kind == "wait":
                ev = event_of()
                if ev is not None and not ev._flag and t.wait_timeout is None:
                    return False
        return True

    def abort(self):
        self.aborting = True
        for t in self.threads:
            while not t.finished:
                self.resume(t)
        for t in self.threads:
            t.thread.join(5)


# --------------------------------------------------------------------------------------------
# Programs


class RecLogger(object):
    """Logger handed to FutureResult: records `exception(...)` calls (who, which error class, which callable)."""

    def __init__(self, run):
        self.run = run

    def exception(self, msg, *args):
        ex = None
        for a in args:      # the exception object, wherever the format string puts it
            if isinstance(a, BaseException):
                ex = a
        self.run.on_logged(ex)

    def __getattr__(self, name):  # any other logging call is accepted and ignored
        return lambda *a, **k: None


class TaskError(Exception):
    pass


class NoArgsTaskError(Exception):
    """Raised without arguments: `args == ()`, `str(ex) == ""`."""


class FalsyTaskError(Exception):
    def __bool__(self):
        return False


class EmptyTaskError(Exception):
    def __len__(self):
        return 0


class CallbackError(Exception):
    pass


def norm_reg(entry):
    """(kind, extra spec, form) of one registration; the old two-field form (kind, extra_is_none) is accepted."""
    entry = tuple(entry)
    kind = entry[0]
    x = entry[1] if len(entry) > 1 else "t"
    if x is True:
        x = "N"
    elif x is False:
        x = "t"
    form = entry[2] if len(entry) > 2 else "f"
    if kind not in ("r", "x", "a", "n") or x not in EXTRA_SPECS or form not in FORMS:
        raise ValueError("bad registration %r" % (entry,))
    return kind, x, form


def reg_hostile(entry):
    """Optional fourth field of a registration of kind "x": the kind of HOSTILE exception object the callback raises
    (harness/hostile.py); None: a plain CallbackError."""
    entry = tuple(entry)
    h = entry[3] if len(entry) > 3 else None
    if h is not None and (h not in hostile.KINDS or entry[0] != "x"):
        raise ValueError("bad registration %r" % (entry,))
    return h


class Run(object):
    """
    One execution of a program under a schedule.

    program = {"outcome": a key of OUTCOMES_RET / OUTCOMES_RAISE, or None (no executor),
               "regs": [[(kind, extra, form[, hostile]), ...], ...]   one list of set_callback calls per registrar thread,
                        kind in "r" (returns) "x" (raises) "a" (wrong arity) "n" (method None),
                        extra in EXTRA_SPECS, form in FORMS, hostile (kind "x" only) in hostile.KINDS: the callback
                        raises a hostile exception object instead of a plain CallbackError
               "obs":  [[call, ...], ...]    call in "d" (done()) "t" (result(0.01)) "z" (result(0)) "Z" (result(0.0))
                                             "b" (result(None))}
    """

    def __init__(self, program, table=None, codes=None):
        self.program = program
        self.ctrl = Controller(table, codes)
        self.ctrl.run = self
        self.steps = []
        self.calls = []        # real callback bodies that ran: (rid, data, exc, extra, during call, step index, thread)
        self.attempted = []    # calls of a registered callable attempted by the traced code: (rid, during call, step, thread)
        self.logged = []       # logger records: (rid or None, class name, during call, step index, thread)
        self.observations = [] # (obs id, call, outcome token, start step, end step, thread)
        self.blocked = []      # (call, timeout passed, step, thread): untimed wait although a finite timeout was passed
        self.reg_spans = {}    # rid -> [start step, end step, raised]
        self.exec_info = {}    # "task_end": step, "start": step, "end": step, "raised": token
        self.cur = None
        self.future = None
        self.logger = None
        self.ret_obj, self.exc_obj = self.make_outcome(program.get("outcome"))
        self.callbacks = {}
        self.cb_errors = {}
        self.extras = {}
        self.regs = {}         # rid -> (kind, extra spec, form)
        self.cb_hostile = {}   # rid -> kind of hostile exception object the callback raises (None: CallbackError)
        self.deadlock = False
        self.errors = []
        rid = 0
        self.reg_ids = []
        for calls in program.get("regs", []):
            ids = []
            for ent in calls:
                self.regs[rid] = norm_reg(ent)
                self.cb_hostile[rid] = reg_hostile(ent)
                ids.append(rid)
                rid += 1
            self.reg_ids.append(ids)
        oid = 0
        self.obs_ids = []
        for calls in program.get("obs", []):
            ids = []
            for _ in calls:
                ids.append(oid)
                oid += 1
            self.obs_ids.append(ids)

    # objects ------------------------------------------------------------------------------
    @staticmethod
    def make_outcome(outcome):
        ret = exc = None
        if outcome in OUTCOMES_RET:
            ret = {"obj": object, "none": lambda: None, "zero": lambda: 0, "str": lambda: "", "list": list,
                   "false": lambda: False}[OUTCOMES_RET[outcome]]()
        elif outcome in OUTCOMES_RAISE:
            how = OUTCOMES_RAISE[outcome]
            exc = hostile.make(how[2:], "task") if how.startswith("H_") else (TaskError("task failed") if how == "plain" else NoArgsTaskError() if how == "noargs"
                   else FalsyTaskError("falsy") if how == "bool" else EmptyTaskError("empty") if how == "len"
                   else OSError("task failed with an OSError"))
        elif outcome is not None:
            raise ValueError("bad outcome %r" % (outcome,))
        return ret, exc

    @staticmethod
    def make_extra(rid, spec):
        if spec == "t":
            return ("extra", rid)
        return {"N": None, "0": 0, "s": "", "u": (), "F": False}[spec]

    # tokens (identity, never equality or truth value) -------------------------------------
    def tok(self, v):
        if v is None:
            return "N"
        for obj, n in SINGLETONS:
            if v is obj:
                return str(n)
        if v is self.ret_obj:
            return str(RET_OBJ)
        if v is self.exc_obj:
            return str(EXC_OBJ)
        for r, x in self.extras.items():
            if v is x:
                return str(EXTRA_BASE + r)
        return "?" + type(v).__name__

    def now(self):
        return len(self.steps)

    def rid_of_callable(self, obj):
        if obj is None:
            return None
        for r, cb in self.callbacks.items():
            if cb is obj:
                return r
        return None

    # callables ----------------------------------------------------------------------------
    def make_callback(self, rid, kind, form="f"):
        run = self
        if kind == "n":
            return None

        def body(result, exception, extra):
            run.calls.append((rid, run.tok(result), run.tok(exception), run.tok(extra), run.cur.cur_call, run.now(),
                              run.cur.name))
            if kind == "x":
                h = run.cb_hostile.get(rid)
                err = run.cb_errors[rid] = (hostile.make(h, "callback-%d" % rid) if h is not None
                                            else CallbackError("callback %d fails" % rid))
                raise err

        if kind == "a":
            def fn(result, exception):  # two parameters: cannot be called with three arguments
                run.errors.append("wrong-arity callback body ran")
        else:
            def fn(result, exception, extra):
                return body(result, exception, extra)
        fn.__name__ = fn.__qualname__ = "cb_%d_" % rid
        if form == "f":
            return fn
        if form == "p":
            return functools.partial(fn)       # no __name__; the arity error is raised by the inner call
        ns = {}
        if kind == "a":
            ns["__call__"] = lambda self, result, exception: fn(result, exception)
        else:
            ns["__call__"] = lambda self, result, exception, extra: fn(result, exception, extra)
        if form in ("b", "B"):
            ns["__bool__"] = lambda self: False
        if form in ("l", "L"):
            ns["__len__"] = lambda self: 0
        cls = type("CallableObject_%s" % form, (object,), ns)
        inst = cls()
        if form in ("B", "L"):
            inst.__name__ = "cb_%d_" % rid
        return inst

    def on_logged(self, ex):
        me = self.cur
        self.logged.append((me.invoking, type(ex).__name__, me.cur_call, self.now(), me.name))

    def task(self):
        self.exec_info["task_end"] = self.now()
        if self.exc_obj is not None:
            raise self.exc_obj
        return self.ret_obj

    # thread bodies ------------------------------------------------------------------------
    def exec_body(self, me):
        self.exec_info["start"] = self.now()
        me.cur_call = "E"
        try:
            self.future.execute(self.task, None, None)
            raised = "N"
        except Exception as ex:  # noqa: BLE001
            raised = self.tok(ex)
        self.exec_info["end"] = self.now()
        self.exec_info["raised"] = raised
        me.ended.append(("E", raised))

    def reg_body(self, index):
        def body(me):
            for rid in self.reg_ids[index]:
                kind = self.regs[rid][0]
                cb = self.callbacks[rid]
                extra = self.extras.get(rid)
                span = self.reg_spans[rid] = [self.now(), None, None]
                me.cur_call = "R%d" % rid
                me.pending_enter.append(("R", rid, kind, self.tok(extra)))
                try:
                    self.future.set_callback(cb, extra)
                except Exception as ex:  # noqa: BLE001
                    span[2] = type(ex).__name__
                span[1] = self.now()
                me.ended.append(("R", rid))
        return body

    def obs_body(self, index):
        def body(me):
            for oid, call in zip(self.obs_ids[index], self.program["obs"][index]):
                start = self.now()
                me.cur_call = "O%d" % oid
                me.pending_enter.append(("O", oid, call))
                me.wait_timeout = TIMED_CALLS.get(call)     # None for "b" (and unused by "d")
                try:
                    if call == "d":
                        out = "T" if self.future.done() else "F"
                    else:
                        out = "v" + self.tok(self.future.result(me.wait_timeout))
                except OSError as ex:
                    out = "e" + self.tok(ex) if ex is self.exc_obj else "OSError"
                except Exception as ex:  # noqa: BLE001
                    out = "e" + self.tok(ex) if ex is self.exc_obj else type(ex).__name__
                me.wait_timeout = None
                self.observations.append((oid, call, out, start, self.now(), me.name))
                me.ended.append(("O", oid, out))
        return body

    # projection ---------------------------------------------------------------------------
    def projection(self):
        f = self.future
        d = f.__dict__
        ev = d.get("_done_event")
        evd = ev.__dict__ if ev is not None else {}
        cb = d.get("_FutureResult__callback", "?")
        lock = d.get("_FutureResult__lock")
        flag = evd.get("_EventData__event")
        comp = d.get("_FutureResult__completed", "?")
        return {
            "cb": "?" if isinstance(cb, str) else "N" if cb is None else str(
                "?" if self.rid_of_callable(cb) is None else self.rid_of_callable(cb)),
            "xt": self.tok(d.get("_FutureResult__extra")),
            "c": "?" if comp == "?" else ("1" if comp else "0"),
            "l": "?" if lock is None else ("N" if lock.owner is None else getattr(lock.owner, "cur_call", "?")),
            "f": "1" if getattr(flag, "_flag", False) else "0",
            "d": self.tok(evd.get("_EventData__data")),
            "x": self.tok(evd.get("_EventData__exception")),
            "calls": len(self.calls),
            "logged": len(self.logged),
        }

    # execution ----------------------------------------------------------------------------
    def execute(self, chooser):
        """
        Runs the program; `chooser(enabled_names, previous_name, step_index)` picks the next thread.
        Returns self (steps, observations, ...).  The shim is installed only while the run lasts.
        """
        ctrl = self.ctrl
        saved = tp.threading
        tp.threading = ShimThreading(ctrl)
        self.logger = RecLogger(self)
        try:
            self.future = tp.FutureResult(self.logger)
        finally:
            tp.threading = saved
        for rid, (kind, xspec, form) in self.regs.items():
            self.callbacks[rid] = self.make_callback(rid, kind, form)
            self.extras[rid] = self.make_extra(rid, xspec)
        install_call_hook(ctrl.codes)
        if self.program.get("outcome") is not None:
            ctrl.add("E", "exec", self.exec_body)
        for i in range(len(self.program.get("regs", []))):
            ctrl.add("R%d" % i, "reg", self.reg_body(i))
        for i in range(len(self.program.get("obs", []))):
            ctrl.add("O%d" % i, "obs", self.obs_body(i))
        for t in ctrl.threads:
            t.pending_enter = []
            t.ended = []
            t.wait_timeout = None
            t.cur_call = None

        def lock_of():
            return self.future.__dict__.get("_FutureResult__lock")

        def event_of():
            ev = self.future.__dict__.get("_done_event")
            return ev.__dict__.get("_EventData__event") if ev is not None else None

        self.enabled_at = []
        self.choices = []
        prev = None
        tp.threading = ShimThreading(ctrl)
        _ACTIVE[0] = ctrl
        try:
            # thread start-up: each runs its local prefix up to the first scheduling point
            self.cur = None
            for t in ctrl.threads:
                t.thread.start()
            for t in ctrl.threads:
                self.cur = t
                ctrl.resume(t)
            while True:
                alive = [t for t in ctrl.threads if not t.finished]
                if not alive:
                    break
                en = [t for t in alive if ctrl.enabled(t, lock_of, event_of)]
                if not en:
                    self.deadlock = True
                    break
                names = [t.name for t in en]
                pick = chooser(names, prev, len(self.choices))
                if pick not in names:
                    pick = names[0]
                t = en[names.index(pick)]
                self.enabled_at.append(names)
                self.choices.append(pick)
                st = Step()
                st.thread = t.name
                state = t.state
                if state[0] == "line":
                    st.func, st.line, lab = state[1], state[2], state[3]
                    st.label = lab.kind if lab.kind != "unknown" else "unknown:" + lab.text
                    if lab.kind == "wait" and t.wait_timeout is not None:
                        ev = event_of()
                        if ev is not None and not ev._flag:
                            t.timeout_granted = True
                else:
                    st.func, st.line = "<shim>", 0
                    st.label = "parked:" + state[1]
                    if state[1] == "event" and not state[2]._flag:
                        t.timeout_granted = True
                st.enter = list(t.pending_enter)
                del t.pending_enter[:]
                t.events = []
                del t.ended[:]
                self.cur = t
                st.call = t.cur_call
                self.steps.append(st)
                ctrl.resume(t)
                st.events = list(t.events)
                st.ended = list(t.ended)
                st.void = (t.state[0] == "parked" and not st.events and not st.ended)
                # calls started by this thread during the step (sequential calls of one client thread)
                st.proj = self.projection()
                prev = t.name
                if t.error is not None:
                    self.errors.append("thread %s: %s" % (t.name, hostile.describe(t.error)))
            self.final = None
            if not self.deadlock:
                self.cur = None
                try:
                    fin_done = bool(self.future.done())
                    try:
                        fin_res = "v" + self.tok(self.future.result(0))
                    except Exception as ex:  # noqa: BLE001
                        fin_res = "e" + self.tok(ex) if ex is self.exc_obj else type(ex).__name__
                    self.final = (fin_done, fin_res)
                except Exception as ex:  # noqa: BLE001
                    self.final = ("error", hostile.describe(ex))
        finally:
            tp.threading = saved
            ctrl.abort()
            _ACTIVE[0] = None
        return self


# --------------------------------------------------------------------------------------------
# Speed: the baton is handed from OS thread to OS thread twice per step; when the threads sit on different cores
# every hand-over pays a cross-core wake-up (3-4x slower, worse on a loaded machine).  Exploration therefore runs
# on ONE core, the idlest one at that moment; the previous affinity is restored afterwards.  Purely a matter of
# speed: which schedules are explored does not depend on it.


def _cpu_busy_ticks():
    out = {}
    try:
        with open("/proc/stat") as fh:
            for ln in fh:
                if ln.startswith("cpu") and ln[3:4].isdigit():
                    f = ln.split()
                    vals = [int(x) for x in f[1:]]
                    out[int(f[0][3:])] = sum(vals) - vals[3] - (vals[4] if len(vals) > 4 else 0)
    except (OSError, ValueError):
        pass
    return out


class single_cpu(object):
    """Context manager: pins the calling thread (and the threads it starts) to the idlest allowed core."""

    def __enter__(self):
        self.old = None
        if os.environ.get("VERIF_NO_PIN") or not hasattr(os, "sched_setaffinity"):
            return self
        try:
            allowed = os.sched_getaffinity(0)
            if len(allowed) > 1:
                import time
                a = _cpu_busy_ticks()
                time.sleep(0.03)
                b = _cpu_busy_ticks()
                load = {c: b.get(c, 0) - a.get(c, 0) for c in allowed}
                here = os.sched_getcpu() if hasattr(os, "sched_getcpu") else None
                best = min(sorted(allowed), key=lambda c: (load.get(c, 0) - (1 if c == here else 0), c))
                os.sched_setaffinity(0, {best})
                self.old = allowed
        except OSError:
            self.old = None
        return self

    def __exit__(self, *exc):
        if self.old is not None:
            try:
                os.sched_setaffinity(0, self.old)
            except OSError:
                pass
        return False


def default_chooser(prefix):
    """Follows `prefix`, then runs non-preemptively (stay on the previous thread, else the first enabled)."""
    def choose(names, prev, k):
        if k < len(prefix) and prefix[k] in names:
            return prefix[k]
        if prev in names:
            return prev
        return names[0]
    return choose


def random_chooser(rng, stickiness=0.5):
    def choose(names, prev, k):
        if prev in names and rng.random() < stickiness:
            return prev
        return rng.choice(names)
    return choose


def preemptions(choices, enabled_at):
    n = 0
    for k in range(1, len(choices)):
        if choices[k] != choices[k - 1] and choices[k - 1] in enabled_at[k]:
            n += 1
    return n


def explore(program, on_run, max_preemptions=None, limit=None, table=None, codes=None):
    """
    Stateless DFS over all schedules of `program` (every maximal schedule exactly once; with `max_preemptions`
    only those with at most that many preemptive context switches).  Calls `on_run(run)`; stops early when it
    returns True or after `limit` executions.  Returns (number of executions, exhausted?).
    """
    table = table if table is not None else build_table()
    codes = codes if codes is not None else traced_codes()
    stack = [[]]
    n = 0
    while stack:
        prefix = stack.pop()
        run = Run(program, table, codes).execute(default_chooser(prefix))
        n += 1
        if on_run(run):
            return n, False
        ch, en = run.choices, run.enabled_at
        for k in range(len(ch) - 1, len(prefix) - 1, -1):
            for alt in en[k]:
                if alt == ch[k]:
                    continue
                cand = ch[:k] + [alt]
                if max_preemptions is not None and preemptions(cand, en[:k + 1]) > max_preemptions:
                    continue
                stack.append(cand)
        if limit is not None and n >= limit:
            return n, not stack
    return n, True


def shrink(program, schedule, fails, table=None, codes=None):
    """Shortest prefix of `schedule` (completed non-preemptively) on which `fails(run)` still holds."""
    table = table if table is not None else build_table()
    codes = codes if codes is not None else traced_codes()
    best = list(schedule)
    for k in range(0, len(schedule) + 1):
        run = Run(program, table, codes).execute(default_chooser(schedule[:k]))
        if fails(run):
            best = run.choices[:max(k, 0)]
            # drop the trailing part that the default policy reproduces anyway
            return best, run
    return best, Run(program, table, codes).execute(default_chooser(best))
