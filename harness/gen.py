"""
Generators shared by the property modules.  Every random choice comes from the `random.Random`
handed in, so a case replays exactly from (property id, VERIF_SEED).
"""

EDGE_INTS = [0, 1, -1, 2, 7, 255, 2 ** 31, -(2 ** 31), 2 ** 53, -(2 ** 53), 2 ** 53 - 1, 10 ** 30]
EDGE_FLOATS = [0.0, -0.0, 1.0, 1.5, -2.25, 1e-320, 5e-324, 1.7976931348623157e308, 2.0 ** 53, 0.1, -32700.5, 1e22]
EDGE_STRS = ["", "a", "id", "result", "error", "é", "\u0000", "日本語", "\U0001f600", "é", "a b", "x.y", "__jsonclass__",
             "\"quoted\"", "\\back", "line\nbreak", "code", "0"]
KEYS = ["a", "b", "k", "", "id", "é", "not an identifier", "code", "0", "x.y"]


def json_scalar(rng):
    r = rng.random()
    if r < 0.12:
        return None
    if r < 0.24:
        return rng.choice([True, False])
    if r < 0.50:
        return rng.choice(EDGE_INTS) if rng.random() < 0.5 else rng.randint(-1000, 1000)
    if r < 0.68:
        return rng.choice(EDGE_FLOATS) if rng.random() < 0.6 else round(rng.uniform(-1e6, 1e6), rng.randint(0, 6))
    return rng.choice(EDGE_STRS) if rng.random() < 0.6 else "".join(
        rng.choice("abcXYZ019_.-é日 ") for _ in range(rng.randint(0, 8)))


def json_value(rng, size=4, depth=3):
    """A JSON value (None/bool/int/float/str/list/str-keyed dict) with a size budget."""
    if depth <= 0 or size <= 0 or rng.random() < 0.45:
        return json_scalar(rng)
    n = rng.randint(0, min(size, 4))
    if rng.random() < 0.5:
        return [json_value(rng, size - n, depth - 1) for _ in range(n)]
    d = {}
    for _ in range(n):
        k = rng.choice(KEYS) if rng.random() < 0.7 else "".join(rng.choice("abcé_ ") for _ in range(rng.randint(0, 5)))
        d[k] = json_value(rng, size - n, depth - 1)
    return d


def shape(v, depth=0):
    """A coarse shape string of a value, used to count distinct cases."""
    if v is None:
        return "n"
    if v is True or v is False:
        return "b"
    if isinstance(v, int):
        return "i0" if v == 0 else "i"
    if isinstance(v, float):
        return "f0" if v == 0 else "f"
    if isinstance(v, str):
        return "s0" if v == "" else "s"
    if isinstance(v, (list, tuple)):
        if depth > 2:
            return "[..]"
        return "[" + ",".join(shape(x, depth + 1) for x in v[:4]) + "]"
    if isinstance(v, dict):
        if depth > 2:
            return "{..}"
        return "{" + ",".join("%s:%s" % (k if len(k) < 8 else "k", shape(x, depth + 1)) for k, x in sorted(v.items())[:5]) + "}"
    if isinstance(v, (set, frozenset)):
        return "set%d" % len(v)
    return type(v).__name__
