"""
HOSTILE exception objects (shared by the pool harness - C09 - and the future harness - C16).

The properties quantify over "tasks that ... raise ANY exception" / "callbacks that raise": the library may hold such an
object, hand it on (`raise`, `callback(result, exception, extra)`, a lazy logging argument) and test it against `None` by
identity - nothing else.  Whatever it does beyond that runs code of the application's exception class, and that code may
fail or lie:

  strraise   `__str__` raises                      (what `"%s" % ex`, `str(ex)`, `"{}".format(ex)`, f"{ex}" call)
  strnone    `__str__` returns None                (TypeError from `str()`: an "optional message" class)
  reprraise  `__repr__` raises                     (`"%r" % ex`, `repr(ex)`, f"{ex!r}")
  fmtraise   `__format__` raises                   (f"{ex}", `"{0}".format(ex)`, `format(ex)`; `str(ex)` still works)
  argsraise  `args` is a property that raises      (`ex.args`, `ex.args[0]`)
  huge       a 1 MiB message                       (anything that copies / concatenates it)
  nonascii   lone surrogates, NUL, `%s` `%(x)s` `{0}` `{` in the message  (message reused as a format string / encoded)
  ctor       the class needs constructor arguments (two positional, one keyword-only): `type(ex)()`, `type(ex)(str(ex))`,
             copy / pickle of the object fail - only THE object can be delivered
  boolraise  `__bool__` and `__len__` raise        (`if ex:`, `ex or ...`, `not ex`)
  eqraise    `__eq__`, `__ne__` and `__hash__` raise  (`ex == ...`, `ex in ...`, `{ex: ...}`, `set([ex])`)
  allbad     all of the above in one class

Every failing special method raises `DunderCalled` (an ordinary `Exception` subclass: if the library lets it out of an
`except Exception` handler it is the kind of failure the properties talk about).  The harness itself never formats,
compares, hashes or tests such an object: `describe()` gives the class name only, identity is `is`.
"""

KINDS = ("strraise", "strnone", "reprraise", "fmtraise", "argsraise", "huge", "nonascii", "ctor", "boolraise", "eqraise",
         "allbad")

NASTY_TEXT = u"\udcff\ud800 ☃ \x00 100% %s %(x)s %d {0} {x} { } \\"


class DunderCalled(Exception):
    """A special method of a hostile exception object was called (and fails, as the application wrote it)."""


def _fail(name):
    def method(self, *args, **kwargs):
        raise DunderCalled(name)
    method.__name__ = name
    return method


class StrRaises(Exception):
    __str__ = _fail("__str__")


class StrNone(Exception):
    """An "optional message" error: `__str__` returns the message, which is None."""

    def __init__(self, message=None):
        Exception.__init__(self)
        self.message = message

    def __str__(self):
        return self.message


class ReprRaises(Exception):
    __repr__ = _fail("__repr__")


class FormatRaises(Exception):
    __format__ = _fail("__format__")


class ArgsRaises(Exception):
    args = property(_fail("args"))


class Huge(Exception):
    pass


class NonAscii(Exception):
    pass


class NeedsArguments(Exception):
    def __init__(self, code, detail, *, origin):
        Exception.__init__(self, code, detail)
        self.origin = origin

    def __reduce__(self):
        raise DunderCalled("__reduce__")


class BoolRaises(Exception):
    __bool__ = _fail("__bool__")
    __len__ = _fail("__len__")


class EqRaises(Exception):
    __eq__ = _fail("__eq__")
    __ne__ = _fail("__ne__")
    __hash__ = _fail("__hash__")


class AllBad(Exception):
    def __init__(self, code, detail, *, origin):
        Exception.__init__(self, code, detail)

    __str__ = _fail("__str__")
    __repr__ = _fail("__repr__")
    __format__ = _fail("__format__")
    args = property(_fail("args"))
    __bool__ = _fail("__bool__")
    __len__ = _fail("__len__")
    __eq__ = _fail("__eq__")
    __ne__ = _fail("__ne__")
    __hash__ = _fail("__hash__")
    __reduce__ = _fail("__reduce__")


def make(kind, tag=""):
    """A fresh hostile exception object of the given kind (`tag` only makes plain messages distinct)."""
    if kind == "strraise":
        return StrRaises("hostile-%s" % tag)
    if kind == "strnone":
        return StrNone()
    if kind == "reprraise":
        return ReprRaises("hostile-%s" % tag)
    if kind == "fmtraise":
        return FormatRaises("hostile-%s" % tag)
    if kind == "argsraise":
        return ArgsRaises("hostile-%s" % tag)
    if kind == "huge":
        return Huge("x" * (1 << 20))
    if kind == "nonascii":
        return NonAscii(NASTY_TEXT)
    if kind == "ctor":
        return NeedsArguments(7, "hostile-%s" % tag, origin="task")
    if kind == "boolraise":
        return BoolRaises("hostile-%s" % tag)
    if kind == "eqraise":
        return EqRaises("hostile-%s" % tag)
    if kind == "allbad":
        return AllBad(7, "hostile-%s" % tag, origin="task")
    raise ValueError("unknown hostile exception kind %r" % (kind,))


def describe(ex):
    """Class name only: never str() / repr() / == of an object that may be hostile."""
    return "<%s object>" % type(ex).__name__
