"""
Adapters to the real implementation (in-process, PYTHONPATH=/repo) shared by the property modules.
"""
import logging
import os
import sys

REPO = os.environ.get("VERIF_REPO", "/repo")
if REPO not in sys.path:
    sys.path.insert(0, REPO)

logging.disable(logging.CRITICAL)

import jsonrpclib  # noqa: E402
import jsonrpclib.config  # noqa: E402
import jsonrpclib.jsonrpc  # noqa: E402

import pyval  # noqa: E402


class LoopTransport(object):
    """
    A transport object for ServerProxy that answers from a function `handler(request_text) -> reply_text`
    (the real client code path runs: dumps, History, _run_request, loads, check_for_errors).
    """

    def __init__(self, handler):
        self.handler = handler
        self.headers = []
        self.calls = []

    def push_headers(self, headers):
        self.headers.append(headers)

    def pop_headers(self, headers):
        assert self.headers[-1] == headers
        self.headers.pop()

    def request(self, host, handler, request_body, verbose=0):
        self.calls.append((host, handler, request_body))
        return self.handler(request_body)

    def close(self):
        pass


def outcome(fn, *args, **kwargs):
    """Runs fn; returns ('ok', value) or ('err', exception)."""
    try:
        return ("ok", fn(*args, **kwargs))
    except Exception as ex:  # noqa: BLE001
        return ("err", ex)


PROTO_CLASSES = ("ProtocolError", "AppError")


def canon_outcome(kind, val, obj_hook=None, keep_arg=PROTO_CLASSES):
    """
    Canonical line for an outcome: `ok <value>` or `err <Class> <arg>`; the argument is kept only for
    the classes whose payload the properties talk about (messages of other exceptions are not compared).
    """
    if kind == "ok":
        return "ok " + pyval.enc(val, obj_hook, canon=True)
    name = type(val).__name__
    if name in keep_arg:
        arg = val.args[0] if len(val.args) == 1 else tuple(val.args)
        try:
            return "err %s %s" % (name, pyval.enc(arg, obj_hook, canon=True))
        except pyval.Unencodable:
            return "err %s ?" % name
    return "err " + name


def canon_model_line(line, keep_arg=PROTO_CLASSES):
    """Brings a model result line to the same canonical form."""
    if line.startswith("ok "):
        return "ok " + pyval.canon(line[3:])
    if line.startswith("err "):
        parts = line.split(" ", 2)
        if parts[1] in keep_arg and len(parts) == 3:
            return "err %s %s" % (parts[1], pyval.canon(parts[2]))
        return "err " + parts[1]
    return line
