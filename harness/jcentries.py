"""
Every public entry point of the package that is constructed with a `Config` (C08, C20): built here with the
configuration the caller hands over — never the default one — and driven through its public path.

Server side (`ServerEntry(kind, cfg, methods)`, `.send(body) -> reply text`):
    dispatcher / dispatcher-positional   SimpleJSONRPCDispatcher(config=cfg) / (None, cfg)      _marshaled_dispatch(body)
    cgi / cgi-positional                 CGIJSONRPCRequestHandler(config=cfg) / ("UTF-8", cfg)  handle_jsonrpc(body), stdout captured
    tcp / tcp-positional                 SimpleJSONRPCServer(("127.0.0.1", 0), config=cfg) / all arguments positional
                                         an HTTP POST over a real socket (do_POST of the request handler)
    pooled                               PooledJSONRPCServer(…, config=cfg, thread_pool=…)      the same, served by a pool thread
    unix / unix-pooled                   the two servers with address_family=AF_UNIX             HTTP POST over a Unix socket
Client side (`client(kind, cfg, send)` -> a ServerProxy whose requests reach `send`):
    proxy-loop        ServerProxy(url, transport=LoopTransport, config=cfg)
    server-alias      jsonrpclib.Server (the alias of ServerProxy)
    proxy-http        ServerProxy("http://127.0.0.1:<port>/", config=cfg): the package's own Transport(config=cfg), against a
                      relay HTTP server that hands the body to `send`
    proxy-unix        ServerProxy("unix+http://localhost/<path>", config=cfg): the package's own UnixTransport
"""
import http.client
import http.server
import io
import os
import shutil
import socket
import socketserver
import sys
import tempfile
import threading

import impl

import jsonrpclib.threadpool
from jsonrpclib.SimpleJSONRPCServer import (CGIJSONRPCRequestHandler, PooledJSONRPCServer, SimpleJSONRPCDispatcher,
                                            SimpleJSONRPCServer)

IN_PROCESS = ["dispatcher", "dispatcher-positional", "cgi", "cgi-positional"]
SOCKET = ["tcp", "tcp-positional", "pooled", "unix", "unix-pooled"]
SERVER_ENTRIES = IN_PROCESS + SOCKET
CLIENT_ENTRIES = ["proxy-loop", "server-alias", "proxy-http", "proxy-unix"]

_STDOUT_LOCK = threading.Lock()


class _UnixConn(http.client.HTTPConnection):
    def __init__(self, path):
        http.client.HTTPConnection.__init__(self, "localhost", timeout=10)
        self._path = path

    def connect(self):
        self.sock = socket.socket(socket.AF_UNIX, socket.SOCK_STREAM)
        self.sock.settimeout(10)
        self.sock.connect(self._path)


class ServerEntry(object):
    def __init__(self, kind, cfg, methods):
        self.kind = kind
        self.cfg = cfg
        self.dir = None
        self.thread = None
        self.pool = None
        self.path = None
        if kind == "dispatcher":
            self.obj = SimpleJSONRPCDispatcher(config=cfg)
        elif kind == "dispatcher-positional":
            self.obj = SimpleJSONRPCDispatcher(None, cfg)
        elif kind == "cgi":
            self.obj = CGIJSONRPCRequestHandler(config=cfg)
        elif kind == "cgi-positional":
            self.obj = CGIJSONRPCRequestHandler("UTF-8", cfg)
        elif kind in SOCKET:
            unix = kind.startswith("unix")
            if unix:
                self.dir = tempfile.mkdtemp(prefix="jrv_ent_")
                self.path = os.path.join(self.dir, "s.sock")
            addr = self.path if unix else ("127.0.0.1", 0)
            family = socket.AF_UNIX if unix else socket.AF_INET
            if kind.endswith("pooled"):
                self.pool = jsonrpclib.threadpool.ThreadPool(2, 0, logname="jrv-entry")
                self.pool.start()
                self.obj = PooledJSONRPCServer(addr, logRequests=False, address_family=family, config=cfg, thread_pool=self.pool)
            elif kind == "tcp-positional":
                from jsonrpclib.SimpleJSONRPCServer import SimpleJSONRPCRequestHandler
                self.obj = SimpleJSONRPCServer(addr, SimpleJSONRPCRequestHandler, False, None, True, family, cfg)
            else:
                self.obj = SimpleJSONRPCServer(addr, logRequests=False, address_family=family, config=cfg)
            self.thread = threading.Thread(target=self.obj.serve_forever, kwargs={"poll_interval": 0.01}, daemon=True)
            self.thread.start()
        else:
            raise ValueError(kind)
        for name, fn in methods.items():
            self.obj.register_function(fn, name)

    def send(self, body):
        """The reply text of the entry's public path ('' when it sends nothing)."""
        kind = self.kind
        if kind.startswith("dispatcher"):
            return self.obj._marshaled_dispatch(body) or ""
        if kind.startswith("cgi"):
            raw = io.BytesIO()
            wrapper = io.TextIOWrapper(raw, encoding="utf-8", newline="\n")
            with _STDOUT_LOCK:
                old = sys.stdout
                sys.stdout = wrapper
                try:
                    self.obj.handle_jsonrpc(body)
                    wrapper.flush()
                finally:
                    sys.stdout = old
            out = raw.getvalue().decode("utf-8")
            wrapper.detach()
            return out.split("\n\n", 1)[1] if "\n\n" in out else ""
        data = body.encode("utf-8")
        if self.path:
            conn = _UnixConn(self.path)
        else:
            conn = http.client.HTTPConnection("127.0.0.1", self.obj.server_address[1], timeout=10)
        try:
            conn.request("POST", "/", body=data, headers={"Content-Type": "application/json-rpc", "Content-Length": str(len(data))})
            resp = conn.getresponse()
            return resp.read().decode("utf-8")
        finally:
            conn.close()

    def url(self):
        if self.path:
            return "unix+http://localhost" + self.path
        return "http://127.0.0.1:%d/" % self.obj.server_address[1]

    def close(self):
        if self.thread is not None:
            try:
                self.obj.shutdown()
            finally:
                self.obj.server_close()  # the pooled server stops its pool here
            self.thread.join(5)
            if self.pool is not None:
                try:
                    self.pool.stop()
                except Exception:  # noqa: BLE001  (already stopped by server_close)
                    pass
        if self.dir:
            shutil.rmtree(self.dir, ignore_errors=True)


class Relay(object):
    """A plain HTTP server (not the package's) that hands every POST body to `send` and writes back what it returns:
    lets the package's own transports (built by ServerProxy from the configuration) talk to any reply function."""

    def __init__(self, send, unix=False):
        relay = self

        class Handler(http.server.BaseHTTPRequestHandler):
            protocol_version = "HTTP/1.0"

            def do_POST(self):
                n = int(self.headers.get("content-length") or 0)
                body = self.rfile.read(n).decode("utf-8")
                relay.headers.append(dict((k.lower(), v) for k, v in self.headers.items()))
                reply = (send(body) or "").encode("utf-8")
                self.send_response(200)
                self.send_header("Content-Type", "application/json-rpc")
                self.send_header("Content-Length", str(len(reply)))
                self.end_headers()
                try:
                    self.wfile.write(reply)
                except (BrokenPipeError, ConnectionResetError):
                    pass  # the client went away without reading the reply (it had already failed): nothing to report

            def log_message(self, *args):
                pass

        self.headers = []
        self.dir = None
        if unix:
            self.dir = tempfile.mkdtemp(prefix="jrv_rel_")
            self.path = os.path.join(self.dir, "r.sock")

            class UnixServer(socketserver.UnixStreamServer):
                def get_request(self):
                    request, _addr = socketserver.UnixStreamServer.get_request(self)
                    return request, ("localhost", 0)

            self.srv = UnixServer(self.path, Handler)
            self.url = "unix+http://localhost" + self.path
        else:
            self.srv = socketserver.TCPServer(("127.0.0.1", 0), Handler)
            self.url = "http://127.0.0.1:%d/" % self.srv.server_address[1]
        self.thread = threading.Thread(target=self.srv.serve_forever, kwargs={"poll_interval": 0.01}, daemon=True)
        self.thread.start()

    def close(self):
        self.srv.shutdown()
        self.srv.server_close()
        self.thread.join(5)
        if self.dir:
            shutil.rmtree(self.dir, ignore_errors=True)


class Client(object):
    """A proxy of one of the CLIENT_ENTRIES kinds whose requests are answered by `send(body) -> reply text`."""

    def __init__(self, kind, cfg, send, version=None):
        J = impl.jsonrpclib.jsonrpc
        self.kind = kind
        self.relay = None
        self.sent = []

        def recording(body):
            self.sent.append(body)
            return send(body)

        if kind == "proxy-loop":
            self.proxy = J.ServerProxy("http://localhost/", transport=impl.LoopTransport(recording), config=cfg, version=version)
        elif kind == "server-alias":
            self.proxy = impl.jsonrpclib.Server("http://localhost/", transport=impl.LoopTransport(recording), config=cfg,
                                                version=version)
        elif kind in ("proxy-http", "proxy-unix"):
            self.relay = Relay(recording, unix=kind == "proxy-unix")
            self.proxy = J.ServerProxy(self.relay.url, config=cfg, version=version)
        else:
            raise ValueError(kind)

    def close(self):
        try:
            self.proxy("close")()
        except Exception:  # noqa: BLE001
            pass
        if self.relay is not None:
            self.relay.close()
