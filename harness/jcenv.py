"""
Class environments for the jsonclass properties (C07, C15; reusable for C08, C20).

A *spec* describes one class; the same description is (a) turned into a real Python class with `exec`
(so that Python itself applies name mangling, `__slots__` layout, enum construction) and (b) encoded as the
`classenv` argument of the Lean driver components `jcdump` / `jcload` (lean/JRV/Driver/JsonClass.lean).

spec = {
  "id": class id, "module": module name ("__main__" = locally registered), "name": class name,
  "bases": [ids], "slots": None | [names as written], "kind": "bean" | "serial" | "enum" | "decimal" | "raising",
  "own": [(name as written, value)]              bean: assigned by __init__ after the bases' __init__
  "method", "by_dict", "params", "attrs"         serial
  "members": [(name, value)]                     enum (a later member with the value of an earlier one is an alias)
  "flavour": "Enum" | "Flag" | "IntEnum" | "StrEnum" | "IntFlag"   enum (default "Enum"); the last three derive from a
                                                 primitive type: their members are transmitted as that primitive
  "auto": [member names]                         enum: members whose value is written `enum.auto()`
  "raises": exception class name                 raising: the constructor raises it whatever it is given
  "class_attrs": {name: value}                   own class-level data attributes (e.g. the ignore list)
}
"""
import copy
import decimal
import enum
import sys
import types

import pyval

class JrvCustomError(Exception):
    """An exception class of the application (neither TypeError nor any built-in)."""


RAISABLE = {"ZeroDivisionError": ZeroDivisionError, "RuntimeError": RuntimeError, "OSError": OSError,
            "TypeError": TypeError, "ValueError": ValueError, "KeyError": KeyError, "JrvCustomError": JrvCustomError,
            "StopIteration": StopIteration, "AssertionError": AssertionError, "AttributeError": AttributeError,
            "ImportError": ImportError, "LookupError": LookupError, "ArithmeticError": ArithmeticError}

DEC_ID = "decimal.Decimal"
DEC_SPEC = {"id": DEC_ID, "module": "decimal", "name": "Decimal", "bases": [], "slots": None, "kind": "decimal",
            "class_attrs": {}}


ENUM_FLAVOURS = {"Enum": enum.Enum, "Flag": enum.Flag, "IntEnum": enum.IntEnum, "StrEnum": enum.StrEnum,
                 "IntFlag": enum.IntFlag}
PRIM_FLAVOURS = {"IntEnum": int, "StrEnum": str, "IntFlag": int}


def make_enum(s):
    """The real enumeration class of an enum spec (functional API, so that Python builds members, aliases, `auto()` values and
    flag combinations itself)."""
    base = ENUM_FLAVOURS[s.get("flavour", "Enum")]
    auto = set(s.get("auto", []))
    return base(s["name"], [(n, enum.auto() if n in auto else v) for n, v in s["members"]], module=s["module"])


def enum_name(member):
    """`member.name`; the empty flag and unnamed combinations have none."""
    return member.name if member.name is not None else ""


def enum_table(c, s):
    """[(name, value)] for every value the enumeration accepts (`c(value)`): the canonical members — and, for a Flag, every
    combination of them, the empty one included (named `A|B` by Python, or by an alias that is defined for the combination)."""
    if s.get("flavour") in ("Flag", "IntFlag"):
        vals = set([0])
        for m in c.__members__.values():
            vals |= set(v | m.value for v in vals)
        out = []
        for v in sorted(vals):
            try:
                m = c(v)
            except ValueError:
                continue
            out.append((enum_name(m), m.value))
        return out
    return [(m.name, m.value) for m in c]


def mangled(clsname, written):
    if written.startswith("__") and not written.endswith("__"):
        stripped = clsname.lstrip("_")
        if stripped:
            return "_" + stripped + written
    return written


class Env(object):
    def __init__(self, specs, extra_mods=()):
        self.specs = list(specs)  # parents first
        self.by_id = dict((s["id"], s) for s in self.specs)
        self.cls = {}
        self.ids = {}
        self.extra_mods = list(extra_mods)
        self._installed = []
        self._twins = {}
        self._build()

    # ---- construction of the real classes ---------------------------------------------------
    def _build(self):
        for s in self.specs:
            if s["kind"] == "decimal":
                c = decimal.Decimal
            elif s["kind"] == "enum":
                c = make_enum(s)
            else:
                c = self._exec_class(s)
            self.cls[s["id"]] = c
            self.ids[c] = s["id"]

    # ---- stale definitions: another class object made from the same description (same __name__, same module) -----------
    STALE = "~stale"

    def ref(self, ref):
        """The class a registry statement names: a class id, or `<class id>~stale` — a *different* class object built from
        the same description (what is left in a long-running process of a class that was defined again)."""
        if ref.endswith(self.STALE):
            if ref not in self._twins:
                s = self.by_id[ref[:-len(self.STALE)]]
                self._twins[ref] = make_enum(s) if s["kind"] == "enum" else self._exec_class(s)
            return self._twins[ref]
        return self.cls[ref]

    def ref_of(self, c):
        """Inverse of `ref` (None for a class this environment does not know)."""
        if c in self.ids:
            return self.ids[c]
        for r, t in self._twins.items():
            if t is c:
                return r
        return None

    def prim_base(self, v):
        """int / str for a member of an enumeration derived from that primitive type, else None."""
        cid = self.ids.get(type(v))
        if cid is None or self.by_id[cid]["kind"] != "enum":
            return None
        return PRIM_FLAVOURS.get(self.by_id[cid].get("flavour", "Enum"))

    def _exec_class(self, s):
        bases = [self.cls[b] for b in s["bases"]]
        ns = {"__name__": s["module"], "copy": copy, "_V": [v for _n, v in s.get("own", [])],
              "_CA": s.get("class_attrs", {}), "_ATTRS": list(s.get("attrs", []))}
        bnames = []
        for i, b in enumerate(bases):
            ns["_B%d" % i] = b
            bnames.append("_B%d" % i)
        src = ["class %s(%s):" % (s["name"], ", ".join(bnames) or "object")]
        if s["slots"] is not None:
            src.append("    __slots__ = %r" % (tuple(s["slots"]),))
        for k in s.get("class_attrs", {}):
            src.append("    %s = _CA[%r]" % (k, k))
        if s["kind"] == "raising":
            ns["_EXC"] = RAISABLE[s["raises"]]
            src.append("    def __init__(self, *args, **kwargs):")
            src.append("        raise _EXC('constructor of %s')" % s["name"])
        elif s["kind"] == "bean":
            src.append("    def __init__(self):")
            for bn in bnames:
                src.append("        %s.__init__(self)" % bn)
            for i, (n, _v) in enumerate(s.get("own", [])):
                src.append("        self.%s = copy.deepcopy(_V[%d])" % (n, i))
            src.append("        pass")
        else:
            ps = s["params"]
            src.append("    def __init__(self, %s):" % ", ".join(ps) if ps else "    def __init__(self):")
            for bn in bnames:
                src.append("        %s.__init__(self)" % bn)
            for p in ps:
                src.append("        self.%s = %s" % (p, p))
            src.append("        pass")
            src.append("    def %s(self):" % s["method"])
            if s["by_dict"]:
                src.append("        params = {%s}" % ", ".join("%r: self.%s" % (p, p) for p in ps))
            else:
                src.append("        params = [%s]" % ", ".join("self.%s" % p for p in ps))
            src.append("        return params, dict((a, getattr(self, a)) for a in _ATTRS)")
        exec("\n".join(src) + "\n", ns)
        c = ns[s["name"]]
        c.__module__ = s["module"]
        return c

    # ---- registration so that inspect.getmodule / __import__ see the classes ------------------
    def install(self):
        """Module-qualified classes become attributes of (synthetic) modules in sys.modules.  Classes of module
        `__main__` are NOT made attributes of the running `__main__` module: they are the classes "not importable by
        module path" of C07 — `inspect.getmodule` only needs `cls.__module__ == "__main__"` — so that
        Config.classes is the only way to resolve them, as in a receiving process that has its own `__main__`."""
        for s in self.specs:
            m = s["module"]
            if s["kind"] == "decimal" or m == "__main__":
                continue
            if m not in sys.modules:
                sys.modules[m] = types.ModuleType(m)
                self._installed.append(m)
            setattr(sys.modules[m], s["name"], self.cls[s["id"]])
        for m in self.extra_mods:
            if m not in sys.modules:
                sys.modules[m] = types.ModuleType(m)
                self._installed.append(m)
        return self

    def uninstall(self):
        for m in self._installed:
            sys.modules.pop(m, None)
        self._installed = []

    # ---- stored attributes in the canonical order of the model -------------------------------
    def slot_names(self, cid, seen=None):
        """Own slots mangled with the class's own name, then those of the bases (depth first)."""
        s = self.by_id[cid]
        out = []
        if s["slots"] is not None:
            out.extend(mangled(s["name"], w) for w in s["slots"])
        for b in s["bases"]:
            out.extend(self.slot_names(b))
        return out

    def stored(self, inst):
        cid = self.ids[type(inst)]
        out = []
        names = set()
        if hasattr(inst, "__dict__"):
            for k, v in inst.__dict__.items():
                out.append((k, v))
                names.add(k)
        for n in self.slot_names(cid):
            if n not in names:
                names.add(n)
                try:
                    out.append((n, object.__getattribute__(inst, n)))
                except AttributeError:
                    pass
        return out

    def hook(self, v):
        if type(v) is bytes:
            # bytes are outside the value universe of the model: an opaque instance with the exact type tag "bytes"
            return ("bytes", [("hex", v.hex())])
        if type(v) is decimal.Decimal:
            return (DEC_ID, [("str", str(v))])
        cid = self.ids.get(type(v))
        if cid is None:
            return None
        if self.by_id[cid]["kind"] == "enum":
            return (cid, [("name", enum_name(v)), ("value", v.value)])
        return (cid, self.stored(v))

    def enc(self, v, canon=False):
        return pyval.enc(v, self.hook, canon=canon)

    def type_tag(self, t):
        if t in self.ids:
            return self.ids[t]
        return t.__name__

    # ---- the `classenv` argument of the Lean driver -----------------------------------------
    def lean_classes(self):
        names = set()
        for s in self.specs:
            names.update(s.get("class_attrs", {}))
        out = []
        for s in reversed(self.specs):  # children first
            c = self.cls[s["id"]]
            if s["kind"] == "enum" and s.get("flavour") in PRIM_FLAVOURS:
                # derived from a primitive type: its members are primitives for the code (`isinstance(obj, PRIMITIVE_TYPES)`),
                # outside the class universe of the model; values that hold one are judged by the monitors only
                continue
            if s["kind"] == "bean":
                kind = ["bean", dict(self.stored(c()))]
            elif s["kind"] == "serial":
                probe = c(*[None for _p in s["params"]])
                base = dict((n, x) for n, x in self.stored(probe) if n not in s["params"])
                kind = ["serial", s["method"], bool(s["by_dict"]), list(s["params"]), list(s["attrs"]), base]
            elif s["kind"] == "enum":
                kind = ["enum", dict(enum_table(c, s))]
            elif s["kind"] == "raising":
                kind = ["raising", s["raises"]]
            else:
                kind = ["decimal"]
            cattrs = {}
            if s["kind"] != "decimal":
                for n in sorted(names):
                    if hasattr(c, n):
                        cattrs[n] = getattr(c, n)
            out.append([s["id"], s["module"], s["name"], list(s["bases"]),
                        None if s["slots"] is None else list(s["slots"]), kind, cattrs])
        return out

    def world(self):
        return [self.lean_classes(), list(self.extra_mods)]


# ---- handlers with the behaviour of `driverH` (lean/JRV/Driver/JsonClass.lean) ---------------

def handler_functions(env):
    def h0(obj, serialize_method, ignore_attribute, ignore, config):
        return "H0"

    def h1(obj, serialize_method, ignore_attribute, ignore, config):
        return [env.type_tag(type(obj)), serialize_method, ignore_attribute, list(ignore)]

    def h2(obj, serialize_method, ignore_attribute, ignore, config):
        raise ValueError("handler 2")

    def h3(obj, serialize_method, ignore_attribute, ignore, config):
        return 7

    def h4(obj, serialize_method, ignore_attribute, ignore, config):
        return None  # e.g. a redacting handler: JSON null is the value to emit

    def h5(obj, serialize_method, ignore_attribute, ignore, config):
        return []  # falsy

    def h6(obj, serialize_method, ignore_attribute, ignore, config):
        return (env.type_tag(type(obj)), 0)  # a tuple: emitted as it is, not turned into a list

    def h7(obj, serialize_method, ignore_attribute, ignore, config):
        return obj  # the object itself: emitted as it is, not dumped again

    def h8(obj, serialize_method, ignore_attribute, ignore, config):
        return ""  # falsy

    return {0: h0, 1: h1, 2: h2, 3: h3, 4: h4, 5: h5, 6: h6, 7: h7, 8: h8}


BUILTIN_TYPES = {"NoneType": type(None), "bool": bool, "int": int, "float": float, "str": str, "list": list,
                 "tuple": tuple, "set": set, "frozenset": frozenset, "dict": dict, "bytes": bytes}


def lean_cfg(serialize_method, ignore_attribute, handlers):
    """handlers: [(type tag, handler id | None)]"""
    return [serialize_method, ignore_attribute, [[t, h] for t, h in handlers]]


# ---- random class environments --------------------------------------------------------------

PUBLIC = ["pub", "value2", "first", "x", "data", "n"]
PROTECTED = ["_prot", "_second", "_y", "_items"]
PRIVATE = ["__priv", "__third", "__z"]


def rand_prim(rng, gen):
    return gen.json_scalar(rng)


def gen_specs(rng, gen, tag, n_classes=None, ignore_attr="_ignore", method="_serialize", local_ratio=0.35,
              with_ignore=0.0, flavours=False, adversarial=0.0):
    """
    Random hierarchy: 3-7 user classes (+ an enum, + Decimal), inheritance depth 0-3, slots/dict mixed,
    public/protected/name-mangled field names, serial classes with list or dict constructor arguments.
    """
    n = n_classes or rng.randint(3, 7)
    mods = ["jrvm_%s" % tag, "jrvp_%s.sub" % tag, "__main__"]
    specs = []
    depth = {}
    slotted_all = {}  # id -> hierarchy fully slotted?
    has_layout = {}  # id -> hierarchy has non-empty slots (layout conflicts for multiple inheritance)
    for i in range(n):
        cid = "c%d_%s" % (i, tag)
        name = rng.choice(["Bean", "Node", "_Hidden", "Item", "__Odd"]) + "%d" % i
        module = "__main__" if rng.random() < local_ratio else rng.choice(mods[:2])
        bean_parents = [s for s in specs if s["kind"] == "bean" and depth[s["id"]] < 3]
        bases = []
        if bean_parents and rng.random() < 0.6:
            bases = [rng.choice(bean_parents)["id"]]
            if rng.random() < 0.2:
                # second base: only one base may bring a non-empty slot layout
                cands = [s["id"] for s in bean_parents if s["id"] not in bases and not has_layout[s["id"]]
                         and not _related(specs, s["id"], bases[0])]
                if cands:
                    bases.append(rng.choice(cands))
        depth[cid] = 1 + max([depth[b] for b in bases] + [-1])
        kind = "serial" if rng.random() < 0.25 else "bean"
        use_slots = rng.random() < 0.5
        parents_slotted = all(slotted_all[b] for b in bases)
        fully = use_slots and parents_slotted
        nfields = rng.randint(0, 4)
        pool = PUBLIC + PROTECTED + (PRIVATE if kind == "bean" else [])
        inherited = set()
        for b in bases:
            inherited.update(_written_names(specs, b))
        written = []
        picked = rng.sample(pool, min(nfields, len(pool)))
        if kind == "bean" and rng.random() < 0.3 and not any(w in PRIVATE for w in picked):
            picked.append(rng.choice(PRIVATE))
        for w in picked:
            if w in inherited and use_slots:
                continue  # a slot may not shadow an inherited slot/attribute in this generator
            written.append(w)
        spec = {"id": cid, "module": module, "name": name, "bases": bases, "kind": kind, "class_attrs": {}}
        if kind == "bean":
            spec["own"] = [(w, gen.json_value(rng, 3, 2)) for w in written]
            if use_slots:
                slots = list(written)
                if rng.random() < 0.12:
                    slots.append("unset_%d" % i)  # declared, never assigned
                spec["slots"] = slots
            else:
                spec["slots"] = None
        else:
            k = rng.randint(0, len(written))
            spec["params"] = written[:k]
            spec["attrs"] = written[k:]
            spec["method"] = method
            spec["by_dict"] = rng.random() < 0.5
            spec["slots"] = list(written) if use_slots else None
        if kind == "bean" and with_ignore and rng.random() < with_ignore:
            names = [mangled(name, w) for w in written] + ["nothing"]
            spec["class_attrs"][ignore_attr] = rng.sample(names, rng.randint(0, len(names)))
        slotted_all[cid] = fully
        has_layout[cid] = any(has_layout[b] for b in bases) or (use_slots and bool(spec["slots"]))
        specs.append(spec)
    # an enumeration (not derived from a primitive type) and Decimal
    emod = rng.choice(mods)
    members = [("BLUE", 1), ("RED", "r"), ("NIL", None), ("PI", 2.5)]
    if rng.random() < 0.6:
        # values that are not primitives: a list (plain JSON: survives a remote call) and a tuple (JSON turns it into a
        # list, which is not a value of the enumeration any more: outside the domain of the RPC clause)
        members += [("LST", [1, "x"]), ("PAIR", (1, 2))] if rng.random() < 0.7 else [("LST", [2, {"k": None}])]
    if flavours:
        # every flavour of enumeration: one or two more classes per environment (before the two standard entries)
        for j in range(rng.randint(1, 2)):
            specs.append(gen_enum_spec(rng, tag, j, rng.choice(mods)))
        if rng.random() < 0.5:
            members = members + [("AZURE", 1)]  # an alias: Colour.AZURE is Colour.BLUE
    if adversarial and rng.random() < adversarial:
        # an enumeration whose values collide with what else identifies a member (names, aliases, reprs, indices)
        specs.append(gen_adversarial_enum_spec(rng, tag, rng.choice(mods)))
    specs.append({"id": "e_%s" % tag, "module": emod, "name": "Colour%s" % tag.capitalize(), "bases": [], "slots": None,
                  "kind": "enum", "members": members, "class_attrs": {}})
    specs.append(dict(DEC_SPEC))
    return specs


ENUM_FLAVOUR_POOL = ["Flag", "Flag", "Flag", "Enum", "IntEnum", "StrEnum", "IntFlag"]


def gen_enum_spec(rng, tag, j, module):
    """An enumeration of a random flavour: Enum (aliases, auto() values, unhashable values), Flag (auto() or explicit bits, also
    non-contiguous; named combinations; a named empty flag), IntEnum / StrEnum / IntFlag (derived from a primitive type)."""
    flavour = rng.choice(ENUM_FLAVOUR_POOL)
    spec = {"id": "f%d_%s" % (j, tag), "module": module, "name": "%s%d%s" % (flavour, j, tag.capitalize()), "bases": [],
            "slots": None, "kind": "enum", "flavour": flavour, "class_attrs": {}, "auto": []}
    if flavour in ("Flag", "IntFlag"):
        style = rng.choice(["auto", "explicit", "sparse", "mixed"])
        names = ["R", "W", "X", "D"][:rng.randint(1, 4)]
        if style == "auto":
            members = [(n, None) for n in names]
            spec["auto"] = list(names)
        elif style == "explicit":
            members = [(n, 1 << i) for i, n in enumerate(names)]
        elif style == "sparse":
            members = [(n, 1 << (2 * i + 1)) for i, n in enumerate(names)]  # 2, 8, 32, …: bit 0 and others are undefined
        else:
            members = [(names[0], 1)] + [(n, None) for n in names[1:]]
            spec["auto"] = list(names[1:])
        bits = [1 << i for i in range(len(names))] if style != "sparse" else [1 << (2 * i + 1) for i in range(len(names))]
        if len(names) >= 2 and rng.random() < 0.5:
            members.append(("RW", bits[0] | bits[1]))  # a named combination
        if rng.random() < 0.3:
            members.append(("NONE", 0))  # a named empty flag
        if rng.random() < 0.3:
            members.append(("READ", bits[0]))  # an alias of a single flag
    elif flavour == "Enum":
        members = [("A", 1)]
        if rng.random() < 0.6:
            members += [("G", None), ("H", None)]
            spec["auto"] = ["G", "H"]  # auto() after the int 1: 2, 3
        members += [("B", "b"), ("C", None)]
        if rng.random() < 0.6:
            members.append(("A2", 1))  # alias
        if rng.random() < 0.4:
            members.append(("L", [1, {"k": "v"}]))  # unhashable value: found by linear search
        if rng.random() < 0.3:
            members.append(("F", 2.5))
    elif flavour == "IntEnum":
        members = [("ONE", 1), ("TWO", 2)]
        if rng.random() < 0.5:
            members.append(("NEXT", None))  # auto(): 3
            spec["auto"] = ["NEXT"]
        members += [("BIG", 2 ** 40), ("NEG", -3), ("UNO", 1)]
    else:  # StrEnum
        members = [("A", "a"), ("E", ""), ("U", "\u00e9 x"), ("ALIAS", "a")]
        if rng.random() < 0.5:
            members.append(("LOWER", None))  # auto(): the lower-cased name
            spec["auto"] = ["LOWER"]
    spec["members"] = members
    return spec


ADVERSARIAL_PATTERNS = ["swap-names", "alias-names", "reprs", "indices", "containers", "attr-names", "equal-numbers", "mixed"]
ADV_NAME_POOLS = [["LEFT", "RIGHT", "UP", "DOWN", "CENTER"], ["A", "B", "C", "D", "E"], ["ON", "OFF", "AUTO"],
                  ["N0", "N1", "N2", "N3"], ["X", "Y"]]


def gen_adversarial_enum_spec(rng, tag, module, pattern=None):
    """A plain `Enum` (not derived from a primitive type) whose member VALUES collide with the other things a member can be
    identified by: the name of another member (or of an alias of another member, or its own name), the `str` / `repr` of
    another member, the position of another member in the definition order (0- and 1-based, as int and as digits), the name
    of an attribute of the class, numbers that are `==` across types, and containers that hold such things.  The only correct
    reading of the transmitted `[value]` is "the member with this value" — every other reading picks a wrong member here."""
    pattern = pattern or rng.choice(ADVERSARIAL_PATTERNS)
    cname = "Adv%s" % tag.capitalize()
    spec = {"id": "a_%s" % tag, "module": module, "name": cname, "bases": [], "slots": None, "kind": "enum",
            "flavour": "Enum", "class_attrs": {}, "auto": [], "pattern": pattern}
    names = list(rng.choice(ADV_NAME_POOLS))
    k = rng.randint(2, len(names))
    names = names[:k]

    def derangement():
        while True:
            perm = list(range(k))
            rng.shuffle(perm)
            if any(i != j for i, j in enumerate(perm)):
                return perm

    def swap_names():
        perm = derangement()
        return [(n, names[perm[i]]) for i, n in enumerate(names)]

    def alias_names():
        # FIRST = 1, ALIAS = 1 (alias of FIRST); the others are valued with names of aliases / of other members
        ms = [(names[0], 1), ("ALIAS", 1), (names[1], "ALIAS")]
        for i, n in enumerate(names[2:]):
            ms.append((n, [names[0], "ALIAS", names[1]][i % 3]))
        if rng.random() < 0.5:
            ms.append(("SECOND_ALIAS", "ALIAS"))  # an alias of names[1] whose value is the name of the other alias
        return ms

    def reprs():
        ms = [(names[0], 1)]
        shapes = ["%s.%s" % (cname, names[0]), "<%s.%s: 1>" % (cname, names[0]), names[0].lower(), " " + names[0],
                  names[0] + " ", "%s.%s.%s" % (module, cname, names[0]), "1"]
        rng.shuffle(shapes)
        for n, v in zip(names[1:], shapes):
            ms.append((n, v))
        return ms

    def indices():
        style = rng.choice(["zero-based", "one-based", "digits", "negative"])
        perm = derangement()
        if style == "zero-based":
            return [(n, perm[i]) for i, n in enumerate(names)]
        if style == "one-based":
            return [(n, perm[i] + 1) for i, n in enumerate(names)]
        if style == "digits":
            return [(n, str(perm[i] + rng.randint(0, 1))) for i, n in enumerate(names)]
        return [(n, -1 - perm[i]) for i, n in enumerate(names)]

    def containers():
        perm = derangement()
        shapes = [lambda x: [x], lambda x: [[x]], lambda x: {"name": x}, lambda x: (x,), lambda x: [x, x],
                  lambda x: {"value": x, "name": None}, lambda x: [x, 1]]
        ms = [(n, rng.choice(shapes)(names[perm[i]])) for i, n in enumerate(names)]
        if rng.random() < 0.5:
            ms.append(("EMPTY", []))
        if rng.random() < 0.3:
            ms.append(("EMPTYD", {}))
        return ms

    def attr_names():
        pool = ["name", "value", "_value_", "_name_", "__members__", "__class__", "mro", "_member_map_", "__doc__",
                "_value2member_map_", "__name__", "__init__"]
        return [(n, v) for n, v in zip(names, rng.sample(pool, k))]

    def equal_numbers():
        # 1 == True == 1.0 and 0 == False == 0.0: later ones are aliases; strings that spell them are not
        pool = [("I1", 1), ("B1", True), ("F1", 1.0), ("I0", 0), ("B0", False), ("F0", 0.0), ("S1", "1"), ("S0", "0"),
                ("ST", "True"), ("NONE", None), ("SN", "None"), ("SE", ""), ("F2", 2.0), ("I2", 2), ("NEG0", -0.0)]
        rng.shuffle(pool)
        return pool[:rng.randint(3, 8)]

    makers = {"swap-names": swap_names, "alias-names": alias_names, "reprs": reprs, "indices": indices,
              "containers": containers, "attr-names": attr_names, "equal-numbers": equal_numbers}
    if pattern == "mixed":
        members = swap_names()
        seen = set(n for n, _v in members)
        for other in rng.sample(["alias-names", "reprs", "indices", "containers", "attr-names"], 2):
            for n, v in makers[other]():
                if n not in seen:
                    seen.add(n)
                    members.append((n, v))
    else:
        members = makers[pattern]()
    if rng.random() < 0.4:
        members.append(("PLAIN", "nothing"))
    spec["members"] = members
    return spec


def adversarial_member_class(m):
    """Which collision the value of this member stages (for the distribution histogram); computed from the real class."""
    c = type(m)
    v = m.value
    table = c.__members__

    def holds_name(x):
        if isinstance(x, str):
            return x in table
        if isinstance(x, dict):
            return any(holds_name(y) for y in x.values())
        if isinstance(x, (list, tuple)):
            return any(holds_name(y) for y in x)
        return False

    if isinstance(v, str):
        if v in table:
            if table[v] is m:
                return "value-is-own-name"
            canonical = v == table[v].name
            return "value-is-name-of-other-member" if canonical else "value-is-alias-of-other-member"
        if any(v in (str(x), repr(x)) for x in c):
            return "value-is-str-or-repr-of-other-member"
        if v.strip().upper() in table or v.rsplit(".", 1)[-1] in table:
            return "value-is-near-a-name"
        if v.lstrip("-").isdigit():
            return "value-is-digits"
        if v and hasattr(c, v):
            return "value-is-attribute-name"
        return "plain-string"
    if type(v) is int:
        order = list(c)
        n = len(order)
        if -n <= v <= n:
            return "value-is-index-of-other-member"
        return "plain-int"
    if isinstance(v, (bool, float)) or v is None:
        return "number-or-none"
    if isinstance(v, (list, tuple, dict)):
        return "container-holding-a-name" if holds_name(v) else "container"
    return "other"


def _written_names(specs, cid):
    by = dict((s["id"], s) for s in specs)
    s = by[cid]
    out = set(w for w, _v in s.get("own", [])) | set(s.get("params", [])) | set(s.get("attrs", []))
    if s["slots"]:
        out.update(s["slots"])
    for b in s["bases"]:
        out.update(_written_names(specs, b))
    return out


def _related(specs, a, b):
    by = dict((s["id"], s) for s in specs)

    def anc(x):
        r = {x}
        for p in by[x]["bases"]:
            r |= anc(p)
        return r

    return a in anc(b) or b in anc(a)


DECIMALS = ["0", "1.10", "-12.5", "3.20", "100", "-0", "0.001", "123456789012345678901234567890.5",
            # special values and the other notations `str` of a Decimal can produce
            "Infinity", "-Infinity", "NaN", "-NaN", "sNaN", "NaN123", "-sNaN7", "-0.00", "0.000001", "1E-7", "0E-10",
            "0E+3", "-0E+2", "1E+100", "-1.5E-7", "9.99E+384", "1E-100", "1.0E+2", "1.234567E+30"]


def decimal_class(d):
    """Which kind of Decimal (for the distribution histogram)."""
    if d.is_snan():
        return "snan"
    if d.is_nan():
        return "nan"
    if d.is_infinite():
        return "infinity"
    if d.is_zero():
        return "zero-neg" if d.is_signed() else "zero"
    return "finite-sci" if "E" in str(d) else "finite-plain"


def enum_member_class(m):
    """Which kind of enumeration member (for the distribution histogram)."""
    c = type(m)
    if isinstance(m, enum.Flag):
        if m.value == 0:
            return "empty"
        if m.name is not None and "|" not in m.name:
            return "named-combination" if bin(m.value).count("1") > 1 else "single"
        return "combination"
    return "member"


class ValueGen(object):
    """Random values with instances of an Env at random positions."""

    def __init__(self, rng, gen, env):
        self.rng = rng
        self.gen = gen
        self.env = env
        self.in_domain = True  # cleared when something outside C07's domain is generated

    def plain(self, depth=2):
        return self.gen.json_value(self.rng, 3, depth)

    def serial_arg(self):
        """A constructor argument of a class with a serialisation method: plain JSON mostly; now and then a tuple, a
        set or a Decimal — returned as it is by the method (dump does not convert what the method returns), so it
        survives load(dump()) but not the JSON encoding of a remote call (`plain_json_args`)."""
        r = self.rng.random()
        if r < 0.88:
            return self.plain()
        if r < 0.93:
            return (self.gen.json_scalar(self.rng), self.gen.json_scalar(self.rng))
        if r < 0.97:
            return set([self.rng.randint(0, 5), "s"])
        return decimal.Decimal(self.rng.choice(DECIMALS))

    def hashable(self, depth):
        r = self.rng.random()
        if depth <= 0 or r < 0.7:
            return self.gen.json_scalar(self.rng)
        if r < 0.85:
            return tuple(self.hashable(depth - 1) for _ in range(self.rng.randint(0, 2)))
        return frozenset(self.hashable(depth - 1) for _ in range(self.rng.randint(0, 2)))

    def value(self, depth, allow_obj=True, obj_top=True):
        """A supported value; instances only below containers unless obj_top."""
        rng = self.rng
        r = rng.random()
        if depth <= 0 or r < 0.3:
            return self.gen.json_scalar(rng)
        if allow_obj and obj_top and r < 0.5:
            return self.instance(depth - 1)
        n = rng.randint(0, 3)
        if r < 0.65:
            return [self.value(depth - 1, allow_obj) for _ in range(n)]
        if r < 0.75:
            return tuple(self.value(depth - 1, allow_obj) for _ in range(n))
        if r < 0.9:
            d = {}
            for _ in range(n):
                k = rng.choice(self.gen.KEYS[:6]) if rng.random() < 0.8 else self.hashable(1)
                if k == "__jsonclass__":
                    continue
                d[k] = self.value(depth - 1, allow_obj)
            return d
        if r < 0.95:
            return set(self.hashable(1) for _ in range(n))
        return frozenset(self.hashable(1) for _ in range(n))

    def enum_member(self, cid):
        """A member by one of its names (aliases included); for a Flag also a combination of members or the empty flag."""
        rng = self.rng
        s = self.env.by_id[cid]
        c = self.env.cls[cid]
        names = [m for m, _v in s["members"]]
        if s.get("flavour") in ("Flag", "IntFlag") and rng.random() < 0.5:
            m = c(0)
            for n in rng.sample(names, rng.randint(0, len(names))):
                m = m | c[n]
            return m
        return c[rng.choice(names)]

    def instance(self, depth, cid=None):
        rng = self.rng
        env = self.env
        if cid is None:
            # an adversarial enumeration (spec key "pattern") is drawn three times as often as another class
            cid = rng.choice([s["id"] for s in env.specs for _ in range(3 if s.get("pattern") else 1)])
        s = env.by_id[cid]
        c = env.cls[cid]
        if s["kind"] == "decimal":
            return decimal.Decimal(rng.choice(DECIMALS))
        if s["kind"] == "enum":
            return self.enum_member(cid)
        if s["kind"] == "serial":
            inst = c(*[self.serial_arg() for _ in s["params"]])
            for a in s["attrs"]:
                if rng.random() < 0.93:
                    setattr(inst, a, self.plain())
                else:
                    self.in_domain = False  # attribute missing: the serialisation method raises
            return inst
        inst = c()
        for n, _v in env.stored(inst):
            if rng.random() < 0.7:
                if rng.random() < 0.06:
                    self.in_domain = False  # an instance directly as a field value is not a supported value
                    setattr(inst, n, self.instance(0))
                else:
                    setattr(inst, n, self.value(depth, True, obj_top=False))
        if any(x.startswith("unset_") for x in env.slot_names(cid)):
            self.in_domain = False  # a declared slot that was never assigned
        if hasattr(inst, "__dict__") and rng.random() < 0.2:
            setattr(inst, "extra_%d" % rng.randint(0, 2), self.value(depth, True, obj_top=False))
        return inst


# ---- the local class table (Config.classes, a config.LocalClasses) as a program builds it ----------------------------------
#
# A registry program is a list of statements on one LocalClasses object:
#   ["add", ref, name | None]   classes.add(cls, name)          ["set", key, ref]   classes[key] = cls
#   ["del", key]                classes.pop(key, None)          ["clear"]           classes.clear()
# `ref` is a class id of the environment or `<class id>~stale` (Env.ref).

STALE = Env.STALE


def _base_id(ref):
    return ref[:-len(STALE)] if ref.endswith(STALE) else ref


def registry_program(rng, env, targets, plain=False):
    """Registers every class of `targets` under its own name — plainly (one `add` each), or the way a long-running program
    does: a stale definition or another class registered under the name first, registrations removed and made again, aliases,
    an emptied table, explicit / empty / omitted names, direct stores.  Now and then the current class ends up displaced."""
    ops = []
    if plain:
        for cid in targets:
            ops.append(["add", cid, None if rng.random() < 0.5 else env.by_id[cid]["name"]])
        return ops
    order = list(targets)
    rng.shuffle(order)
    if order and rng.random() < 0.15:
        ops.append(["add", order[0] + STALE, None])
        ops.append(["clear"])
    for k, cid in enumerate(order):
        name = env.by_id[cid]["name"]
        r = rng.random()
        if r < 0.4:
            ops.append(rng.choice([["add", cid + STALE, None], ["add", cid + STALE, name], ["set", name, cid + STALE]]))
        elif r < 0.5 and len(order) > 1:
            ops.append(["add", rng.choice([c for c in order if c != cid]), name])
        elif r < 0.6:
            ops.append(["add", cid, None])
            ops.append(["del", name])
        elif r < 0.65:
            ops.append(["del", name])
        ops.append(rng.choice([["add", cid, None], ["add", cid, None], ["add", cid, name], ["add", cid, ""], ["set", name, cid]]))
        if rng.random() < 0.2:
            alias = "Alias%d" % k
            ops.append(["add", rng.choice([cid, cid + STALE]), alias])
            if rng.random() < 0.5:
                ops.append(["del", alias])
    if order and rng.random() < 0.06:
        ops.append(["add", rng.choice(order) + STALE, None])
    return ops


def registry_expected(env, ops):
    """name -> ref after the program, from what the statements mean: a registration binds the name to the class it is given
    (the last one under a name is the one in force), a removal unbinds it."""
    tab = {}
    for op in ops:
        if op[0] == "add":
            tab[op[2] or env.by_id[_base_id(op[1])]["name"]] = op[1]
        elif op[0] == "set":
            tab[op[1]] = op[2]
        elif op[0] == "del":
            tab.pop(op[1], None)
        else:
            tab.clear()
    return tab


def registry_apply(env, classes, ops):
    """Runs the program on a real LocalClasses object."""
    for op in ops:
        if op[0] == "add":
            classes.add(env.ref(op[1]), op[2])
        elif op[0] == "set":
            classes[op[1]] = env.ref(op[2])
        elif op[0] == "del":
            classes.pop(op[1], None)
        else:
            classes.clear()
    return classes


def registry_view(env, classes):
    """[[name, ref]] of a real class table, in dict order."""
    return [[n, env.ref_of(c) or ("?" + getattr(c, "__name__", repr(c)))] for n, c in classes.items()]


def registry_lean(env, ops):
    """The program as the argument of the driver component `jcregistry`."""
    out = []
    for op in ops:
        if op[0] == "add":
            out.append(["add", op[1], env.by_id[_base_id(op[1])]["name"], op[2]])
        else:
            out.append(list(op))
    return out


def registry_displaced(env, ops, targets):
    """The classes of `targets` that are not the ones in force under their name after the program."""
    exp = registry_expected(env, ops)
    return [cid for cid in targets if exp.get(env.by_id[cid]["name"]) != cid]


def normalise(v, env):
    """Expected value after a round trip: tuples/sets/frozensets become lists; instances keep class and fields."""
    if isinstance(v, (list, tuple)):
        return [normalise(x, env) for x in v]
    if isinstance(v, (set, frozenset)):
        return sorted((normalise(x, env) for x in v), key=lambda x: env.enc(x, canon=True))
    if isinstance(v, dict):
        return dict((k, normalise(x, env)) for k, x in v.items())
    return v


def same(a, b, env, path="value"):
    """
    Type identity and field-wise equality up to container normalisation (a = expected original, b = reloaded).
    Returns None or a description of the first difference.  Written from the property statement.
    """
    if isinstance(a, (list, tuple)):
        # "up to tuples and sets becoming lists": a list, or (for a value handed over as it is, e.g. a constructor
        # argument returned by a serialisation method and never JSON-encoded) still the same kind of container
        if type(b) not in (list, type(a)) or len(a) != len(b):
            return "%s: expected a list of %d items, got %r" % (path, len(a), b)
        for i, (x, y) in enumerate(zip(a, b)):
            r = same(x, y, env, "%s[%d]" % (path, i))
            if r:
                return r
        return None
    if isinstance(a, (set, frozenset)):
        if type(b) not in (list, type(a)) or len(a) != len(b):
            return "%s: expected a list of %d items, got %r" % (path, len(a), b)
        rest = list(b)
        for x in a:
            for i, y in enumerate(rest):
                if same(x, y, env, path) is None:
                    del rest[i]
                    break
            else:
                return "%s: member %r of %r has no counterpart in %r" % (path, x, a, b)
        return None
    if isinstance(a, dict):
        if type(b) is not dict or set(map(_k, a)) != set(map(_k, b)):
            return "%s: expected a dict with keys %r, got %r" % (path, list(a), b)
        bk = dict((_k(k), k) for k in b)
        for k in a:
            r = same(a[k], b[bk[_k(k)]], env, "%s[%r]" % (path, k))
            if r:
                return r
        return None
    if type(a) in env.ids or type(a) is decimal.Decimal:
        base = env.prim_base(a)
        if base is not None:
            # a member of an enumeration derived from a primitive type is "transmitted as that primitive": the member
            # itself (nothing re-built it), or the plain int / str with its value
            if b is a or (type(b) is base and b == a.value):
                return None
            return "%s: expected %r or the %s %r, got %r (%s)" % (path, a, base.__name__, a.value, b, type(b).__name__)
        if type(b) is not type(a):
            return "%s: expected an instance of %s, got %r" % (path, type(a).__name__, b)
        if isinstance(a, (enum.Enum, decimal.Decimal)):
            return None if (a is b or (type(a) is decimal.Decimal and str(a) == str(b))) else \
                "%s: expected %r, got %r" % (path, a, b)
        fa = dict(env.stored(a))
        fb = dict(env.stored(b))
        if set(fa) != set(fb):
            return "%s: fields %r became %r" % (path, sorted(fa), sorted(fb))
        for k in fa:
            r = same(fa[k], fb[k], env, "%s.%s" % (path, k))
            if r:
                return r
        return None
    if type(a) is not type(b) or a != b or (type(a) is float and repr(a) != repr(b)):
        return "%s: expected %r (%s), got %r (%s)" % (path, a, type(a).__name__, b, type(b).__name__)
    return None


def plain_json(v):
    """None/bool/int/float/str, lists and string-keyed dicts of those: what JSON carries unchanged."""
    if v is None or type(v) in (bool, int, float, str):
        return True
    if type(v) is list:
        return all(plain_json(x) for x in v)
    if type(v) is dict:
        return all(type(k) is str and plain_json(x) for k, x in v.items())
    return False


def plain_json_args(v, env, seen=None):
    """The declared restriction of C07's remote-call clause: every enum member reached has a plain JSON value and every
    object with a serialisation method has plain JSON constructor arguments and attributes (dump emits what the method
    returns, and the enum value, as they are — JSON then turns a tuple into a list and refuses a set or a Decimal)."""
    if isinstance(v, dict):
        return all(plain_json_args(x, env) for x in v.values())
    if isinstance(v, (list, tuple, set, frozenset)):
        return all(plain_json_args(x, env) for x in v)
    if isinstance(v, enum.Enum):
        return plain_json(v.value)
    cid = env.ids.get(type(v))
    if cid is None or type(v) is decimal.Decimal:
        return True
    kind = env.by_id[cid]["kind"]
    if kind == "serial":
        return all(plain_json(x) for _n, x in env.stored(v))
    if kind == "bean":
        return all(plain_json_args(x, env) for _n, x in env.stored(v))
    return True


def specs_enc(specs):
    """Class specs as a value of the codec (tuples kept exactly), for replay files."""
    out = []
    for s in specs:
        if s.get("external"):
            continue
        d = {}
        for k, x in s.items():
            if k in ("own", "members"):
                d[k] = [[n, v] for n, v in x]
            else:
                d[k] = x
        out.append(d)
    return pyval.enc(out)


def specs_dec(text):
    specs = pyval.from_tree(pyval.parse(text))
    for s in specs:
        for key in ("own", "members"):
            if key in s:
                s[key] = [tuple(x) for x in s[key]]
    return specs


def _k(k):
    try:
        return pyval.enc(k, canon=True)
    except pyval.Unencodable:
        return (type(k).__name__, repr(k))
