"""
Histories on ONE `Config` object (C20): dump, then change the configuration (register / replace / remove serialisation handlers,
empty or replace the table, store another serialize_method / ignore_attribute, switch use_jsonclass, touch Config.classes),
dump again — `jsonclass.dump` is a function of the configuration *at the time of the call*.

Model    : lean/JRV/Model/ConfigHistory.lean (component `cfghistory`): every statement of the history against the real object.
Monitors : (1) the monitor of the C20 statement (props.c20.Monitor) on every dump of the history, with the configuration as it is
           at that moment; (2) from "a handler registered in Config.serialize_handlers … is used / the names configured in Config
           are the ones consulted": every dump of the history equals the dump of the same value by a FRESH Config object built
           with the settings the object has at that moment (it was never used before: nothing can have been remembered).
Paths    : long-lived clients and servers constructed with the object (`path_histories`): the object is changed between two
           requests of the same ServerProxy / dispatcher / CGI handler / socket server.

A statement is a list:
    ["seth", tag, handler id | None]   ["delh", tag]   ["clearh"]   ["replh", [[tag, handler id | None]…]]
    ["setm", name]   ["seti", name]   ["setj", flag]   ["addc", name, class id]   ["delc", name]   ["clearc"]
    ["dump", sm, ia, ig, value index]   ["rpcdump", value index]
"""
import copy
import json

import impl
import jcenv
import pyval

import jsonrpclib.jsonclass as JC


def _c20():
    import props.c20 as c20
    return c20


STORE_KINDS = ["seth", "seth", "seth", "seth", "delh", "clearh", "replh", "setm", "seti", "setj", "classes"]


def gen_history(rng, gen, env, cfg_names, clean):
    """-> {"names": initial names, "handlers": initial table, "use_jsonclass": True, "values": [python values], "ops": [...]}
    The first statement is a dump (the object has been *used* before anything is changed); the stores between two dumps favour
    the types that occur in the next value, so that a stale table, a stale types tuple or a stale name shows."""
    c20 = _c20()
    n_dumps = rng.randint(2, 4)
    uniq = []
    gens = []
    index = []
    for k in range(n_dumps):
        if uniq and rng.random() < 0.6:
            index.append(rng.randrange(len(uniq)))  # the same object again: only the configuration changed
            continue
        vg = c20.ValueGen20(rng, gen, env, cfg_names[1], clean)
        top = rng.random()
        if top < 0.55:
            v = vg.instance(2)
        elif top < 0.8:
            v = vg.value(3)
        else:
            v = [vg.instance(2), {"k": vg.instance(1)}, (vg.instance(1),)]
        uniq.append(v)
        gens.append(vg)
        index.append(len(uniq) - 1)
    hist = {"names": list(cfg_names), "use_jsonclass": True, "values": uniq, "ops": []}
    present0 = c20.types_present(env, uniq[0])
    hist["handlers"] = [] if rng.random() < 0.55 else [[t, h] for t, h in c20.handler_table(rng, env, clean, present0)]
    table = dict((t, h) for t, h in hist["handlers"])
    names = list(cfg_names)
    ops = []

    def dump_op(i):
        if rng.random() < 0.2:
            return ["rpcdump", i]
        sm = rng.choice(["", "_serialize", "to_json", "dump_me", "other_m"]) if rng.random() < 0.15 else None
        ia = rng.choice(["", "_ignore", "_skip", "hidden_"]) if rng.random() < 0.15 else None
        ig = None
        if rng.random() < 0.3:
            pool = jcenv.PUBLIC + jcenv.PROTECTED + ["extra_0", 1, None, True, "", (1, 2)]
            ig = rng.sample(pool, rng.randint(0, 3))
        return ["dump", sm, ia, ig, i]

    for k, i in enumerate(index):
        ops.append(dump_op(i))
        if k == len(index) - 1:
            break
        nxt = uniq[index[k + 1]]
        present = c20.types_present(env, nxt)
        inner = present[1:] or present
        for _ in range(rng.randint(1, 3)):
            kind = rng.choice(STORE_KINDS)
            if kind == "seth":
                # a type held in a field / an item of the next value, mostly; its base classes; any built-in type
                bases = [b for t in inner if t in env.by_id for b in env.by_id[t]["bases"]]
                pool = rng.choice([inner, inner, inner, bases or inner, list(table) or inner,
                                   ["tuple", "str", "int", "list", "dict", "bool", "float", "NoneType", "set", "frozenset"]])
                t = rng.choice(pool)
                if t == "object" or t == "bytes":
                    continue
                h = rng.choice([0, 1, 1, 1, 3, 4, 5, 6, 7, 8, None] + ([] if clean else [2]))
                if h is None and not c20.EXOTIC_STATELESS.get(t, True):
                    h = 0
                ops.append(["seth", t, h])
                table[t] = h
            elif kind == "delh":
                if not table:
                    continue
                t = rng.choice(sorted(table))
                ops.append(["delh", t])
                table.pop(t)
            elif kind == "clearh":
                ops.append(["clearh"])
                table.clear()
            elif kind == "replh":
                new = [[t, h] for t, h in c20.handler_table(rng, env, clean, inner) if t != "bytes"]
                ops.append(["replh", new])
                table = dict((t, h) for t, h in new)
            elif kind == "setm":
                names[0] = rng.choice([n for n in c20.METHOD_NAMES + ["_serialize"] if n != names[0]])
                ops.append(["setm", names[0]])
            elif kind == "seti":
                names[1] = rng.choice([n for n in c20.IGNORE_NAMES + ["_ignore"] if n != names[1]])
                ops.append(["seti", names[1]])
            elif kind == "setj":
                ops.append(["setj", rng.random() < 0.5])
            else:
                user = [s for s in env.specs if not s.get("external") and s["kind"] != "decimal"]
                r = rng.random()
                if r < 0.6 and user:
                    s = rng.choice(user)
                    ops.append(["addc", s["name"], s["id"]])
                elif r < 0.8 and user:
                    ops.append(["delc", rng.choice(user)["name"]])
                else:
                    ops.append(["clearc"])
    hist["ops"] = ops
    hist["flags"] = {"raising": any(h == 2 for op in ops if op[0] == "seth" for h in [op[2]]) or
                     any(h == 2 for _t, h in hist["handlers"]) or
                     any(h == 2 for op in ops if op[0] == "replh" for _t, h in op[1]),
                     "hostile": any(vg.hostile for vg in gens), "snan": any(vg.snan for vg in gens)}
    return hist


def _install(cfg, env, table, hf):
    c20 = _c20()
    for t, h in table:
        cfg.serialize_handlers[c20.py_type(env, t)] = None if h is None else hf[h]


def fresh_config(cfg):
    """A Config object that has never been used, with the settings `cfg` has now."""
    C = impl.jsonrpclib.config.Config
    fresh = C(version=cfg.version, content_type=cfg.content_type, user_agent=cfg.user_agent, use_jsonclass=cfg.use_jsonclass,
              serialize_method=cfg.serialize_method, ignore_attribute=cfg.ignore_attribute)
    for t, h in cfg.serialize_handlers.items():
        fresh.serialize_handlers[t] = h
    for n, c in cfg.classes.items():
        fresh.classes[n] = c
    return fresh


def _do_dump(op, values, cfg):
    J = impl.jsonrpclib.jsonrpc
    if op[0] == "dump":
        _k, sm, ia, ig, i = op
        return impl.outcome(JC.dump, values[i], sm, ia, copy.deepcopy(ig) if ig is not None else None, cfg)
    return impl.outcome(lambda: J.dump(values[op[1]], rpcid=1, is_response=True, config=cfg)["result"])


def _canon(env, k, d):
    try:
        return impl.canon_outcome(k, d, env.hook, keep_arg=())
    except pyval.Unencodable:
        return None


def run_history(env, hist):
    """Runs the statements on one real Config object.
    -> [(statement index, kind, output, canonical outcome | None, monitor hits [(key, detail)], positions)] for the dumps"""
    c20 = _c20()
    C = impl.jsonrpclib.config.Config
    cfg = C(serialize_method=hist["names"][0], ignore_attribute=hist["names"][1], use_jsonclass=hist["use_jsonclass"])
    hf = jcenv.handler_functions(env)
    _install(cfg, env, hist["handlers"], hf)
    values = hist["values"]
    out = []
    for n, op in enumerate(hist["ops"]):
        kind = op[0]
        if kind == "seth":
            cfg.serialize_handlers[c20.py_type(env, op[1])] = None if op[2] is None else hf[op[2]]
        elif kind == "delh":
            cfg.serialize_handlers.pop(c20.py_type(env, op[1]), None)
        elif kind == "clearh":
            cfg.serialize_handlers.clear()
        elif kind == "replh":
            cfg.serialize_handlers = {}
            _install(cfg, env, op[1], hf)
        elif kind == "setm":
            cfg.serialize_method = op[1]
        elif kind == "seti":
            cfg.ignore_attribute = op[1]
        elif kind == "setj":
            cfg.use_jsonclass = op[1]
        elif kind == "addc":
            cfg.classes.add(env.cls[op[2]], op[1])
        elif kind == "delc":
            cfg.classes.pop(op[1], None)
        elif kind == "clearc":
            cfg.classes.clear()
        else:
            v = values[op[-1]]
            k, d = _do_dump(op, values, cfg)
            hits = []
            positions = set()
            translated = kind == "dump" or cfg.use_jsonclass
            if k == "ok" and translated:
                sm, ia, ig = (op[1], op[2], op[3]) if kind == "dump" else (None, None, None)
                mon = c20.Monitor(env, cfg, sm, ia, ig)
                try:
                    mon.check(v, d)
                except Exception as ex:  # noqa: BLE001  (a monitor bug must not pass silently)
                    mon.hit("monitor-error", "value", "%s: %s" % (type(ex).__name__, ex))
                hits = [(key + "@history", "statement %d of the history (%s): %s" % (n, describe_ops(hist["ops"][:n + 1]), det))
                        for key, det in mon.hits]
                positions = mon.positions
            elif k == "ok" and d is not v:
                hits.append(("disabled-translation-changed-value@history",
                             "statement %d: use_jsonclass is off, yet jsonrpc.dump changed the value into %r" % (n, d)))
            # the same call with a configuration object that has never been used
            k2, d2 = _do_dump(op, values, fresh_config(cfg))
            c1, c2 = _canon(env, k, d), _canon(env, k2, d2)
            if k != k2 or (c1 is not None and c2 is not None and c1 != c2) or (k == "err" and type(d) is not type(d2)):
                hits.append(("history-dependent", "statement %d of the history (%s): the dump by the long-lived Config gives %s, the "
                             "dump by a fresh Config with the same settings (serialize_method=%r, ignore_attribute=%r, use_jsonclass=%r, "
                             "handlers for %s) gives %s"
                             % (n, describe_ops(hist["ops"][:n + 1]), _show(k, d), cfg.serialize_method, cfg.ignore_attribute,
                                cfg.use_jsonclass, sorted(getattr(t, "__name__", str(t)) for t in cfg.serialize_handlers), _show(k2, d2))))
            out.append((n, k, d, c1, hits, positions))
    return out


def _show(k, d):
    return ("%r" % (d,))[:300] if k == "ok" else "%s: %s" % (type(d).__name__, str(d)[:120])


def describe_ops(ops):
    out = []
    for op in ops:
        if op[0] in ("dump", "rpcdump"):
            out.append("%s(#%d)" % (op[0], op[-1]))
        elif op[0] == "replh":
            out.append("replh%s" % json.dumps(op[1]))
        else:
            out.append("%s(%s)" % (op[0], ",".join(str(x) for x in op[1:])))
    return "; ".join(out)[-400:]


def lean_line(env, hist, lean_env):
    ops = []
    for op in hist["ops"]:
        if op[0] == "dump":
            ops.append(["dump", op[1], op[2], op[3], _Raw(env.enc(hist["values"][op[4]]))])
        elif op[0] == "rpcdump":
            ops.append(["rpcdump", _Raw(env.enc(hist["values"][op[1]]))])
        else:
            ops.append(list(op))
    cfg = jcenv.lean_cfg(hist["names"][0], hist["names"][1], [(t, h) for t, h in hist["handlers"]])
    return "cfghistory %s %s %s %s" % (pyval.enc(cfg), pyval.enc(bool(hist["use_jsonclass"])), lean_env, _enc_ops(ops))


class _Raw(object):
    def __init__(self, text):
        self.text = text


def _enc_ops(ops):
    parts = ["L%d" % len(ops)]
    for op in ops:
        parts.append("L%d" % len(op))
        for x in op:
            parts.append(x.text if isinstance(x, _Raw) else pyval.enc(x))
    return " ".join(parts)


def history_kind(hist):
    """Coarse class of a history for the distribution histogram: what changed before the last dump."""
    kinds = sorted(set(op[0] for op in hist["ops"] if op[0] not in ("dump", "rpcdump")))
    return "+".join(kinds) or "none"


def case_of(env, hist, specs_plain):
    return {"side": "history", "names": hist["names"], "handlers": hist["handlers"], "use_jsonclass": hist["use_jsonclass"],
            "ops": json.loads(json.dumps(hist["ops"], default=list)),
            "ops_enc": pyval.enc([[x if not isinstance(x, tuple) else x for x in op] for op in hist["ops"]]),
            "values_enc": [env.enc(v) for v in hist["values"]], "values": [repr(v)[:200] for v in hist["values"]],
            "specs_enc": pyval.enc(specs_plain)}
