"""
TEXT-level spellings of a JSON document (C08): the same decoded payload, written the many ways RFC 8259 allows.

A JSON-RPC peer is free to spell a member name or a string value with `\\uXXXX` escapes (every character, some characters, one
character; upper- or lower-case hex digits), astral characters as surrogate pairs or raw, the solidus as `\\/`, control characters
with the short escapes or with `\\u00XX`, non-ASCII characters raw or escaped, any amount of the four white-space characters between
tokens, and to repeat a member name in an object (the decoder keeps the last one).  What a receiver does must depend on the decoded
payload only.

    spell(rng, value, style) -> text         json.loads(text) is the payload the text denotes (== value unless style duplicates keys)

STYLES lists the styles; "plain" is json.dumps.  The speller never guesses what the decoder does: callers take
`json.loads(text)` as the payload and compare it with the intended value (`same_payload`) for every style that is not meant to
change it.
"""
import json

JC = "__jsonclass__"

STYLES = ["plain", "escape-all", "escape-partial", "escape-jsonclass-key-one", "escape-jsonclass-key-all", "escape-keys",
          "escape-class-names", "solidus-and-short-escapes", "whitespace", "raw-unicode", "duplicate-keys", "mixed", "compact"]

SHORT = {'"': '\\"', "\\": "\\\\", "/": "\\/", "\b": "\\b", "\f": "\\f", "\n": "\\n", "\r": "\\r", "\t": "\\t"}
WS = [" ", "\t", "\n", "\r", "  ", " \n ", "\r\n"]


def _hex4(rng, n):
    h = "%04x" % n
    r = rng.random()
    if r < 0.4:
        return h
    if r < 0.7:
        return h.upper()
    return "".join(c.upper() if rng.random() < 0.5 else c for c in h)


def _u(rng, cp):
    if cp >= 0x10000:
        cp -= 0x10000
        return "\\u" + _hex4(rng, 0xD800 + (cp >> 10)) + "\\u" + _hex4(rng, 0xDC00 + (cp & 0x3FF))
    return "\\u" + _hex4(rng, cp)


class Raw(object):
    """A piece of JSON text to be emitted as it is (an already spelt sub-document inside an envelope)."""

    def __init__(self, text):
        self.text = text


class Speller(object):
    def __init__(self, rng, style):
        self.rng = rng
        self.style = style
        self.changed_payload = False  # a duplicated key whose last occurrence is not the original value

    # ---- strings -----------------------------------------------------------------------------------------------
    def string(self, s, mode, p=0.3, one_at=None):
        """The literal of s.  mode: "none" (only what must be escaped), "all", "partial" (each character with probability p),
        "one" (exactly the character at index one_at), "short" (short escapes wherever one exists, solidus included)."""
        rng = self.rng
        raw_unicode = self.style in ("raw-unicode", "whitespace") or (self.style == "mixed" and rng.random() < 0.5)
        out = ['"']
        for i, ch in enumerate(s):
            cp = ord(ch)
            must = cp < 0x20 or ch in '"\\' or 0xD800 <= cp <= 0xDFFF or (cp > 0x7e and not raw_unicode)
            esc = must or mode == "all" or (mode == "partial" and rng.random() < p) or (mode == "one" and i == one_at) or \
                (mode == "short" and ch in SHORT)
            if not esc:
                out.append(ch)
            elif ch in SHORT and (mode == "short" or rng.random() < 0.5) and not (mode in ("all", "one") and ch == "/"):
                out.append(SHORT[ch])
            else:
                out.append(_u(rng, cp))
        out.append('"')
        return "".join(out)

    def key(self, k):
        st = self.style
        rng = self.rng
        if st == "escape-all":
            return self.string(k, "all")
        if st in ("escape-partial", "escape-keys"):
            return self.string(k, "partial", 0.4)
        if st == "escape-jsonclass-key-one":
            return self.string(k, "one", one_at=rng.randrange(len(k))) if k == JC else self.string(k, "none")
        if st == "escape-jsonclass-key-all":
            return self.string(k, "all") if k == JC else self.string(k, "none")
        if st == "solidus-and-short-escapes":
            return self.string(k, "short")
        if st == "mixed":
            r = rng.random()
            if k == JC and r < 0.5:
                return self.string(k, "one", one_at=rng.randrange(len(k)))
            return self.string(k, rng.choice(["none", "all", "partial", "short"]), 0.3)
        if st == "duplicate-keys":
            return self.string(k, rng.choice(["none", "partial", "none"]), 0.3)
        return self.string(k, "none")

    def value_string(self, s, in_descriptor):
        st = self.style
        rng = self.rng
        if st == "escape-all":
            return self.string(s, "all")
        if st == "escape-partial":
            return self.string(s, "partial", 0.3)
        if st == "escape-class-names":
            return self.string(s, "partial", 0.5) if in_descriptor else self.string(s, "none")
        if st == "solidus-and-short-escapes":
            return self.string(s, "short")
        if st == "mixed":
            return self.string(s, rng.choice(["none", "all", "partial", "short"]), 0.3)
        return self.string(s, "none")

    # ---- documents ---------------------------------------------------------------------------------------------
    def ws(self):
        st = self.style
        if st == "whitespace" or (st == "mixed" and self.rng.random() < 0.4):
            return self.rng.choice(WS)
        if st in ("plain", "compact"):
            return ""  # "compact": the shortest text of the payload, no white space at all
        return "" if self.rng.random() < 0.8 else " "

    def decoy(self, k, v):
        """Another value for a repeated member name."""
        rng = self.rng
        if k == JC:
            return rng.choice([["jrv_canary_mod.Nope", []], ["nosuchmod_jrv.Cls", []], ["bad name!", []], ["", {}], 42, None, "x",
                               ["jrv_canary_mod.Nope x", {}]])
        return rng.choice([None, 0, "decoy", [], {JC: ["jrv_canary_mod.Nope", []]}, {JC: ["bad name!", []]}, {"k": 1}])

    def value(self, v, in_descriptor=False):
        rng = self.rng
        if isinstance(v, Raw):
            return v.text
        if isinstance(v, str):
            return self.value_string(v, in_descriptor)
        if isinstance(v, (list, tuple)):
            return "[" + self.ws() + ("," + self.ws()).join(self.value(x, in_descriptor) + self.ws() for x in v) + "]"
        if isinstance(v, dict):
            members = []
            for k, x in v.items():
                members.append((k, x, k == JC))
            if self.style in ("duplicate-keys", "mixed") and members and rng.random() < (0.7 if self.style == "duplicate-keys" else 0.15):
                i = rng.randrange(len(members))
                k, x, d = members[i]
                dec = self.decoy(k, x)
                if rng.random() < 0.7:
                    members.insert(rng.randint(0, i), (k, dec, d))  # the decoy first: the original value wins
                else:
                    members.insert(rng.randint(i + 1, len(members)), (k, dec, d))  # the decoy last: it wins
                    self.changed_payload = True
            parts = []
            for k, x, d in members:
                parts.append(self.key(k) + self.ws() + ":" + self.ws() + self.value(x, d or in_descriptor) + self.ws())
            return "{" + self.ws() + ("," + self.ws()).join(parts) + "}"
        return json.dumps(v)

    def document(self, v):
        if self.style == "plain" and not _has_raw(v):
            return json.dumps(v)
        return self.ws() + self.value(v) + self.ws()


def spell(rng, value, style):
    """-> (text, whether a duplicated member deliberately changed the payload)"""
    sp = Speller(rng, style)
    text = sp.document(value)
    return text, sp.changed_payload


def _has_raw(v):
    if isinstance(v, Raw):
        return True
    if isinstance(v, dict):
        return any(_has_raw(x) for x in v.values())
    if isinstance(v, (list, tuple)):
        return any(_has_raw(x) for x in v)
    return False


ENVELOPE_STYLE = {"duplicate-keys": "escape-partial", "mixed": "escape-partial"}


def spell_in_envelope(rng, style, payload, envelope_of):
    """The payload spelt in `style`, inside the envelope `envelope_of(Raw)` (a request / reply document) spelt in the same style
    — except that member names of the ENVELOPE are never duplicated (its "id" / "result" / "method" stay what they are).
    -> (text of the whole document, text of the payload alone, whether a duplicated member changed the payload)"""
    if style == "plain":
        return json.dumps(envelope_of(payload)), json.dumps(payload), False
    ptext, changed = spell(rng, payload, style)
    text, _ = spell(rng, envelope_of(Raw(ptext)), ENVELOPE_STYLE.get(style, style))
    return text, ptext, changed


def has_key(v, key=JC):
    if isinstance(v, dict):
        return key in v or any(has_key(x, key) for x in v.values())
    if isinstance(v, (list, tuple)):
        return any(has_key(x, key) for x in v)
    return False


def text_class(text, payload):
    """How the text relates to its payload, for the distribution histogram: is the member name `__jsonclass__` of the payload
    visible in the raw text?"""
    if not has_key(payload):
        return "no-jsonclass-member"
    n_raw = text.count('"' + JC + '"')
    return "jsonclass-member-spelt-literally" if n_raw else "jsonclass-member-only-escaped"


def same_payload(a, b):
    """Same JSON value (member order apart), with the same types at every level."""
    if type(a) is not type(b):
        return False
    if isinstance(a, dict):
        return set(a) == set(b) and all(same_payload(a[k], b[k]) for k in a)
    if isinstance(a, list):
        return len(a) == len(b) and all(same_payload(x, y) for x, y in zip(a, b))
    if isinstance(a, float):
        return repr(a) == repr(b)
    return a == b
