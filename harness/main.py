"""
Entry point:  check <Cxx> [--tier quick|thorough] [--seed N] [--replay FILE]
              check --setup        (extract + full lake build; MANIFEST.setup_cmd)
              check --list
Honours VERIF_SEED and VERIF_TIER.
"""
import argparse
import importlib
import json
import os
import sys

sys.path.insert(0, os.path.dirname(os.path.abspath(__file__)))

import core  # noqa: E402


def setup():
    """Extract + build.  Models, driver and generated facts must build (anything else is an infrastructure failure);
    property modules are built best-effort here: one that does not build is reported by its own check as broken
    obligations, it must not take the setup - and with it every other check - down."""
    with core.build_lock():
        core.run_extractor()
        ok, out = core.lake_build(["JRV.Driver", "JRV.Generated"])
        if not ok:
            sys.stdout.write(out[-3000:])
            print("setup: models/driver do not build")
            return 2
        ok_all, out_all = core.lake_build([])
    if not ok_all:
        failed = sorted(set(ln.strip() for ln in out_all.splitlines() if ln.startswith("- JRV.")))
        print("setup: these modules do not build (their checks will report it): %s" % ", ".join(failed))
    print("setup: ok")
    return 0


def main(argv):
    ap = argparse.ArgumentParser()
    ap.add_argument("pid", nargs="?")
    ap.add_argument("--tier", default=os.environ.get("VERIF_TIER") or "quick", choices=["quick", "thorough"])
    ap.add_argument("--seed", type=int, default=None)
    ap.add_argument("--replay")
    ap.add_argument("--setup", action="store_true")
    ap.add_argument("--list", action="store_true")
    a = ap.parse_args(argv)
    if a.setup:
        return setup()
    if a.list:
        for f in sorted(os.listdir(os.path.join(os.path.dirname(os.path.abspath(__file__)), "props"))):
            if f.startswith("c") and f.endswith(".py"):
                print(f[:-3].upper())
        return 0
    if not a.pid:
        ap.error("property id required")
    pid = a.pid.upper()
    seed = a.seed
    if seed is None:
        try:
            seed = int(os.environ.get("VERIF_SEED", "") or 20260927)
        except ValueError:
            seed = 20260927
    try:
        module = importlib.import_module("props." + pid.lower())
    except ImportError as ex:
        core.log("no check module for %s: %s" % (pid, ex))
        return 2
    if a.replay:
        with open(a.replay) as fh:
            payload = json.load(fh)
        fn = getattr(module, "replay", None)
        if fn is None:
            print("replay not supported for %s; payload:\n%s" % (pid, json.dumps(payload, indent=1)[:4000]))
            return 2
        return fn(payload)
    return core.run_check(pid, module, a.tier, seed)


if __name__ == "__main__":
    rc = main(sys.argv[1:])
    sys.stdout.flush()
    sys.stderr.flush()
    os._exit(rc)
