"""
A scripted raw-socket HTTP peer (TCP or Unix socket) for C19: it answers every request it *reads* with the
next behaviour of the script installed for the current call.  The harness drives calls sequentially:

    peer.begin_call(i, [beh, ...])   # before each proxy call (goes down first when the script starts with "down")
    ... proxy.echo(i) ...
    peer.end_call()                  # waits until the peer is idle, sends the deferred ("late") bytes, comes up again

Behaviours (see lean/JRV/Model/Transport.lean; <code> is any HTTP status, <k> a token):
    ok okc down cbr rst trunc empty nonjson
    sl<code>[o|f|e]    status <code> with Content-Length and a body, keep-alive.  Body: plain text (default), a JSON-RPC
                       result for the call's OWN token (o), for ANOTHER token (f: token + FOREIGN), an error object (e)
    snl<code>[o|f|e]   the same without a Content-Length header; the peer then closes the connection
    bl<code>           bodiless status without a length header (204, 304), keep-alive
    blz<code>          bodiless status announcing `Content-Length: 0`, keep-alive
    xn<k>              200 + own result AND, in the same segment, an unsolicited complete 200 reply carrying token <k>
    xl<k>              200 + own result; the unsolicited reply <k> is sent *late* (at end_call, when the client has consumed
                       its own reply): it stays unread on the connection
    sx<code>           status <code> whose body is longer than the announced Content-Length, all in one segment
    sy<code>           the same, the surplus bytes (no line end, not an HTTP status line) are sent late
    sz<code>_<k>       the same, the late surplus is followed by a complete 200 reply carrying token <k>
    sb<code>_<kind>_<framing>
                       status <code> with a body of the given KIND - what error pages of front-end servers, proxies and broken
                       peers really hold (ERROR_BODIES): text own foreign err http | empty huge html latin1 gz (gzip bytes with
                       `Content-Encoding: gzip`) gzn (gzip bytes without the header) bin (arbitrary bytes) cut (UTF-8 ending
                       inside a character) u16 (UTF-16 with BOM) - and FRAMING: l Content-Length, keep-alive | n no length
                       header, the peer closes | c chunked transfer encoding (HTTP chunks of a few hundred bytes), keep-alive |
                       k Content-Length and `Connection: close`, the peer closes
    hb_<kind>_<framing>
                       a HEALTHY 200 reply whose result is `[<token>, <text>]` (ok_result): the JSON text holds what servers
                       other than the bundled one really send (OK_BODY_KINDS): ascii | raw (2-, 3- and 4-byte characters as raw
                       UTF-8, `ensure_ascii=False`) | esc (the same text in \\u escapes, surrogate pairs included) | mix (raw and
                       escaped in one document) | ws (indented, line feeds, raw) | huge (tens of KiB of raw multi-byte text:
                       many reads, characters straddling every read boundary) | gz (the raw document gzip-compressed and
                       announced by `Content-Encoding: gzip` - the client asks for it).  Content-Length counts BYTES.
                       FRAMING as for sb: l | n | c | k.
    nb_<kind>_<framing>
                       a 200 reply whose body is NOT JSON text (BAD_BODY_KINDS): html | latin1 (the healthy document encoded
                       in ISO-8859-1: `caf\\xe9`) | cut (the healthy document with a multi-byte character cut in half) | lone
                       (a lone continuation byte inside a string) | over (an over-long encoding `\\xc0\\xaf`) | bin (arbitrary
                       bytes) | gzn (gzip bytes WITHOUT `Content-Encoding`) | extra (the healthy document followed by bytes that
                       are not UTF-8).  The bad bytes sit INSIDE THE RESULT: any value a call returns is made up.  FRAMING: l n c k.
    q<infos>_<final>_<delta>_<cuts>
                       a reply delivered in pieces.  <infos>: informational responses sent first, one letter each - c/C `100
                       Continue`, p/P `102 Processing`, e/E `103 Early Hints` (no body, no length header; upper case: the
                       peer pauses after it).  <final>: ok (200 + own result) | s<code>[o|f|e|h] (status with a body; h: the
                       body is itself a complete HTTP 200 reply carrying token + FOREIGN) | b<code> (bodiless 204/304).
                       <delta>: `=` body as long as the announced Content-Length (b: `Content-Length: 0`), `+` longer (the
                       surplus in the segment of the last body byte), `~` longer (the surplus after a pause), `-` shorter, then
                       the peer closes, `n` no length header (s: the peer closes after the body; b: keep-alive).
                       <cuts> (subset of "lhb"): the peer pauses after the status line (l), after the header block (h), in
                       the middle of the body (b).
                       A pause lasts until the client HAS ACTED: its call has returned (the remaining bytes are then sent at
                       end_call: they arrive on a connection the client has finished with) or it is blocked reading from an
                       empty socket (the remaining bytes are what it is waiting for).

A timeout of the peer's own bookkeeping (quiesce, accept thread) is an infrastructure failure (core.InfraError), never a
silent pass.
"""
import gzip
import json
import os
import random
import re
import select
import socket
import struct
import sys
import threading
import time

import core

FOREIGN = 1000          # `f` bodies carry token + FOREIGN
SURPLUS = b"SURPLUS-BYTES"   # no CR/LF: glued in front of whatever status line follows
QUIESCE_TIMEOUT = 20.0  # seconds; far above anything a loaded machine needs for a loopback exchange

BEH_RE = re.compile(r"^(ok|okc|down|cbr|rst|trunc|empty|nonjson|"
                    r"sl\d+[ofe]?|snl\d+[ofe]?|bl\d+|blz\d+|xn\d+|xl\d+|sx\d+|sy\d+|sz\d+_\d+)$")
SB_RE = re.compile(r"^sb(\d+)_([a-z0-9]+)_([lnck])$")
ERROR_BODY_KINDS = ["text", "own", "foreign", "err", "http", "empty", "huge", "html", "latin1", "gz", "gzn", "bin", "cut", "u16"]
ERROR_FRAMINGS = ["l", "n", "c", "k"]
# 200 replies: healthy documents of every spelling / size / content coding, and bodies that are not JSON text
HB_RE = re.compile(r"^hb_([a-z0-9]+)_([lnck])$")
NB_RE = re.compile(r"^nb_([a-z0-9]+)_([lnck])$")
OK_BODY_KINDS = ["ascii", "raw", "esc", "mix", "ws", "huge", "gz"]
BAD_BODY_KINDS = ["html", "latin1", "cut", "lone", "over", "bin", "gzn", "extra"]
_TEXT = u"caf\xe9 na\xefve \u65e5\u672c\u8a9e \u2713 \u20ac \U0001F600 \u00df"   # 2-, 3- and 4-byte characters
_HUGE_TEXT = (u"\xe9\u65e5\U0001F600a" * 4000)[:15001]   # 1-, 2-, 3-, 4-byte characters: every read boundary falls inside one
HUGE = 40000            # bytes: many reads, yet within the socket buffers (a client that does not read must not block the peer)
_HTML = u"<html><head><title>503 Service indisponible</title></head><body><h1>Service indisponible</h1>" \
        u"<p>R\xe9essayez ult\xe9rieurement \u2014 le serveur est surcharg\xe9. \u20ac \U0001F600</p></body></html>"


def parse_sb(b):
    """`sb<code>_<kind>_<framing>` -> (code, kind, framing) or None."""
    m = SB_RE.match(b)
    if not m or m.group(2) not in ERROR_BODY_KINDS:
        return None
    return int(m.group(1)), m.group(2), m.group(3)


def parse_hb(b):
    """`hb_<kind>_<framing>` -> (kind, framing) or None."""
    m = HB_RE.match(b)
    if not m or m.group(1) not in OK_BODY_KINDS:
        return None
    return m.group(1), m.group(2)


def parse_nb(b):
    """`nb_<kind>_<framing>` -> (kind, framing) or None."""
    m = NB_RE.match(b)
    if not m or m.group(1) not in BAD_BODY_KINDS:
        return None
    return m.group(1), m.group(2)


def ok_text(kind):
    return u"plain text" if kind == "ascii" else (_HUGE_TEXT if kind == "huge" else _TEXT)


def ok_result(kind, tok):
    """The result a healthy `hb` reply to the request carrying `tok` holds."""
    return [tok, ok_text(kind)]


def hb_body(kind, rid, tok):
    """-> (bytes on the wire, extra header lines) of a healthy reply of the given kind."""
    doc = {"jsonrpc": "2.0", "id": rid, "result": ok_result(kind, tok)}
    if kind in ("ascii", "esc"):
        return json.dumps(doc, ensure_ascii=True).encode("ascii"), b""
    if kind == "mix":
        raw = json.dumps(doc, ensure_ascii=False)
        return raw.replace(u"\u2713", u"\\u2713").replace(u"\U0001F600", u"\\ud83d\\ude00").encode("utf-8"), b""
    if kind == "ws":
        return (u"\r\n " + json.dumps(doc, ensure_ascii=False, indent=2) + u"\n\t").encode("utf-8"), b""
    if kind == "gz":
        return gzip.compress(json.dumps(doc, ensure_ascii=False).encode("utf-8"), mtime=0), b"Content-Encoding: gzip\r\n"
    return json.dumps(doc, ensure_ascii=False).encode("utf-8"), b""   # raw, huge


def nb_body(kind, rid, tok):
    """The bytes of a 200 body that is not JSON text.  JSON-shaped kinds carry the damage inside the result."""
    def shaped(payload):
        good = json.dumps({"jsonrpc": "2.0", "id": rid, "result": [tok, u"caf@ na"]}).encode("ascii")
        return good.replace(b"@", payload)
    if kind == "html":
        return _HTML.encode("utf-8")
    if kind == "latin1":
        return shaped(u"\xe9".encode("iso-8859-1"))
    if kind == "cut":
        return shaped(u"\xe9".encode("utf-8")[:1])
    if kind == "lone":
        return shaped(b"\x80")
    if kind == "over":
        return shaped(b"\xc0\xaf")
    if kind == "extra":
        return shaped(b"e") + b"\n\xff\xfe"
    if kind == "gzn":
        return gzip.compress(shaped(b"e"), mtime=0)
    if kind == "bin":
        r = random.Random(19)
        return b"\x00\xff\xfe\x80\xbf" + bytes(r.randrange(256) for _ in range(300)) + b"\xc3"
    raise core.InfraError("scripted peer: unknown 200 body kind %r" % (kind,))


def frame(status_line, headers, body, framing):
    """The bytes of a reply in the given framing (l n c k) and whether the connection is kept alive."""
    head = status_line + headers
    if framing in ("l", "k"):
        head += ("Content-Length: %d\r\n" % len(body)).encode()
    if framing == "k":
        head += b"Connection: close\r\n"
    if framing == "c":
        head += b"Transfer-Encoding: chunked\r\n"
        parts, i, k = [], 0, 0
        sizes = [313, 1, 700, 4096]
        while i < len(body):
            part = body[i:i + sizes[k % len(sizes)]]
            parts.append(("%x\r\n" % len(part)).encode() + part + b"\r\n")
            i += len(part)
            k += 1
        body = b"".join(parts) + b"0\r\n\r\n"
    return head + b"\r\n" + body, framing in ("l", "c")


def error_body(kind):
    """The bytes of an error body of the given kind (deterministic)."""
    if kind == "empty":
        return b""
    if kind == "huge":
        return (b"<p>upstream connect error or disconnect/reset before headers</p>\n" * (HUGE // 68 + 1))[:HUGE]
    if kind == "html":
        return _HTML.encode("utf-8")
    if kind == "latin1":
        return _HTML.replace(u"\u2014", u"-").replace(u"\u20ac", u"EUR").replace(u"\U0001F600", u"").encode("iso-8859-1")
    if kind in ("gz", "gzn"):
        return gzip.compress(b"<html><body>Bad gateway</body></html>", mtime=0)
    if kind == "bin":
        return b"\x00\xff\xfe\x80\xbf" + bytes(random.Random(19).randrange(256) for _ in range(300)) + b"\xc3"
    if kind == "cut":
        return _HTML.encode("utf-8")[:_HTML.encode("utf-8").index(u"\u20ac".encode("utf-8")) + 2]
    if kind == "u16":
        return _HTML.encode("utf-16")
    return None  # text / own / foreign / err / http: built per request
Q_RE = re.compile(r"^q([cCpPeE]*)_(ok|s(\d+)([ofeh]?)|b(\d+))_([=+~n-])_(l?h?b?)$")
INFO = {"c": (100, "Continue"), "p": (102, "Processing"), "e": (103, "Early Hints")}
PAUSE_POLL = 0.001      # seconds between two looks at the client while the peer pauses
PAUSE_STABLE = 3        # consecutive looks that must find the client blocked on an empty socket


def parse_q(b):
    """A reply delivered in pieces -> dict, or None when `b` is not a well-formed q-behaviour."""
    m = Q_RE.match(b)
    if not m:
        return None
    infos = [(INFO[ch.lower()][0], INFO[ch.lower()][1], ch.isupper()) for ch in m.group(1)]
    delta, cuts = m.group(6), m.group(7)
    if m.group(2) == "ok":
        final = ("ok", 200, "")
        if delta == "n":
            return None
    elif m.group(3) is not None:
        final = ("s", int(m.group(3)), m.group(4))
    else:
        final = ("b", int(m.group(5)), "")
        if delta not in "=n":
            return None
    return {"infos": infos, "final": final, "delta": delta, "cuts": cuts}


def valid_beh(b):
    return bool(BEH_RE.match(b)) or parse_q(b) is not None or parse_sb(b) is not None or parse_hb(b) is not None \
        or parse_nb(b) is not None


class Peer(object):
    def __init__(self, kind, tmpdir):
        self.kind = kind  # "tcp" | "unix"
        self.tmpdir = tmpdir
        self.lock = threading.Lock()
        self.scripts = {}
        self.active = 0
        self.conns = []
        self.listener = None
        self.accept_thread = None
        self.port = None
        self.path = os.path.join(tmpdir, "peer.sock") if kind == "unix" else None
        self.is_down = False
        self.seen = []  # (token, behaviour, shadowed) for every request read; shadowed: unread late bytes precede the answer
        self.deferred = []  # (connection, bytes) to send at end_call
        self.dirty = set()  # connections on which late bytes were sent: the client no longer reads answers in step
        self.late_sent = 0
        self.stopping = False
        self.close_after = set()  # connections to close once their deferred bytes have been sent
        self.call_done = threading.Event()  # set when the client's call has returned (end_call)
        self.client_tid = None    # thread that makes the calls (begin_call is called from it)
        self.client_sock = None   # callable -> the client's socket (or None), set by the harness
        self.pauses = {"blocked": 0, "returned": 0}
        self.infra_error = None   # a failure of the peer's own bookkeeping inside a handler thread
        self.come_up(first=True)

    # ---- lifecycle -------------------------------------------------------------------------
    def come_up(self, first=False):
        try:
            if self.kind == "tcp":
                s = socket.socket(socket.AF_INET, socket.SOCK_STREAM)
                s.setsockopt(socket.SOL_SOCKET, socket.SO_REUSEADDR, 1)
                s.bind(("127.0.0.1", self.port or 0))
                self.port = s.getsockname()[1]
            else:
                try:
                    os.unlink(self.path)
                except OSError:
                    pass
                s = socket.socket(socket.AF_UNIX, socket.SOCK_STREAM)
                s.bind(self.path)
            s.listen(16)
        except OSError as ex:
            raise core.InfraError("scripted peer cannot listen (%s): %s" % (self.kind, ex))
        self.listener = s
        self.is_down = False
        self.wake_r, self.wake_w = os.pipe()
        t = threading.Thread(target=self._accept_loop, args=(s, self.wake_r))
        t.daemon = True
        t.start()
        self.accept_thread = t

    def _close_listener(self):
        """Synchronously stops accepting: when this returns the listening socket is closed in the kernel."""
        with self.lock:
            self.is_down = True
            lst, self.listener = self.listener, None
            t, self.accept_thread = self.accept_thread, None
        if lst is None:
            return
        try:
            os.write(self.wake_w, b"x")
        except OSError:
            pass
        if t is not None and t is not threading.current_thread():
            t.join(QUIESCE_TIMEOUT)
            if t.is_alive() and not self.stopping:
                raise core.InfraError("scripted peer: the accept thread did not stop within %.0f s" % QUIESCE_TIMEOUT)
        try:
            lst.close()
        except OSError:
            pass
        for fd in (self.wake_r, self.wake_w):
            try:
                os.close(fd)
            except OSError:
                pass

    def go_down(self):
        self._close_listener()
        with self.lock:
            conns, self.conns = self.conns, []
            self.deferred = []
        for c in conns:
            try:
                c.shutdown(socket.SHUT_RDWR)
            except OSError:
                pass
            try:
                c.close()
            except OSError:
                pass

    def stop(self):
        self.stopping = True
        self.go_down()
        if self.path:
            try:
                os.unlink(self.path)
            except OSError:
                pass

    def url(self):
        if self.kind == "tcp":
            return "http://127.0.0.1:%d/rpc" % self.port
        return "unix+http://%s" % self.path

    # ---- per call --------------------------------------------------------------------------
    def begin_call(self, index, script):
        """Installs the script of call `index` (requests carry their call index as token, so a request
        read late - e.g. one the client abandoned - still consumes from its own call's script)."""
        for b in script:
            if not valid_beh(b):
                raise core.InfraError("scripted peer: unknown behaviour %r" % (b,))
        with self.lock:
            self.scripts[index] = list(script)
        self.client_tid = threading.get_ident()
        self.call_done.clear()
        if script and script[0] == "down":
            self.go_down()

    def quiesce(self):
        """Waits until the peer has consumed everything the client has sent so far (a request the client
        abandoned is still read and answered into the void) and no handler is in the middle of a request.
        Not reaching that state within QUIESCE_TIMEOUT is an infrastructure failure."""
        calm = 0
        deadline = time.monotonic() + QUIESCE_TIMEOUT
        while True:
            with self.lock:
                conns = list(self.conns)
                active = self.active
            readable = []
            if conns:
                try:
                    readable, _, _ = select.select(conns, [], [], 0)
                except (OSError, ValueError):
                    readable = [1]  # a connection was closed under us: look again
            if active == 0 and not readable:
                calm += 1
                if calm >= 2:
                    return
            else:
                calm = 0
            if time.monotonic() > deadline:
                raise core.InfraError("scripted peer did not become idle within %.0f s (active handlers=%d, readable connections=%d)"
                                      % (QUIESCE_TIMEOUT, active, len(readable)))
            time.sleep(0.0005)

    def end_call(self):
        """Returns the number of connections on which late bytes were sent (the caller may want to wait until they
        have reached the client's socket)."""
        self.call_done.set()  # the client has acted: handlers pausing inside a reply defer the rest of it
        self.quiesce()
        with self.lock:
            deferred, self.deferred = self.deferred, []
            closing, self.close_after = self.close_after, set()
        sent = 0
        for c, data in deferred:
            try:
                c.sendall(data)
                sent += 1
                with self.lock:
                    self.dirty.add(id(c))
            except OSError:
                pass
        for c in closing:
            # the reply ends with the peer closing the connection: after its last (deferred) bytes
            with self.lock:
                if c in self.conns:
                    self.conns.remove(c)
            try:
                c.shutdown(socket.SHUT_RDWR)
            except OSError:
                pass
        self.late_sent += sent
        if self.infra_error and not self.stopping:
            raise core.InfraError(self.infra_error)
        if self.is_down and not self.stopping:
            self.come_up()
        return sent

    def _next_beh(self, tok):
        with self.lock:
            sc = self.scripts.get(tok)
            if sc is None:
                return "ok", None
            if sc and sc[0] == "down":
                # a down marker at the head is consumed by the connection attempt that it refuses
                sc.pop(0)
            b = sc.pop(0) if sc else "ok"
            nxt = sc[0] if sc else None
        return b, nxt

    # ---- socket handling -------------------------------------------------------------------
    def _accept_loop(self, lst, wake_r):
        while True:
            try:
                r, _, _ = select.select([lst, wake_r], [], [])
            except (OSError, ValueError):
                return
            if wake_r in r:
                return
            try:
                c, _ = lst.accept()
            except OSError:
                return
            if self.kind == "tcp":
                try:
                    # a reply sent in several small segments must not wait for the client's delayed ACK (Nagle)
                    c.setsockopt(socket.IPPROTO_TCP, socket.TCP_NODELAY, 1)
                except OSError:
                    pass
            with self.lock:
                self.conns.append(c)
            t = threading.Thread(target=self._serve, args=(c,))
            t.daemon = True
            t.start()

    def _read_request(self, c, on_data):
        buf = b""
        c.settimeout(60)
        first = True
        while b"\r\n\r\n" not in buf:
            d = c.recv(65536)
            if not d:
                return None
            if first:
                on_data()
                first = False
            buf += d
        head, rest = buf.split(b"\r\n\r\n", 1)
        length = 0
        for ln in head.split(b"\r\n")[1:]:
            k, _, v = ln.partition(b":")
            if k.strip().lower() == b"content-length":
                length = int(v.strip())
        while len(rest) < length:
            d = c.recv(65536)
            if not d:
                return None
            rest += d
        return rest[:length]

    def _serve(self, c):
        try:
            while True:
                started = []

                def on_data():
                    # from the first byte of a request until its behaviour has been applied the handler is busy
                    with self.lock:
                        self.active += 1
                    started.append(1)
                try:
                    body = self._read_request(c, on_data)
                except (OSError, ValueError):
                    body = None
                try:
                    keep = body is not None and self._handle(c, body)
                finally:
                    if started:
                        with self.lock:
                            self.active -= 1
                if not keep:
                    return
        finally:
            with self.lock:
                if c in self.conns:
                    self.conns.remove(c)
            try:
                c.close()
            except OSError:
                pass

    def _handle(self, c, body):
        if body is None:
            return False
        try:
            req = json.loads(body.decode("utf-8"))
            tok = req["params"][0]
            rid = req.get("id")
        except Exception:
            tok, rid = None, None
        beh, nxt = self._next_beh(tok)
        with self.lock:
            shadowed = id(c) in self.dirty
        self.seen.append((tok, beh, shadowed))
        if nxt == "down":
            # the peer goes down right after this exchange: stop listening first
            self._close_listener()
        keep = self._apply(c, beh, tok, rid)
        if not keep:
            # close before reporting idle, so that the client-visible effect is complete
            with self.lock:
                if c in self.conns:
                    self.conns.remove(c)
                self.deferred = [(dc, d) for (dc, d) in self.deferred if dc is not c]
                self.close_after.discard(c)
            try:
                c.close()
            except OSError:
                pass
        return keep

    @staticmethod
    def _reply(status, reason, body, length="auto", extra=b""):
        head = ("HTTP/1.1 %d %s\r\n" % (status, reason)).encode()
        if length == "auto":
            head += ("Content-Length: %d\r\n" % len(body)).encode()
        elif length is not None:
            head += ("Content-Length: %d\r\n" % length).encode()
        head += b"Content-Type: application/json\r\n" + extra + b"\r\n"
        return head + body

    def _send(self, c, status, reason, body, length="auto", extra=b""):
        c.sendall(self._reply(status, reason, body, length, extra))

    @staticmethod
    def _result(rid, tok):
        return json.dumps({"jsonrpc": "2.0", "id": rid, "result": tok}).encode()

    def _status_body(self, kind, tok, rid, plain):
        if kind == "o":
            return self._result(rid, tok)
        if kind == "f":
            return self._result(rid, (tok if isinstance(tok, int) else 0) + FOREIGN)
        if kind == "e":
            return json.dumps({"jsonrpc": "2.0", "id": rid, "error": {"code": -32603, "message": "Server error"}}).encode()
        return plain

    def _defer(self, c, data):
        with self.lock:
            self.deferred.append((c, data))

    # ---- replies delivered in pieces ---------------------------------------------------------
    def _client_blocked(self):
        """The calling thread sits in socket.SocketIO.readinto and nothing is waiting in its socket: it has consumed
        everything sent so far and wants more."""
        fr = sys._current_frames().get(self.client_tid)
        if fr is None or fr.f_code.co_name != "readinto" or os.path.basename(fr.f_code.co_filename) != "socket.py":
            return False
        try:
            # the socket the client is reading from: the one of the SocketIO whose readinto it sits in (the cached
            # HTTPConnection no longer knows it once it has handed it to a `will_close` response)
            sock = getattr(fr.f_locals.get("self"), "_sock", None)
            if sock is None:
                sock = self.client_sock() if self.client_sock else None
            if sock is None or sock.fileno() < 0:
                return False
            r, _, _ = select.select([sock], [], [], 0)
        except (OSError, ValueError, AttributeError):
            return False
        return not r

    def _pause(self):
        """Waits until the client has acted; returns "returned" (its call is over) or "blocked" (it waits for more)."""
        stable = 0
        deadline = time.monotonic() + QUIESCE_TIMEOUT
        while True:
            if self.call_done.is_set() or self.stopping:
                self.pauses["returned"] += 1
                return "returned"
            if self._client_blocked():
                stable += 1
                if stable >= PAUSE_STABLE:
                    self.pauses["blocked"] += 1
                    return "blocked"
            else:
                stable = 0
            if time.monotonic() > deadline:
                self.infra_error = ("scripted peer: the client neither returned nor blocked on its socket within %.0f s of a pause"
                                    % QUIESCE_TIMEOUT)
                return "returned"
            time.sleep(PAUSE_POLL)

    def _segments(self, q, tok, rid):
        """The byte segments of a q-behaviour (a pause between two segments) and whether the peer closes afterwards."""
        pieces = []  # (bytes, pause after)
        for code, reason, cut in q["infos"]:
            extra = b"Link: </style.css>; rel=preload\r\n" if code == 103 else b""
            pieces.append((("HTTP/1.1 %d %s\r\n" % (code, reason)).encode() + extra + b"\r\n", cut))
        kind, code, bk = q["final"]
        delta, cuts = q["delta"], q["cuts"]
        if kind == "ok":
            body, reason = self._result(rid, tok), "OK"
        elif kind == "s":
            reason = "Err"
            if bk == "h":
                body = self._reply(200, "OK", self._result(rid, (tok if isinstance(tok, int) else 0) + FOREIGN))
            else:
                body = self._status_body(bk, tok, rid, b"error")
        else:
            body, reason = b"", "No Content"
        pieces.append((("HTTP/1.1 %d %s\r\n" % (code, reason)).encode(), "l" in cuts))
        head = b""
        if delta != "n":
            head += ("Content-Length: %d\r\n" % len(body)).encode()
        if kind != "b":
            head += b"Content-Type: application/json\r\n"
        pieces.append((head + b"\r\n", "h" in cuts))
        sent_body = body[: max(1, len(body) // 2)] if delta == "-" else body
        if "b" in cuts and len(sent_body) >= 2:
            half = len(sent_body) // 2
            pieces.append((sent_body[:half], True))
            sent_body = sent_body[half:]
        pieces.append((sent_body, delta == "~"))
        if delta in "+~":
            pieces.append((SURPLUS, False))
        segments, cur = [], b""
        for data, cut in pieces:
            cur += data
            if cut and cur:
                segments.append(cur)
                cur = b""
        if cur:
            segments.append(cur)
        closes = delta == "-" or (delta == "n" and kind == "s")
        return segments, closes

    def _apply_q(self, c, q, tok, rid):
        segments, closes = self._segments(q, tok, rid)
        c.sendall(segments[0])
        for i in range(1, len(segments)):
            if self._pause() == "returned":
                # the client has finished with this exchange: what is left of the reply arrives afterwards
                self._defer(c, b"".join(segments[i:]))
                if closes:
                    with self.lock:
                        self.close_after.add(c)
                return True
            c.sendall(segments[i])
        return not closes

    def _apply_sb(self, c, sb, tok, rid):
        """A non-200 reply with a body of a given kind in a given framing."""
        code, kind, framing = sb
        body = error_body(kind)
        if body is None:
            if kind == "http":
                body = self._reply(200, "OK", self._result(rid, (tok if isinstance(tok, int) else 0) + FOREIGN))
            else:
                body = self._status_body({"own": "o", "foreign": "f", "err": "e"}.get(kind, ""), tok, rid, b"error")
        head = ("HTTP/1.1 %d Err\r\n" % code).encode()
        head += b"Content-Type: text/html; charset=iso-8859-1\r\n" if kind == "latin1" else b"Content-Type: text/html\r\n"
        if kind == "gz":
            head += b"Content-Encoding: gzip\r\n"
        if framing in ("l", "k"):
            head += ("Content-Length: %d\r\n" % len(body)).encode()
        if framing == "k":
            head += b"Connection: close\r\n"
        if framing == "c":
            head += b"Transfer-Encoding: chunked\r\n"
            parts, i, k = [], 0, 0
            sizes = [313, 1, 700, 4096]
            while i < len(body):
                part = body[i:i + sizes[k % len(sizes)]]
                parts.append(("%x\r\n" % len(part)).encode() + part + b"\r\n")
                i += len(part)
                k += 1
            body = b"".join(parts) + b"0\r\n\r\n"
        c.sendall(head + b"\r\n" + body)
        return framing in ("l", "c")

    def _apply(self, c, beh, tok, rid):
        ok_body = self._result(rid, tok)
        try:
            q = parse_q(beh)
            if q is not None:
                return self._apply_q(c, q, tok, rid)
            sb = parse_sb(beh)
            if sb is not None:
                return self._apply_sb(c, sb, tok, rid)
            hb = parse_hb(beh)
            if hb is not None:
                body, extra = hb_body(hb[0], rid, tok)
                data, keep = frame(b"HTTP/1.1 200 OK\r\n", b"Content-Type: application/json\r\n" + extra, body, hb[1])
                c.sendall(data)
                return keep
            nb = parse_nb(beh)
            if nb is not None:
                ctype = b"Content-Type: text/html\r\n" if nb[0] == "html" else b"Content-Type: application/json\r\n"
                data, keep = frame(b"HTTP/1.1 200 OK\r\n", ctype, nb_body(nb[0], rid, tok), nb[1])
                c.sendall(data)
                return keep
            if beh == "ok":
                self._send(c, 200, "OK", ok_body)
                return True
            if beh == "okc":
                self._send(c, 200, "OK", ok_body)
                return False
            if beh == "cbr":
                return False
            if beh == "rst":
                c.setsockopt(socket.SOL_SOCKET, socket.SO_LINGER, struct.pack("ii", 1, 0))
                return False
            m = re.match(r"^(snl|sl)(\d+)([ofe]?)$", beh)
            if m:
                code = int(m.group(2))
                if m.group(1) == "snl":
                    self._send(c, code, "Err", self._status_body(m.group(3), tok, rid, b"oops"), length=None)
                    return False
                self._send(c, code, "Err", self._status_body(m.group(3), tok, rid, b"error"))
                return True
            if beh.startswith("blz"):
                c.sendall(("HTTP/1.1 %d No Content\r\nContent-Length: 0\r\n\r\n" % int(beh[3:])).encode())
                return True
            if beh.startswith("bl"):
                c.sendall(("HTTP/1.1 %d No Content\r\n\r\n" % int(beh[2:])).encode())
                return True
            if beh.startswith("xn"):
                # one segment: the client's buffered reader takes both, the second reply is lost with the first response
                c.sendall(self._reply(200, "OK", ok_body) + self._reply(200, "OK", self._result(rid, int(beh[2:]))))
                return True
            if beh.startswith("xl"):
                self._send(c, 200, "OK", ok_body)
                self._defer(c, self._reply(200, "OK", self._result(rid, int(beh[2:]))))
                return True
            if beh.startswith("sx"):
                c.sendall(self._reply(int(beh[2:]), "Err", b"error" + SURPLUS, length=5))
                return True
            if beh.startswith("sy"):
                self._send(c, int(beh[2:]), "Err", b"error", length=5)
                self._defer(c, SURPLUS)
                return True
            if beh.startswith("sz"):
                code, k = beh[2:].split("_")
                self._send(c, int(code), "Err", b"error", length=5)
                self._defer(c, SURPLUS + self._reply(200, "OK", self._result(rid, int(k))))
                return True
            if beh == "trunc":
                self._send(c, 200, "OK", ok_body[: max(1, len(ok_body) // 2)], length=len(ok_body) + 20)
                return False
            if beh == "empty":
                self._send(c, 200, "OK", b"")
                return True
            if beh == "nonjson":
                self._send(c, 200, "OK", b"<html>no</html>")
                return True
        except OSError:
            return False
        raise core.InfraError("scripted peer: behaviour %r not implemented" % (beh,))
