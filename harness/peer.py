"""
A scripted raw-socket HTTP peer (TCP or Unix socket) for C19: it answers every request it *reads* with the
next behaviour of the script installed for the current call.  The harness drives calls sequentially:

    peer.begin_call(i, [beh, ...])   # before each proxy call (goes down first when the script starts with "down")
    ... proxy.echo(i) ...
    peer.end_call()                  # waits until the peer is idle, sends the deferred ("late") bytes, comes up again

Behaviours (see lean/JRV/Model/Transport.lean; <code> is any HTTP status, <k> a token):
    ok okc down cbr rst trunc empty nonjson
    sl<code>[o|f|e]    status <code> with Content-Length and a body, keep-alive.  Body: plain text (default), a JSON-RPC
                       result for the call's OWN token (o), for ANOTHER token (f: token + FOREIGN), an error object (e)
    snl<code>[o|f|e]   the same without a Content-Length header; the peer then closes the connection
    bl<code>           bodiless status without a length header (204, 304), keep-alive
    blz<code>          bodiless status announcing `Content-Length: 0`, keep-alive
    xn<k>              200 + own result AND, in the same segment, an unsolicited complete 200 reply carrying token <k>
    xl<k>              200 + own result; the unsolicited reply <k> is sent *late* (at end_call, when the client has consumed
                       its own reply): it stays unread on the connection
    sx<code>           status <code> whose body is longer than the announced Content-Length, all in one segment
    sy<code>           the same, the surplus bytes (no line end, not an HTTP status line) are sent late
    sz<code>_<k>       the same, the late surplus is followed by a complete 200 reply carrying token <k>

A timeout of the peer's own bookkeeping (quiesce, accept thread) is an infrastructure failure (core.InfraError), never a
silent pass.
"""
import json
import os
import re
import select
import socket
import struct
import threading
import time

import core

FOREIGN = 1000          # `f` bodies carry token + FOREIGN
SURPLUS = b"SURPLUS-BYTES"   # no CR/LF: glued in front of whatever status line follows
QUIESCE_TIMEOUT = 20.0  # seconds; far above anything a loaded machine needs for a loopback exchange

BEH_RE = re.compile(r"^(ok|okc|down|cbr|rst|trunc|empty|nonjson|"
                    r"sl\d+[ofe]?|snl\d+[ofe]?|bl\d+|blz\d+|xn\d+|xl\d+|sx\d+|sy\d+|sz\d+_\d+)$")


def valid_beh(b):
    return bool(BEH_RE.match(b))


class Peer(object):
    def __init__(self, kind, tmpdir):
        self.kind = kind  # "tcp" | "unix"
        self.tmpdir = tmpdir
        self.lock = threading.Lock()
        self.scripts = {}
        self.active = 0
        self.conns = []
        self.listener = None
        self.accept_thread = None
        self.port = None
        self.path = os.path.join(tmpdir, "peer.sock") if kind == "unix" else None
        self.is_down = False
        self.seen = []  # (token, behaviour, shadowed) for every request read; shadowed: unread late bytes precede the answer
        self.deferred = []  # (connection, bytes) to send at end_call
        self.dirty = set()  # connections on which late bytes were sent: the client no longer reads answers in step
        self.late_sent = 0
        self.stopping = False
        self.come_up(first=True)

    # ---- lifecycle -------------------------------------------------------------------------
    def come_up(self, first=False):
        try:
            if self.kind == "tcp":
                s = socket.socket(socket.AF_INET, socket.SOCK_STREAM)
                s.setsockopt(socket.SOL_SOCKET, socket.SO_REUSEADDR, 1)
                s.bind(("127.0.0.1", self.port or 0))
                self.port = s.getsockname()[1]
            else:
                try:
                    os.unlink(self.path)
                except OSError:
                    pass
                s = socket.socket(socket.AF_UNIX, socket.SOCK_STREAM)
                s.bind(self.path)
            s.listen(16)
        except OSError as ex:
            raise core.InfraError("scripted peer cannot listen (%s): %s" % (self.kind, ex))
        self.listener = s
        self.is_down = False
        self.wake_r, self.wake_w = os.pipe()
        t = threading.Thread(target=self._accept_loop, args=(s, self.wake_r))
        t.daemon = True
        t.start()
        self.accept_thread = t

    def _close_listener(self):
        """Synchronously stops accepting: when this returns the listening socket is closed in the kernel."""
        with self.lock:
            self.is_down = True
            lst, self.listener = self.listener, None
            t, self.accept_thread = self.accept_thread, None
        if lst is None:
            return
        try:
            os.write(self.wake_w, b"x")
        except OSError:
            pass
        if t is not None and t is not threading.current_thread():
            t.join(QUIESCE_TIMEOUT)
            if t.is_alive() and not self.stopping:
                raise core.InfraError("scripted peer: the accept thread did not stop within %.0f s" % QUIESCE_TIMEOUT)
        try:
            lst.close()
        except OSError:
            pass
        for fd in (self.wake_r, self.wake_w):
            try:
                os.close(fd)
            except OSError:
                pass

    def go_down(self):
        self._close_listener()
        with self.lock:
            conns, self.conns = self.conns, []
            self.deferred = []
        for c in conns:
            try:
                c.shutdown(socket.SHUT_RDWR)
            except OSError:
                pass
            try:
                c.close()
            except OSError:
                pass

    def stop(self):
        self.stopping = True
        self.go_down()
        if self.path:
            try:
                os.unlink(self.path)
            except OSError:
                pass

    def url(self):
        if self.kind == "tcp":
            return "http://127.0.0.1:%d/rpc" % self.port
        return "unix+http://%s" % self.path

    # ---- per call --------------------------------------------------------------------------
    def begin_call(self, index, script):
        """Installs the script of call `index` (requests carry their call index as token, so a request
        read late - e.g. one the client abandoned - still consumes from its own call's script)."""
        for b in script:
            if not valid_beh(b):
                raise core.InfraError("scripted peer: unknown behaviour %r" % (b,))
        with self.lock:
            self.scripts[index] = list(script)
        if script and script[0] == "down":
            self.go_down()

    def quiesce(self):
        """Waits until the peer has consumed everything the client has sent so far (a request the client
        abandoned is still read and answered into the void) and no handler is in the middle of a request.
        Not reaching that state within QUIESCE_TIMEOUT is an infrastructure failure."""
        calm = 0
        deadline = time.monotonic() + QUIESCE_TIMEOUT
        while True:
            with self.lock:
                conns = list(self.conns)
                active = self.active
            readable = []
            if conns:
                try:
                    readable, _, _ = select.select(conns, [], [], 0)
                except (OSError, ValueError):
                    readable = [1]  # a connection was closed under us: look again
            if active == 0 and not readable:
                calm += 1
                if calm >= 2:
                    return
            else:
                calm = 0
            if time.monotonic() > deadline:
                raise core.InfraError("scripted peer did not become idle within %.0f s (active handlers=%d, readable connections=%d)"
                                      % (QUIESCE_TIMEOUT, active, len(readable)))
            time.sleep(0.0005)

    def end_call(self):
        """Returns the number of connections on which late bytes were sent (the caller may want to wait until they
        have reached the client's socket)."""
        self.quiesce()
        with self.lock:
            deferred, self.deferred = self.deferred, []
        sent = 0
        for c, data in deferred:
            try:
                c.sendall(data)
                sent += 1
                with self.lock:
                    self.dirty.add(id(c))
            except OSError:
                pass
        self.late_sent += sent
        if self.is_down and not self.stopping:
            self.come_up()
        return sent

    def _next_beh(self, tok):
        with self.lock:
            sc = self.scripts.get(tok)
            if sc is None:
                return "ok", None
            if sc and sc[0] == "down":
                # a down marker at the head is consumed by the connection attempt that it refuses
                sc.pop(0)
            b = sc.pop(0) if sc else "ok"
            nxt = sc[0] if sc else None
        return b, nxt

    # ---- socket handling -------------------------------------------------------------------
    def _accept_loop(self, lst, wake_r):
        while True:
            try:
                r, _, _ = select.select([lst, wake_r], [], [])
            except (OSError, ValueError):
                return
            if wake_r in r:
                return
            try:
                c, _ = lst.accept()
            except OSError:
                return
            with self.lock:
                self.conns.append(c)
            t = threading.Thread(target=self._serve, args=(c,))
            t.daemon = True
            t.start()

    def _read_request(self, c, on_data):
        buf = b""
        c.settimeout(60)
        first = True
        while b"\r\n\r\n" not in buf:
            d = c.recv(65536)
            if not d:
                return None
            if first:
                on_data()
                first = False
            buf += d
        head, rest = buf.split(b"\r\n\r\n", 1)
        length = 0
        for ln in head.split(b"\r\n")[1:]:
            k, _, v = ln.partition(b":")
            if k.strip().lower() == b"content-length":
                length = int(v.strip())
        while len(rest) < length:
            d = c.recv(65536)
            if not d:
                return None
            rest += d
        return rest[:length]

    def _serve(self, c):
        try:
            while True:
                started = []

                def on_data():
                    # from the first byte of a request until its behaviour has been applied the handler is busy
                    with self.lock:
                        self.active += 1
                    started.append(1)
                try:
                    body = self._read_request(c, on_data)
                except (OSError, ValueError):
                    body = None
                try:
                    keep = body is not None and self._handle(c, body)
                finally:
                    if started:
                        with self.lock:
                            self.active -= 1
                if not keep:
                    return
        finally:
            with self.lock:
                if c in self.conns:
                    self.conns.remove(c)
            try:
                c.close()
            except OSError:
                pass

    def _handle(self, c, body):
        if body is None:
            return False
        try:
            req = json.loads(body.decode("utf-8"))
            tok = req["params"][0]
            rid = req.get("id")
        except Exception:
            tok, rid = None, None
        beh, nxt = self._next_beh(tok)
        with self.lock:
            shadowed = id(c) in self.dirty
        self.seen.append((tok, beh, shadowed))
        if nxt == "down":
            # the peer goes down right after this exchange: stop listening first
            self._close_listener()
        keep = self._apply(c, beh, tok, rid)
        if not keep:
            # close before reporting idle, so that the client-visible effect is complete
            with self.lock:
                if c in self.conns:
                    self.conns.remove(c)
                self.deferred = [(dc, d) for (dc, d) in self.deferred if dc is not c]
            try:
                c.close()
            except OSError:
                pass
        return keep

    @staticmethod
    def _reply(status, reason, body, length="auto", extra=b""):
        head = ("HTTP/1.1 %d %s\r\n" % (status, reason)).encode()
        if length == "auto":
            head += ("Content-Length: %d\r\n" % len(body)).encode()
        elif length is not None:
            head += ("Content-Length: %d\r\n" % length).encode()
        head += b"Content-Type: application/json\r\n" + extra + b"\r\n"
        return head + body

    def _send(self, c, status, reason, body, length="auto", extra=b""):
        c.sendall(self._reply(status, reason, body, length, extra))

    @staticmethod
    def _result(rid, tok):
        return json.dumps({"jsonrpc": "2.0", "id": rid, "result": tok}).encode()

    def _status_body(self, kind, tok, rid, plain):
        if kind == "o":
            return self._result(rid, tok)
        if kind == "f":
            return self._result(rid, (tok if isinstance(tok, int) else 0) + FOREIGN)
        if kind == "e":
            return json.dumps({"jsonrpc": "2.0", "id": rid, "error": {"code": -32603, "message": "Server error"}}).encode()
        return plain

    def _defer(self, c, data):
        with self.lock:
            self.deferred.append((c, data))

    def _apply(self, c, beh, tok, rid):
        ok_body = self._result(rid, tok)
        try:
            if beh == "ok":
                self._send(c, 200, "OK", ok_body)
                return True
            if beh == "okc":
                self._send(c, 200, "OK", ok_body)
                return False
            if beh == "cbr":
                return False
            if beh == "rst":
                c.setsockopt(socket.SOL_SOCKET, socket.SO_LINGER, struct.pack("ii", 1, 0))
                return False
            m = re.match(r"^(snl|sl)(\d+)([ofe]?)$", beh)
            if m:
                code = int(m.group(2))
                if m.group(1) == "snl":
                    self._send(c, code, "Err", self._status_body(m.group(3), tok, rid, b"oops"), length=None)
                    return False
                self._send(c, code, "Err", self._status_body(m.group(3), tok, rid, b"error"))
                return True
            if beh.startswith("blz"):
                c.sendall(("HTTP/1.1 %d No Content\r\nContent-Length: 0\r\n\r\n" % int(beh[3:])).encode())
                return True
            if beh.startswith("bl"):
                c.sendall(("HTTP/1.1 %d No Content\r\n\r\n" % int(beh[2:])).encode())
                return True
            if beh.startswith("xn"):
                # one segment: the client's buffered reader takes both, the second reply is lost with the first response
                c.sendall(self._reply(200, "OK", ok_body) + self._reply(200, "OK", self._result(rid, int(beh[2:]))))
                return True
            if beh.startswith("xl"):
                self._send(c, 200, "OK", ok_body)
                self._defer(c, self._reply(200, "OK", self._result(rid, int(beh[2:]))))
                return True
            if beh.startswith("sx"):
                c.sendall(self._reply(int(beh[2:]), "Err", b"error" + SURPLUS, length=5))
                return True
            if beh.startswith("sy"):
                self._send(c, int(beh[2:]), "Err", b"error", length=5)
                self._defer(c, SURPLUS)
                return True
            if beh.startswith("sz"):
                code, k = beh[2:].split("_")
                self._send(c, int(code), "Err", b"error", length=5)
                self._defer(c, SURPLUS + self._reply(200, "OK", self._result(rid, int(k))))
                return True
            if beh == "trunc":
                self._send(c, 200, "OK", ok_body[: max(1, len(ok_body) // 2)], length=len(ok_body) + 20)
                return False
            if beh == "empty":
                self._send(c, 200, "OK", b"")
                return True
            if beh == "nonjson":
                self._send(c, 200, "OK", b"<html>no</html>")
                return True
        except OSError:
            return False
        raise core.InfraError("scripted peer: behaviour %r not implemented" % (beh,))
