"""
Common machinery of C09/C10/C11: client programs run against the REAL jsonrpclib.threadpool.ThreadPool
under harness/sched.py, the per-step projection of the pool, the monitors (written from the property
statements, independent of the Lean model), the translation of a real execution into model actions
for the lockstep correspondence (`pool` driver component), program generators, schedule shrinking,
bounded-preemption DFS and replay.

Program (JSON-able):
  {"max": 3, "min": 0, "qsize": 0, "klass": "L1|L2|G|R|S|W|F|N", "clients": [[op, ...], ...],
   "startfail": [indices of the Thread.start() calls that raise RuntimeError]  (class F),
   "timeout": null  (class N: ThreadPool(..., timeout=None); absent = 60)}
  op = ["start"] | ["stop"] | ["clear"] | ["join"] | ["join_t"] | ["join_0", 0 | 0.0] | ["enq", kind, gate, variant?]
       | ["wait", k] | ["wait_0", k, z?] | ["result", k] | ["done", k] | ["open", gate] | ["enq_bad", what]
  kind = "ret" | "raise" | "gwait" (blocks on the gate, then returns) | "gopen" (opens the gate, then returns)
  variant = "<shape>/<value>/<args>" (default "obj/obj/std"):
     shape  obj (callable instance with __name__) | bare (callable instance WITHOUT __name__) | partial (functools.partial)
     value  what the task returns — obj (a unique truthy list) | zero (0) | empty ("") | elist (a unique []) | false | none
            — or raises — obj (ValueError("...")) | noargs (ValueError(), args == ()) | falsy (an exception whose
            __bool__ is False and __len__ is 0) | os (an OSError: the class of result()'s own time-out error)
     args   std (one tuple, kw=the tuple) | none (no argument at all) | falsy (0, kw="")
  ["wait", k] waits (with a timeout) for the k-th future obtained by the same client; ["wait_0", k] is result(0) (or
  result(z): 0.0); ["result", k] is the UNTIMED result() (only generated where the task is certain to be executed);
  ["done", k] is done() - a poll of the future, at any moment;
  ["join_0", z] is join(z) with a zero time-out; ["enq_bad", what] enqueues a non-callable (5, "x", None, object()).

Action alphabet sent to the model (one token per real step):  <role>:<label>[:<branch>]
  roles   c<i> (client thread i; the harness' final tear-down stop() is issued as c0, the controlling thread), w<j> (j-th worker started)
  labels  call.start call.stop call.clear call.join call.join_t call.enqueue call.wait:<task id> call.done:<task id>
          event.is_set[:startfail] event.set event.clear lock.acquire lock.release
          queue.qsize queue.put[:timeout] queue.get[:timeout] queue.get_nowait queue.task_done queue.join
          thread.is_alive thread.join[:timeout] cond.acquire cond.wait[:timeout]
          fut.wait[:timeout] fut.is_set fut.set task.begin task.end:ok task.end:exc
  (gate operations belong to the task bodies / the environment and are not sent; neither is `fut.published`, the second
  scheduling point of the future's Event.set() - flag raised, set() not yet returned: the model's `fut.set` step is the
  flag AND what follows it up to `queue.task_done`, which is exact as long as nothing the future reports is written
  after the flag - extracted fact `poolFuturePublishesLast` - and the projection taken between the two is compared).

Observations of a future (C09 "its FutureResult then reports done and yields the very object ... or raises the very
exception"): done(), result(1.0), result(0), result(0.0), result().  Every one of them is a scheduling point of its own,
so that it is interleaved with every operation of the worker that completes the task (task.end, fut.set, fut.published,
queue.task_done, the accounting) - by the random schedulers, and systematically by `observe_sweep`.
"""
import functools
import json
import time

import impl  # noqa: F401  (sets sys.path, silences logging)
import jsonrpclib.threadpool as tp

import sched

PHASES = {"created": "c", "queued": "q", "held": "h", "running": "r", "finished": "f", "dropped": "d"}


class FalsyError(Exception):
    """An exception object that is falsy (`__bool__` False, `__len__` 0) with empty args."""

    def __bool__(self):
        return False

    def __len__(self):
        return 0


VALUE_KINDS = ("obj", "zero", "empty", "elist", "false", "none")
EXC_KINDS = ("obj", "noargs", "falsy", "os")
SHAPES = ("obj", "bare", "partial")
ARG_KINDS = ("std", "none", "falsy")


def parse_variant(v):
    shape, value, args = (v or "obj/obj/std").split("/")
    return shape, value, args


class TaskObj(object):
    """The callable handed to enqueue() (directly, or wrapped in a functools.partial).  Its body is instrumented, the
    pool code is not.  Only the `obj` shape has a `__name__`."""

    def __init__(self, run, tid, kind, gate, client, variant=None):
        self.run = run
        self.id = tid
        self.kind = kind
        self.gate = gate
        self.client = client
        self.shape, vk, self.argkind = parse_variant(variant)
        if self.shape == "obj":
            self.__name__ = "task%d" % tid
        # the object returned (identity is checked; the falsy ones are what `x or None` would lose)
        self.value = {"obj": ["value-of", tid], "zero": 0, "empty": "", "elist": [], "false": False, "none": None}.get(
            vk, ["value-of", tid])
        if kind == "raise" and vk == "noargs":
            self.exc = ValueError()
        elif kind == "raise" and vk == "falsy":
            self.exc = FalsyError()
        elif kind == "raise" and vk == "os":
            # the class result() itself raises on a time-out: only the identity tells the task's exception from it
            self.exc = OSError("exception-of-%d" % tid)
        else:
            self.exc = ValueError("exception-of-%d" % tid)
        if self.argkind == "none":
            self.args, self.kwargs = (), {}
        elif self.argkind == "falsy":
            self.args, self.kwargs = (0,), {"kw": ""}
        else:
            self.arg = ("arg-of", tid)
            self.args, self.kwargs = (self.arg,), {"kw": self.arg}
        self.callee = functools.partial(self) if self.shape == "partial" else self
        self.begun = 0
        self.ended = False
        self.inbody = False
        self.accepted_at = None
        self.begin_at = None
        self.end_at = None
        self.taken_by = None
        self.dropped = False
        self.future = None
        self.bad_args = False
        self.accounted = False  # the worker that ran it has called queue.task_done() for it
        self.reported = None    # step at which a client was first TOLD that the future is done (done() True / result() answered)

    def __call__(self, *args, **kwargs):
        r = self.run
        s = r.s
        s.yield_op("task.begin")
        self.begun += 1
        self.begin_at = len(s.trace) - 1
        self.inbody = True
        if not (len(args) == len(self.args) and all(a is b for a, b in zip(args, self.args))
                and sorted(kwargs) == sorted(self.kwargs) and all(kwargs[k] is self.kwargs[k] for k in kwargs)):
            self.bad_args = True
        r.on_begin(self)
        if self.kind == "gwait":
            r.gates[self.gate].wait()
        elif self.kind == "gopen":
            r.gates[self.gate].set()
        s.yield_op("task.end:exc" if self.kind == "raise" else "task.end:ok")
        self.inbody = False
        self.ended = True
        self.end_at = len(s.trace) - 1
        if self.kind == "raise":
            raise self.exc
        return self.value


def task_of(method):
    """The TaskObj behind the callable that was queued (a functools.partial wraps it)."""
    return method.func if isinstance(method, functools.partial) else method


class Call(object):
    __slots__ = ("client", "api", "begin", "end", "ret", "arg", "accepted_before", "flag_at_begin", "proj_at_begin",
                 "enq_during", "overlap_stop", "nops", "told_before", "obs_end")

    def __init__(self, client, api, begin, arg=None):
        self.client = client
        self.api = api
        self.begin = begin
        self.end = None
        self.ret = "-"
        self.arg = arg
        self.accepted_before = None
        self.flag_at_begin = None
        self.proj_at_begin = None
        self.enq_during = False
        self.overlap_stop = False
        self.nops = 0
        self.told_before = False  # observation of a future: a client had already been told that it is done
        self.obs_end = None       # ... and where the worker of that task stood when this observation was answered


class Run(object):
    """One execution of a program on the real pool."""

    def __init__(self, program, chooser, max_steps=1500, monitors=True):
        self.program = program
        self.max = program["max"]
        self.min = program["min"]
        self.qsize = program["qsize"]
        self.klass = program.get("klass", "W")
        self.scripts = program["clients"]
        self.s = sched.Scheduler(chooser, max_steps=max_steps)
        self.s.fail_starts = frozenset(program.get("startfail") or ())
        self.s.post_set = frozenset(("fut",))  # a reader may run between the future's flag and the writer's next line
        self.timeout_none = "timeout" in program and program["timeout"] is None
        # W: several controlling threads; F: Thread.start() may fail; N: timeout=None.  None of them is judged for
        # termination / progress (the theorems assume one controller, no failing start, a finite time-out).
        self.live_judged = self.klass not in ("W", "F", "N")
        self.growth_judged = self.klass not in ("W", "F")
        self.monitors = monitors
        self.tasks = []
        self.calls = []
        self.cur_call = {}
        self.last_ret = {}
        self.violations = []
        self.gates = {}
        self.begin_order = []
        self.accept_order = []
        self.stopped_quiet = True  # no start() since construction / since the last return of stop()
        self.floor_on = False
        self.worker_serving = {}  # role -> bool
        self.worker_counted = {}  # role -> bool: started and has not yet executed its decrement of nb_threads
        self.status = None
        self.pool = None
        self.nclients = len(self.scripts)
        self.stop_in_progress = 0
        self.leaked = 0
        self.prev_nt = 0
        self.client_steps = {}
        self.last_core = None

    # ---- violations ------------------------------------------------------------------------
    def violate(self, prop, key, detail, api=False):
        # api: the violation was OBSERVED through the public API by a client of the program (reported first)
        self.violations.append({"property": prop, "key": key, "detail": detail, "step": len(self.s.trace) - 1, "api": api})

    # ---- reading the pool --------------------------------------------------------------------
    def attr(self, name):
        return getattr(self.pool, "_ThreadPool__" + name)

    def flag(self):
        return self.pool._done_event._flag

    def queue_items(self):
        out = []
        for it in self.pool._queue.queue:
            if it is self.pool._done_event:
                out.append("S")
            else:
                out.append(str(task_of(it[0]).id))
        return out

    def phase(self, t):
        if t.dropped:
            return "dropped"
        if t.ended:
            return "finished"
        if t.begun:
            return "running"
        if t.taken_by is not None:
            return "held"
        if t.accepted_at is not None:
            return "queued"
        return "created"

    def fut_state(self, t):
        f = t.future
        if f is None:
            return "-"
        ev = f._done_event
        if not ev._EventData__event._flag:
            return "-"
        return "o" if ev._EventData__exception is None else "e"

    def role_index(self, role):
        return (0, int(role[1:])) if role[0] == "c" else (1, int(role[1:]))

    def next_label(self, t):
        if t.dead:
            return "call" if t.role[0] == "c" else "end"
        lab = t.pending.label
        if t.role[0] == "c":
            if lab.startswith("call.") or lab.startswith("gate."):
                return "call"
            return lab
        if lab.startswith("gate.") or lab.startswith("task.end"):
            return "task.end"
        if lab == "fut.published":
            # inside the future's Event.set(), flag raised: the model's worker has executed `fut.set`
            return "queue.task_done"
        return lab

    def worker_label_of(self, t):
        """Next operation of the worker that took task t ("unassigned" / "ended" when there is none)."""
        if t.taken_by is None:
            return "unassigned"
        if t.accounted:
            return "accounted"  # the worker has reported the task with task_done() and may be busy with another one
        for th in self.s.threads:
            if th.role == t.taken_by:
                if th.dead or th.pending is None:
                    return "ended"
                lab = th.pending.label
                return "task.body" if lab.startswith("gate.") else lab
        return "unassigned"

    def projection(self):
        p = self.pool
        lk = self.attr("lock")
        owner = lk.owner.role if isinstance(lk.owner, sched.MThread) else "-"
        ths = []
        for th in p._threads:
            ths.append(th.role if getattr(th, "role", None) else "?")
        tk = ["%s%s" % (PHASES[self.phase(t)], self.fut_state(t)) for t in self.tasks]
        ops = {}
        for i in range(self.nclients):
            ops["c%d" % i] = "call"
        for t in self.s.threads:
            ops[t.role] = self.next_label(t)
        opl = ["%s:%s" % (r, ops[r]) for r in sorted(ops, key=self.role_index)]
        rets = ["c%d:%s" % (i, self.last_ret.get(i, "-")) for i in range(self.nclients)]
        return "f=%d lk=%s/%d q=[%s] u=%d nt=%d na=%d np=%d th=[%s] tk=[%s] ops=[%s] ret=[%s]" % (
            1 if self.flag() else 0, owner, lk.depth, ",".join(self.queue_items()), p._queue.unfinished_tasks,
            self.attr("nb_threads"), self.attr("nb_active_threads"), self.attr("nb_pending_task"),
            ",".join(ths), ",".join(tk), ",".join(opl), ",".join(rets))

    def core_projection(self):
        """The pool part of the projection (no per-thread next operations, no return values)."""
        return self.projection().split(" ops=")[0]

    # ---- hooks called from inside the running slice -------------------------------------------
    def on_get(self, item, role, nowait):
        if item is self.pool._done_event:
            if role is not None and role[0] == "w":
                self.worker_serving[role] = False
            return
        t = task_of(item[0])
        if nowait:
            t.dropped = True
        else:
            t.taken_by = role

    def on_begin(self, t):
        self.begin_order.append(t.id)
        if not self.monitors:
            return
        if t.begun > 1:
            self.violate("C09", "executed-twice", "task %d began %d times" % (t.id, t.begun))
        if t.bad_args:
            self.violate("C09", "wrong-arguments", "task %d was not called with its own arguments" % t.id)
        if self.stopped_quiet and self.klass != "W":
            self.violate("C09", "begin-after-stop",
                         "task %d began after stop() returned / before any start()" % t.id)
        if self.max == 1:
            started = [x for x in self.accept_order if self.tasks[x].begun]
            mine = self.accept_order.index(t.id) if t.id in self.accept_order else -1
            later_started = [x for x in self.accept_order[mine + 1:] if self.tasks[x].begun and x != t.id]
            if later_started:
                self.violate("C09", "fifo-single", "max_threads=1: task %d began after %r which were accepted later"
                             % (t.id, later_started))
            del started

    def begin_call(self, i, api, arg=None):
        c = Call(i, api, len(self.s.trace) - 1, arg)
        c.accepted_before = list(self.accept_order)
        c.flag_at_begin = self.flag()
        c.overlap_stop = self.stop_in_progress > 0
        c.nops = self.client_steps.get(i, 0)
        self.calls.append(c)
        self.cur_call[i] = c
        self.last_ret[i] = "-"
        if api == "stop":
            self.stop_in_progress += 1
            self.floor_on = False
            for o in self.cur_call.values():
                if o is not None:
                    o.overlap_stop = True
        if api == "start":
            self.stopped_quiet = False
        return c

    def end_call(self, i, ret):
        c = self.cur_call.get(i)
        c.end = len(self.s.trace) - 1
        c.ret = ret
        self.last_ret[i] = ret
        self.cur_call[i] = None
        if c.api == "stop":
            self.stop_in_progress -= 1
        if self.monitors:
            self.check_call_return(c)
        if c.api == "stop" and self.klass != "W":
            self.stopped_quiet = True
        if c.api == "start" and not c.overlap_stop and self.klass != "W":
            self.floor_on = True

    # ---- monitors: C11 / C09 at call return ---------------------------------------------------
    def check_call_return(self, c):
        p = self.pool
        if c.api in ("join", "join_t", "join_0"):
            unfinished = [t for t in c.accepted_before if not (self.tasks[t].ended and self.fut_state(self.tasks[t]) != "-")]
            not_done = [t for t in unfinished if not self.tasks[t].dropped]
            dropped = [t for t in unfinished if self.tasks[t].dropped]
            if c.ret == "T":
                if not_done:
                    self.violate("C11", "join-true-unfinished",
                                 "%s() returned True while tasks %r enqueued before the call have not finished" % (c.api, not_done))
                if dropped and self.klass in ("L2", "G"):
                    self.violate("C11", "join-true-dropped", "tasks %r were dropped without any stop/clear" % dropped)
            elif c.ret == "F":
                if p._queue.unfinished_tasks == 0:
                    self.violate("C11", "join-false-all-done",
                                 "join(timeout) returned False although no accepted task is unfinished")
                # (a task counts as finished here once its worker has also reported it with task_done(): between the end of
                # the body and that call nothing tells the pool that it is over — join(0) may poll inside that window)
                unreported = [t for t in c.accepted_before if not self.tasks[t].accounted and not self.tasks[t].dropped]
                if not c.enq_during and not unfinished and not unreported and not c.overlap_stop and c.flag_at_begin is False:
                    self.violate("C11", "join-false-finished",
                                 "join(timeout) returned False although every task enqueued before it had finished "
                                 "and none was enqueued during the call")
        if c.api == "stop" and self.klass != "W":
            alive = [t.role for t in self.s.threads if t.role[0] == "w" and not t.dead]
            if alive:
                self.violate("C11", "stop-workers-alive", "stop() returned while worker threads %r are alive" % alive)
                serving = [r for r in alive if self.worker_serving.get(r)]
                if serving:
                    # C09 "no task is ever executed after stop() has returned": a worker that may still read the queue
                    # will run whatever is enqueued on the stopped pool
                    self.violate("C09", "worker-serving-after-stop",
                                 "stop() returned while workers %r can still take a task from the queue" % serving)
            if (self.attr("nb_threads"), self.attr("nb_active_threads"), len(p._threads)) != (0, 0, 0):
                self.violate("C11", "stop-not-fresh", "after stop(): nb_threads=%d nb_active=%d len(_threads)=%d"
                             % (self.attr("nb_threads"), self.attr("nb_active_threads"), len(p._threads)))
            if self.attr("nb_pending_task") != len([x for x in p._queue.queue if x is not p._done_event]) or \
                    p._queue.unfinished_tasks != len(p._queue.queue):
                self.violate("C11", "stop-not-fresh", "after stop(): pending=%d unfinished=%d queue=%r (not a fresh pool's accounting)"
                             % (self.attr("nb_pending_task"), p._queue.unfinished_tasks, self.queue_items()))
        if c.api == "start" and not c.overlap_stop and self.klass != "W" and self.flag():
            self.violate("C11", "start-not-running", "start() returned but the pool is still flagged as stopped")
        if c.api == "start" and c.flag_at_begin is False or c.api == "stop" and c.flag_at_begin is True:
            # redundant call: must be a single operation changing nothing
            if self.klass == "W":
                pass
            elif self.client_steps.get(c.client, 0) - c.nops != 1:
                self.violate("C11", "idempotent", "redundant %s() performed %d operations" % (c.api, self.client_steps.get(c.client, 0) - c.nops))
            elif self.last_core is not None and self.last_core != self.core_projection():
                self.violate("C11", "idempotent", "redundant %s() changed the pool: %s -> %s"
                             % (c.api, self.last_core, self.core_projection()))

    # ---- monitors evaluated after every step -----------------------------------------------------
    def after_step(self, st):
        nt = self.attr("nb_threads")
        if st.role[0] == "w":
            if st.label == "queue.task_done":
                for t in self.tasks:
                    if t.taken_by == st.role and t.ended and not t.accounted:
                        t.accounted = True
            if st.label == "event.is_set" and st.res is True:
                self.worker_serving[st.role] = False
            if nt < self.prev_nt:
                # whatever the operation: the worker has just executed a decrement of nb_threads
                self.worker_serving[st.role] = False
                self.worker_counted[st.role] = False
        for t in self.s.threads:
            if t.role[0] == "w" and t.role not in self.worker_serving:
                self.worker_serving[t.role] = True
                self.worker_counted[t.role] = True
            if t.role[0] == "w" and t.dead:
                self.worker_serving[t.role] = False
        self.prev_nt = nt
        # redundant-call bookkeeping: the projection right after the call.* step
        if st.role[0] == "c":
            i = int(st.role[1:])
            self.client_steps[i] = self.client_steps.get(i, 0) + 1
        st.proj = self.projection()
        self.last_core = st.proj.split(" ops=")[0]
        if not self.monitors:
            return
        inbody = sum(1 for t in self.tasks if t.inbody)
        serving = sum(1 for v in self.worker_serving.values() if v)
        counted = sum(1 for v in self.worker_counted.values() if v)
        if nt != counted:
            # "thread counter must track live workers exactly" (C10 anchor): started workers that have not yet given
            # their count back — a Thread.start() that failed started nothing and must count nothing
            self.violate("C10", "counter-drift", "nb_threads=%d but %d started workers still hold their count%s"
                         % (nt, counted, " (after a failed Thread.start())" if any(x.fail for x in self.s.trace) else ""))
        self.check_zero_calls()
        if inbody > self.max:
            self.violate("C10", "running-gt-max", "%d tasks inside their body, max_threads=%d" % (inbody, self.max))
        if serving > self.max or nt > self.max:
            self.violate("C10", "serving-gt-max", "%d serving workers (nb_threads=%d), max_threads=%d" % (serving, nt, self.max))
        if self.floor_on and self.growth_judged and serving < self.min:
            self.violate("C10", "below-min", "%d serving workers after start() returned, min_threads=%d" % (serving, self.min))
        for t in self.tasks:
            fs = self.fut_state(t)
            if fs != "-":
                f = t.future._done_event
                if not t.ended:
                    self.violate("C09", "future-early", "future of task %d done before the task ended" % t.id)
                elif t.kind == "raise":
                    if f._EventData__exception is not t.exc:
                        self.violate("C09", "future-unfaithful", "future of task %d does not hold the raised exception" % t.id)
                elif f._EventData__data is not t.value or f._EventData__exception is not None:
                    self.violate("C09", "future-unfaithful", "future of task %d does not hold the returned object" % t.id)

    def check_zero_calls(self):
        """join(0) / result(0) are polls: the calling thread must never be blocked inside such a call."""
        for t in self.s.threads:
            if t.dead or t.role[0] != "c" or t.pending is None:
                continue
            c = self.cur_call.get(int(t.role[1:]))
            if c is None or c.api not in ("join_0", "wait_0") or c.ret == "blocked":
                continue
            if t.pending.blocked():
                c.ret = "blocked"
                if c.api == "join_0":
                    self.violate("C11", "join0-blocks",
                                 "join(%r) — a zero time-out — is blocked in %s instead of answering at once (unfinished=%d)"
                                 % (c.arg, t.pending.label, self.pool._queue.unfinished_tasks))
                else:
                    self.violate("C16", "result0-blocks", "result(0) of task %r is blocked in %s" % (c.arg, t.pending.label))

    def on_quiescent_failed_starts(self):
        """
        Class F (some Thread.start() calls fail): a task may legitimately be left without a worker — but only when the
        attempt to start one for it failed.  Quiescent running pool, nobody inside start()/stop()/clear()/enqueue, a task
        queued, NO worker able to take it, and no Thread.start() has failed since the youngest queued task was accepted:
        either a worker existed when it was accepted (and may not have retired: nb_threads > nb_pending is false) or
        enqueue() had to start one and nothing failed.  Nobody will ever execute it.
        """
        if self.flag() or self.stopped_quiet:
            return
        if any(c is not None and c.api in ("start", "stop", "clear", "enqueue") for c in self.cur_call.values()):
            return
        queued = [int(x) for x in self.queue_items() if x != "S"]
        serving = sum(1 for v in self.worker_serving.values() if v)
        if not queued or serving:
            return
        last_accept = max(self.tasks[t].accepted_at for t in queued)
        last_fail = max([st.index for st in self.s.trace if st.fail] or [-1])
        if last_fail < last_accept:
            detail = ("quiescent running pool without any worker (nb_threads=%d), tasks %r queued, and no Thread.start() failed "
                      "after they were accepted (last failure at step %d, task accepted at step %d)"
                      % (self.attr("nb_threads"), queued, last_fail, last_accept))
            self.violate("C10", "starved-after-failed-start", detail)
            self.violate("C09", "never-executed-no-worker", detail)

    def on_quiescent(self):
        """No thread is enabled (timeouts may be pending)."""
        if self.monitors and self.klass == "F":
            self.on_quiescent_failed_starts()
        if not self.monitors or not self.growth_judged:
            return
        if self.flag():
            return
        busy = [c for c in self.cur_call.values() if c is not None and c.api in ("start", "stop", "clear", "enqueue")]
        if busy:
            return
        if self.stopped_quiet:
            return
        queued = [x for x in self.queue_items() if x != "S"]
        serving = sum(1 for v in self.worker_serving.values() if v)
        if queued and serving < self.max:
            self.violate("C10", "starved",
                         "quiescent running pool: tasks %r queued, only %d serving workers (all busy), max_threads=%d"
                         % (queued, serving, self.max))

    # ---- client threads ---------------------------------------------------------------------
    def client_main(self, i, script):
        s = self.s
        pool = self.pool
        futs = []
        for op in script:
            name = op[0]
            if name == "open":
                self.gates[op[1]].set()
            elif name == "start":
                s.yield_op("call.start")
                self.begin_call(i, "start")
                pool.start()
                self.end_call(i, "N")
            elif name == "stop":
                s.yield_op("call.stop")
                self.begin_call(i, "stop")
                pool.stop()
                self.end_call(i, "N")
            elif name == "clear":
                s.yield_op("call.clear")
                self.begin_call(i, "clear")
                pool.clear()
                self.end_call(i, "N")
            elif name == "join":
                s.yield_op("call.join")
                self.begin_call(i, "join")
                r = pool.join()
                self.end_call(i, "T" if r is True else "F" if r is False else "?")
            elif name == "join_t":
                s.yield_op("call.join_t")
                self.begin_call(i, "join_t")
                r = pool.join(1.0)
                self.end_call(i, "T" if r is True else "F" if r is False else "?")
            elif name == "join_0":
                # a poll: join(0) / join(0.0) must answer at once (the model's join(t) whose wait times out at once)
                z = op[1] if len(op) > 1 else 0
                s.yield_op("call.join_t")
                self.begin_call(i, "join_0", z)
                r = pool.join(z)
                self.end_call(i, "T" if r is True else "F" if r is False else "?")
            elif name == "enq_bad":
                # not a pool operation of the model: enqueue() must refuse a non-callable with the documented ValueError
                what = {"int": 5, "str": "x", "none": None, "obj": object()}[op[1]]
                if self.monitors:
                    try:
                        pool.enqueue(what)
                    except ValueError:
                        pass
                    except Exception as ex:  # noqa: BLE001
                        self.violate("C09", "enqueue-bad-callable", "enqueue(%r) raised %s instead of the documented ValueError"
                                     % (what, type(ex).__name__))
                    else:
                        self.violate("C09", "enqueue-bad-callable", "enqueue(%r) accepted a non-callable" % (what,))
            elif name == "enq":
                s.yield_op("call.enqueue")
                t = TaskObj(self, len(self.tasks), op[1], op[2] if len(op) > 2 else None, i, op[3] if len(op) > 3 else None)
                self.tasks.append(t)
                self.begin_call(i, "enqueue", t.id)
                try:
                    f = pool.enqueue(t.callee, *t.args, **t.kwargs)
                except sched.Full:
                    futs.append(None)
                    self.end_call(i, "Full")
                else:
                    if f is not t.future:
                        self.violate("C09", "future-identity", "enqueue returned a future that is not the queued one")
                    futs.append(t)
                    self.end_call(i, "fut")
            elif name in ("wait", "wait_0", "result", "done"):
                k = op[1]
                if k >= len(futs) or futs[k] is None:
                    continue
                self.observe(i, name, futs[k], op[2] if len(op) > 2 else None)
            else:
                raise ValueError("unknown client operation %r" % (op,))

    # ---- observations of a future through the public API (monitors from the statement of C09) ----------------
    def observe(self, i, name, t, z=None):
        """
        done() / result(1.0) / result(0 | 0.0) / result() on the future of task t.  Monitor: a future that reports done
        belongs to a task that has ended; result() that answers (no time-out) returns THE object the task returned or
        raises THE exception it raised; and once any client has been told that the future is done (done() True, or a
        result() that answered) every later done() is True and every later result(), whatever its time-out, answers at
        once with that same outcome.
        """
        s = self.s
        mon = self.monitors
        if name == "done":
            s.yield_op("call.done", arg=t.id)
            c = self.begin_call(i, "done", t.id)
            c.told_before = t.reported is not None
            b = t.future.done()
            c.obs_end = self.worker_label_of(t)
            if mon and b is True and not t.ended:
                self.violate("C09", "future-early", "done() of task %d is True before the task ended" % t.id, api=True)
            if mon and b is not True and c.told_before:
                self.violate("C09", "done-unstable", "done() of task %d answered %r after a client had been told (step %d) "
                             "that this future is done" % (t.id, b, t.reported), api=True)
            if b is True and t.reported is None:
                t.reported = len(s.trace) - 1
            self.end_call(i, "T" if b is True else "F" if b is False else "?")
            return
        s.yield_op("call.wait", arg=t.id)
        c = self.begin_call(i, name, t.id)
        c.told_before = t.reported is not None
        told = " although a client had been told at step %d that this future is done" % t.reported if c.told_before else ""
        key = "done-then-result" if c.told_before else "future-unfaithful"
        try:
            if name == "result":
                v = t.future.result()
            else:
                v = t.future.result(1.0 if name == "wait" else (0 if z is None else z))
        except OSError as ex:
            if ex is t.exc:
                ret = "exc"
            else:
                ret = "to"
                if mon and name == "result":
                    self.violate("C09", "untimed-result-timeout", "result() of task %d (no time-out) raised the time-out error"
                                 % t.id, api=True)
                elif mon and c.told_before:
                    self.violate("C09", "done-then-timeout", "result(%s) of task %d timed out%s"
                                 % ("1.0" if name == "wait" else "0", t.id, told), api=True)
        except Exception as ex:  # noqa: BLE001
            ret = "exc"
            if mon and ex is not t.exc:
                self.violate("C09", key, "result() of task %d raised a different exception (%s)%s"
                             % (t.id, type(ex).__name__, told), api=True)
        else:
            ret = "ok"
            if mon and t.kind == "raise":
                self.violate("C09", key, "result() of task %d returned %r instead of raising the exception the task raised%s"
                             % (t.id, v, told), api=True)
            elif mon and v is not t.value:
                self.violate("C09", key, "result() of task %d returned a different object%s" % (t.id, told), api=True)
        c.obs_end = self.worker_label_of(t)
        if mon and ret != "to" and not t.ended:
            self.violate("C09", "future-early", "result() of task %d returned before the task ended" % t.id, api=True)
        if ret != "to" and t.reported is None:
            t.reported = len(s.trace) - 1
        self.end_call(i, ret)

    def teardown_main(self, i):
        self.s.yield_op("call.stop")
        self.begin_call(i, "stop")
        self.pool.stop()
        self.end_call(i, "N")

    def on_put(self, item):
        if item is not self.pool._done_event:
            t = task_of(item[0])
            t.future = item[3]
            t.accepted_at = len(self.s.trace) - 1
            self.accept_order.append(t.id)
            for c in self.cur_call.values():
                if c is not None and c.api in ("join", "join_t", "join_0"):
                    c.enq_during = True

    # ---- the run ------------------------------------------------------------------------------
    def execute(self):
        s = self.s
        run = self
        with s.patched(tp):
            try:
                self.pool = tp.ThreadPool(self.max, self.min, self.qsize, timeout=None if self.timeout_none else 60)
                pool = self.pool
                pool._done_event.kind = "event"
                q = pool._queue
                q.on_get = self.on_get
                orig_put = q.put

                def put(item, block=True, timeout=None):
                    orig_put(item, block, timeout)
                    run.on_put(item)

                q.put = put
                ngates = 0
                for sc in self.scripts:
                    for op in sc:
                        if op[0] == "open":
                            ngates = max(ngates, op[1] + 1)
                        if op[0] == "enq" and len(op) > 2 and op[2] is not None:
                            ngates = max(ngates, op[2] + 1)
                for g in range(ngates):
                    self.gates[g] = sched.SEvent(s, "gate")
                s.after_step = self.after_step
                s.on_quiescent = self.on_quiescent
                clients = []
                for i, sc in enumerate(self.scripts):
                    clients.append(s.spawn("c%d" % i, (lambda i=i, sc=sc: self.client_main(i, sc))))
                status = s.run(until=lambda: all(c.dead for c in clients))
                if status == "done":
                    for g in self.gates.values():
                        g._flag = True
                    td = s.spawn("c0", lambda: self.teardown_main(0))
                    status = s.run(until=lambda: td.dead)
                    if status == "done":
                        status = s.run()
                self.status = status
                self.final_checks()
            finally:
                self.leaked = s.shutdown()
        return self

    def final_checks(self):
        st = self.status
        crashed = [(t.role, repr(t.crash)) for t in self.s.threads if t.crash is not None]
        if crashed and self.monitors:
            self.violate("C09", "thread-crashed", "managed threads ended with an exception: %r" % crashed)
        if not self.monitors:
            return
        if st in ("deadlock", "steplimit"):
            where = {t.role: t.pending.label for t in self.s.threads if not t.dead}
            in_stop = self.stop_in_progress > 0
            in_clear = any(c is not None and c.api == "clear" for c in self.cur_call.values())
            if not self.live_judged or (in_clear and not in_stop):
                return
            prop = "C11" if in_stop else "C10"
            self.violate(prop, "stop-" + st if in_stop else st,
                         "%s with threads at %r%s" % (st, where, " (stop() in progress)" if in_stop else ""))
            return
        if st != "done":
            return
        alive = [t.role for t in self.s.threads if not t.dead]
        if alive:
            self.violate("C11", "workers-alive-at-end", "threads still alive after stop(): %r" % alive)
        if self.klass == "W":
            return
        for t in self.tasks:
            ph = self.phase(t)
            if ph in ("held", "running"):
                self.violate("C09", "task-lost", "task %d ended the run in phase %s" % (t.id, ph))
            if ph == "finished" and (t.begun != 1 or self.fut_state(t) == "-"):
                self.violate("C09", "not-exactly-once", "task %d finished with %d executions, future %s"
                             % (t.id, t.begun, self.fut_state(t)))
            if self.klass in ("L2", "G") and t.accepted_at is not None and t.dropped:
                td_call = [c for c in self.calls if c.api == "stop"][-1]
                if self.program.get("drains") and t.accepted_at < td_call.begin:
                    self.violate("C09", "never-executed", "task %d accepted on a pool that was started and drained, but dropped" % t.id)
            if self.klass == "R" and self.program.get("drains") and t.accepted_at is not None and t.dropped:
                # class R: c0 stops and restarts the pool, then waits (with time-outs, i.e. until quiescence, every gate
                # being opened by then) for what it enqueued: a task accepted after the return of the last stop() of the
                # program and before the tear-down stop() met a pool that was (re)started and never stopped before it
                # could begin, so it must have been executed, not dropped by the tear-down.
                stops = [c for c in self.calls if c.api == "stop"]
                td_call = stops[-1]
                last_end = max([c.end for c in stops[:-1] if c.end is not None] or [-1])
                restarted = any(c.api == "start" and c.end is not None and c.begin > last_end and c.end < td_call.begin
                                for c in self.calls)
                if restarted and last_end < t.accepted_at < td_call.begin and all(c.end is not None for c in stops):
                    self.violate("C09", "never-executed",
                                 "task %d accepted after the last stop() of the program returned, on a pool that was restarted "
                                 "and drained (time-outs expire at quiescence only), was never executed (dropped by the tear-down)"
                                 % t.id)

    # ---- translation for the lockstep correspondence ----------------------------------------------
    def model_tokens(self):
        """(tokens, projections) of the steps that are model actions."""
        toks, projs = [], []
        for st in self.s.trace:
            lab = st.label
            if lab.startswith("gate.") or lab == "fut.published":
                continue
            tok = "%s:%s" % (st.role, lab)
            if lab in ("call.wait", "call.done"):
                tok += ":%d" % st.arg
            if st.timeout:
                tok += ":timeout"
            if st.fail:
                tok += ":startfail"
            toks.append(tok)
            projs.append(st.proj)
        return toks, projs

    def model_line(self):
        toks, projs = self.model_tokens()
        flags = (0 if self.klass == "W" else 1) + (2 if self.s.fail_starts else 0) + (4 if self.timeout_none else 0)
        head = "pool %d %d %d %d %d" % (self.max, self.min, self.qsize, self.nclients, flags)
        return head + (" " + " ".join(toks) if toks else ""), projs

    def schedule(self):
        return [st.role for st in self.s.trace]


# ---- program generators -------------------------------------------------------------------------------


def gen_config(rng, bounded_ok=True):
    mx = rng.choice([1, 2, 2, 3, 3])
    mn = rng.randint(0, mx)
    qs = rng.choice([0, 0, 0, 1]) if bounded_ok else 0
    return mx, mn, qs


def gen_variant(rng, kind):
    """
    How the task is presented and what it returns / raises / receives: in half of the cases something other than the
    plain named callable returning a truthy object — a callable WITHOUT __name__ (functools.partial, bare instance),
    a falsy-but-not-None result (0, "", [], False) or None, an exception with empty args or a falsy exception object,
    no arguments at all or falsy ones.
    """
    if rng.random() < 0.5:
        return None
    shape = rng.choice(SHAPES)
    value = rng.choice(EXC_KINDS if kind == "raise" else VALUE_KINDS)
    args = rng.choice(ARG_KINDS)
    return "%s/%s/%s" % (shape, value, args)


def _with_variant(rng, op):
    v = gen_variant(rng, op[1])
    return op + [v] if v is not None else op


def _enq(rng, gates_client, p_gate=0.25):
    r = rng.random()
    if gates_client and r < p_gate:
        return _with_variant(rng, ["enq", "gwait", rng.choice(gates_client)])
    if r < p_gate + 0.2:
        return _with_variant(rng, ["enq", "raise", None])
    return _with_variant(rng, ["enq", "ret", None])


def _timed_join(rng):
    """join(1.0), or in one case out of four the poll join(0) / join(0.0)."""
    if rng.random() < 0.25:
        return ["join_0", rng.choice([0, 0.0])]
    return ["join_t"]


def _wait(rng, k):
    return ["wait_0", k] if rng.random() < 0.2 else ["wait", k]


def _observe(rng, k, untimed=False):
    """
    One or two observations of the k-th future of the client: result(1.0), the polls result(0) / result(0.0) / done(),
    a poll followed by a read (done-then-result), and - only where the caller knows that the task is certain to be
    executed (pool started once and never stopped, no gate left to a blocked client) - the untimed result().
    """
    r = rng.random()
    if r < 0.15:
        return [["wait_0", k] if rng.random() < 0.7 else ["wait_0", k, 0.0]]
    if r < 0.3:
        return [["done", k]]
    if r < 0.42:
        return [["done", k], ["wait_0", k]]
    if r < 0.52:
        return [["done", k], ["wait", k]]
    if r < 0.6:
        return [["wait", k], ["done", k]]
    if r < 0.75 and untimed:
        return [["result", k]] if rng.random() < 0.6 else [["done", k], ["result", k], ["done", k]]
    return [["wait", k]]


def gen_program(rng, klass=None):
    """
    L1: one controlling thread (c0) starts/stops/restarts (and clears only while stopped); the others enqueue,
        wait (timed) and join(timeout); gates are opened by a dedicated thread that never blocks.
    L2: the pool is started once and never stopped by the program; any client may also call join().
    G : L2 with gate-dependent tasks (waiters whose gate is opened by another *task*), at most max-1 such waiters;
        every client enqueues first and blocks afterwards, unbounded queue: never a deadlock by construction.
    W : anything on any thread (concurrent start/stop/clear): lockstep correspondence and the pure safety monitors only.
    R : restart after a busy stop (gen_restart): stop() while a gate-blocked task runs, start again, enqueue, wait.
    S : stop, then enqueue WITHOUT restarting (gen_stop_enqueue): nothing may run once stop() has returned.
    F : class L1 with some Thread.start() calls failing (RuntimeError): correspondence + safety monitors + exact
        thread accounting; not judged for growth / progress (the theorems assume that thread creation never fails).
    N : class L1 on a pool built with timeout=None (unvalidated by the constructor): correspondence + safety monitors,
        not judged for termination (stop() / enqueue may block for ever in an untimed queue.put).
    (GR: gen_gate_race, a shape of class G.)
    In L1 the other clients may also call the untimed join() (then c0 ends with the pool running, so that every join
    returns); every class mixes join(0)/result(0) polls, nameless callables, falsy results and enqueue(non-callable).
    """
    if klass is None:
        klass = rng.choice(["L1", "L1", "L2", "G", "G", "W"])
    if klass == "GR":
        return gen_gate_race(rng)
    if klass == "R":
        return gen_restart(rng)
    if klass == "S":
        return gen_stop_enqueue(rng)
    if klass == "F":
        p = gen_program(rng, "L1")
        p["klass"] = "F"
        p["startfail"] = sorted(set(rng.randrange(0, 5) for _ in range(rng.choice([1, 1, 2]))))
        return p
    if klass == "N":
        p = gen_program(rng, "L1")
        p["klass"] = "N"
        p["timeout"] = None
        if rng.random() < 0.5:
            p["qsize"] = 1
        return p
    mx, mn, qs = gen_config(rng, bounded_ok=(klass != "G"))
    nclients = rng.choice([1, 2, 2, 3])
    budget = rng.randint(3, 8)
    scripts = [[] for _ in range(nclients)]
    opener = []
    ngates = 0
    drains = False

    def new_gate():
        nonlocal ngates
        ngates += 1
        opener.append(["open", ngates - 1])
        return ngates - 1

    if klass == "G":
        # dependent group(s): waiters + one opener task per gate; total waiters <= max-1
        waiters = rng.randint(1, mx - 1) if mx > 1 else 0
        items = []
        if waiters:
            g = 0
            ngates = 1
            split = rng.random() < 0.3 and waiters >= 2
            for w in range(waiters):
                gg = 1 if (split and w % 2) else g
                items.append(["enq", "gwait", gg])
            items.append(["enq", "gopen", 0])
            if split:
                ngates = 2
                items.append(["enq", "gopen", 1])
        for _ in range(rng.randint(0, 3)):
            items.append(_enq(rng, [], 0))
        rng.shuffle(items)
        for it in items:
            scripts[rng.randrange(nclients)].append(it)
        # start somewhere in c0's enqueues
        scripts[0].insert(rng.randint(0, len(scripts[0])), ["start"])
        for i in range(nclients):
            n = len([o for o in scripts[i] if o[0] == "enq"])
            for _ in range(rng.randint(0, 2)):
                r = rng.random()
                if n and r < 0.5:
                    scripts[i].extend(_observe(rng, rng.randrange(n), untimed=True))
                elif r < 0.8:
                    scripts[i].append(["join"])
                else:
                    scripts[i].append(_timed_join(rng))
        if rng.random() < 0.7:
            for sc in scripts:
                sc.append(["join"])
            drains = True
    elif klass in ("L1", "L2"):
        gates = []
        running = False
        others_join = False
        for k in range(budget):
            i = 0 if k == 0 else rng.randrange(nclients)
            sc = scripts[i]
            n = len([o for o in sc if o[0] == "enq"])
            r = rng.random()
            if i == 0 and not running and r < 0.5:
                sc.append(["start"])
                running = True
            elif i == 0 and klass == "L1" and running and r < 0.2:
                sc.append(["stop"])
                running = False
            elif i == 0 and klass == "L1" and r < 0.25:
                sc.append(["start"] if running or rng.random() < 0.5 else ["stop"])  # redundant calls
                if sc[-1] == ["start"]:
                    running = True
            elif i == 0 and klass == "L1" and not running and r < 0.3:
                sc.append(["clear"])
            elif r < 0.62:
                if rng.random() < 0.25:
                    gates.append(new_gate())
                sc.append(_enq(rng, gates))
            elif r < 0.65:
                sc.append(["enq_bad", rng.choice(["int", "str", "none", "obj"])])
            elif n and r < 0.8:
                # (L2: the pool is started by c0 before c0 blocks anywhere and is never stopped: every task is executed)
                sc.extend(_observe(rng, rng.randrange(n), untimed=(klass == "L2" and (i != 0 or running))))
            elif r < 0.9:
                sc.append(_timed_join(rng))
            elif klass == "L1" and i != 0:
                # the untimed join() on a client that is not the controlling thread: concurrent with stop()/start()
                if rng.random() < 0.5:
                    sc.append(["join"])
                    others_join = True
                else:
                    sc.append(_timed_join(rng))
            elif (klass == "L2" and i != 0) or (i == 0 and running):
                sc.append(["join"])
            else:
                sc.append(_timed_join(rng))
        if klass == "L1" and others_join and not running:
            scripts[0].append(["start"])  # so that every untimed join() of the other clients returns
        if klass == "L2":
            if ["start"] not in scripts[0]:
                joins = [k for k, o in enumerate(scripts[0]) if o[0] in ("join", "result")]
                scripts[0].insert(rng.randint(0, joins[0] if joins else len(scripts[0])), ["start"])
            if rng.random() < 0.5 and qs == 0:
                for sc in scripts:
                    sc.append(["join"])
                drains = True
    else:  # W
        gates = []
        for k in range(budget):
            sc = scripts[rng.randrange(nclients)]
            n = len([o for o in sc if o[0] == "enq"])
            r = rng.random()
            if r < 0.2:
                sc.append(["start"])
            elif r < 0.32:
                sc.append(["stop"])
            elif r < 0.37:
                sc.append(["clear"])
            elif r < 0.7:
                if rng.random() < 0.25:
                    gates.append(new_gate())
                sc.append(_enq(rng, gates))
            elif n and r < 0.82:
                sc.extend(_observe(rng, rng.randrange(n)))
            elif r < 0.87:
                sc.append(["join"])
            else:
                sc.append(_timed_join(rng))
    if opener:
        rng.shuffle(opener)
        scripts.append(opener)
    return {"max": mx, "min": mn, "qsize": qs, "klass": klass, "clients": scripts, "drains": drains}


def gen_gate_race(rng):
    """
    Class G, shaped for accounting races between a worker that has just finished a task (and evaluates its retirement)
    and workers created for a burst of dependent tasks: quick tasks first, then waiters and their opener; min 0.
    """
    mx = rng.choice([3, 3, 2])
    k = rng.randint(1, 2)
    waiters = rng.randint(1, mx - 1)
    burst = [["enq", "gwait", 0] for _ in range(waiters)] + [["enq", "gopen", 0]]
    c0 = [["start"]] + [["enq", rng.choice(["ret", "ret", "raise"]), None] for _ in range(k)]
    scripts = [c0]
    if rng.random() < 0.3:
        scripts.append(burst + [rng.choice([["join"], ["join_t"]])])
    else:
        c0.extend(burst)
    c0.append(rng.choice([["wait", k], ["join"], ["join_t"]]) if len(scripts) == 1 else ["join"])
    return {"max": mx, "min": 0, "qsize": 0, "klass": "G", "clients": scripts, "drains": False}


def _plain(rng):
    return _with_variant(rng, ["enq", rng.choice(["ret", "ret", "raise"]), None])


def gen_stop_enqueue(rng):
    """
    Class S: the controlling thread c0 starts the pool, enqueues, stops it and then goes on enqueuing WITHOUT restarting
    (and polls: join(0), result(0), timed waits); one or two other clients enqueue at any moment — in particular inside
    stop() — and wait with time-outs.  Nothing enqueued may begin once stop() has returned, no worker may be left.
    """
    mx, mn, qs = gen_config(rng)
    c0 = [["start"]]
    for _ in range(rng.randint(0, 2)):
        c0.append(_plain(rng))
    c0.append(["stop"])
    for _ in range(rng.randint(1, 3)):
        c0.append(_plain(rng))
    n = len([o for o in c0 if o[0] == "enq"])
    c0.append(rng.choice([_wait(rng, n - 1), _timed_join(rng), ["join_0", 0]]))
    if rng.random() < 0.3:
        c0.append(["done", rng.randrange(n)])  # before or after the stop: a task that never ran is never reported done
    if rng.random() < 0.2:
        c0.append(["stop"])  # redundant
    scripts = [c0]
    for _ in range(rng.choice([1, 1, 2])):
        sc = [_plain(rng) for _ in range(rng.randint(1, 3))]
        sc.append(rng.choice([_wait(rng, 0), _timed_join(rng), ["done", 0]]))
        scripts.append(sc)
    return {"max": mx, "min": mn, "qsize": qs, "klass": "S", "clients": scripts, "drains": False}


def gen_restart(rng, cfg=None):
    """
    Class R (restart after a busy stop): the controlling thread c0 starts the pool, enqueues a task that blocks on gate 0
    (and possibly others), calls stop() - which, when the blocked task is already running, returns only after the last
    client (which does nothing but open gate 0; schedules usually keep it back until every other thread is blocked) has
    opened the gate: the busy worker then leaves on the stop flag and its stop marker stays in the queue for clear() -,
    possibly enqueues while stopped, starts the pool AGAIN, enqueues k tasks (independent, or up to max-1 waiters on
    gate 1 plus the task that opens it: mutually dependent, they need the pool to grow) and finally waits for them with
    time-outs (wait for each future / join(timeout)) or join().  Optionally another client enqueues one task of its own
    at any moment.  Every gate is opened by a client that never blocks or by a task, all waits expire at quiescence only:
    the program drains, whatever the schedule.
    """
    mx, mn = cfg if cfg is not None else rng.choice([(1, 0), (1, 0), (2, 0), (2, 0), (3, 0), (3, 0), (2, 1), (3, 1), (1, 1), (3, 2)])
    c0 = []
    if rng.random() < 0.15:
        c0.append(_plain(rng))  # accepted before the first start
    c0.append(["start"])
    pre = [["enq", "gwait", 0]]
    for _ in range(rng.choice([0, 0, 1])):
        pre.append(rng.choice([["enq", "ret", None], ["enq", "gwait", 0], ["enq", "raise", None]]))
    rng.shuffle(pre)
    c0.extend(pre)
    c0.append(["stop"])
    if rng.random() < 0.15:
        c0.append(["stop"])  # redundant
    first_after = len([o for o in c0 if o[0] == "enq"])
    if rng.random() < 0.25:
        c0.append(_plain(rng))  # accepted between the stop and the restart
    c0.append(["start"])
    if rng.random() < 0.1:
        c0.append(["start"])  # redundant
    post = []
    if mx >= 2 and rng.random() < 0.6:
        post = [["enq", "gwait", 1] for _ in range(rng.randint(1, mx - 1))] + [["enq", "gopen", 1]]
        if rng.random() < 0.3:
            rng.shuffle(post)
    for _ in range(rng.randint(0 if post else 1, 2)):
        post.insert(rng.randint(0, len(post)), _plain(rng))
    c0.extend(post)
    n = len([o for o in c0 if o[0] == "enq"])
    r = rng.random()
    if r < 0.5:
        polls = rng.random() < 0.4
        for k in range(first_after, n):
            if polls and rng.random() < 0.5:
                c0.append(["done", k])
            c0.append(["wait", k])
            if polls and rng.random() < 0.5:
                c0.append(["done", k])
    elif r < 0.8:
        c0.append(["join_t"])
    else:
        c0.append(["join"])
    scripts = [c0]
    if rng.random() < 0.25:
        # (the timed wait is what makes the program drain: this client's task, accepted at any moment, is waited for)
        scripts.append([_plain(rng)] + ([["done", 0]] if rng.random() < 0.4 else []) + [["wait", 0]]
                       + ([["done", 0]] if rng.random() < 0.3 else []))
    scripts.append([["open", 0]])
    return {"max": mx, "min": mn, "qsize": 0, "klass": "R", "clients": scripts, "drains": True}


def restart_programs():
    """The fixed class R programs explored in every run (bounded-preemption DFS, gate opener kept back)."""
    out = []
    G0, G1, O1 = ["enq", "gwait", 0], ["enq", "gwait", 1], ["enq", "gopen", 1]
    R, X = ["enq", "ret", None], ["enq", "raise", None]
    for mx, mn in [(1, 0), (2, 0), (3, 0), (2, 1)]:
        def P(c0):
            out.append({"max": mx, "min": mn, "qsize": 0, "klass": "R", "clients": [c0, [["open", 0]]], "drains": True})
        P([["start"], G0, ["stop"], ["start"], R, ["wait", 1]])
        P([["start"], G0, R, ["stop"], X, ["start"], R, ["join_t"]])
        if mx >= 2:
            P([["start"], G0, ["stop"], ["start"], G1, O1, ["wait", 1], ["wait", 2]])
            P([["start"], G0, ["stop"], ["start"], G1, O1, ["join"]])
        else:
            P([["start"], G0, ["stop"], ["start"], R, X, ["join"]])
    return out


def quiescent_programs():
    """
    Fixed programs whose interesting steps happen only at quiescence (every thread blocked, time-outs pending), plus the
    untimed join() of a non-controlling client concurrent with stop(), a failing Thread.start(), and a worker that has to
    survive a failing task without __name__; explored in every run over all choices at blocking points (and with one
    pre-emption for the third).
      Q1  an idle worker's queue.get time-out and its retirement decision: the second worker was started for a task that
          the first one took; the client is parked in timed result() calls on a task blocked on a gate nobody opens.
      Q2  thread.join(3) of stop() expiring while the joined worker runs a gate-blocked task (the opener is itself
          parked in join(t) calls).
      Q3  join() on a non-controlling client while the controlling thread stops and restarts the pool.
      Q4  the first Thread.start() of start() fails (class F).
      Q5  a raising functools.partial, then a bare callable returning 0 without arguments, one worker: the second must run.
    """
    R, X = ["enq", "ret", None], ["enq", "raise", None]
    G0 = ["enq", "gwait", 0]
    return [
        {"max": 2, "min": 1, "qsize": 0, "klass": "L2", "drains": False,
         "clients": [[["start"], R, R, G0, ["wait", 2], ["wait", 2], ["wait", 2]]]},
        {"max": 1, "min": 1, "qsize": 0, "klass": "L1", "drains": False,
         "clients": [[["start"], G0, ["wait", 0], ["stop"]], [["join_t"], ["join_t"], ["open", 0]]]},
        {"max": 1, "min": 1, "qsize": 0, "klass": "L1", "drains": False,
         "clients": [[["start"], R, ["stop"], ["start"]], [X, ["join"]]]},
        {"max": 2, "min": 1, "qsize": 0, "klass": "F", "drains": False, "startfail": [0],
         "clients": [[["start"], R, ["wait", 0], ["join_0", 0], ["stop"]]]},
        {"max": 1, "min": 1, "qsize": 0, "klass": "L2", "drains": True,
         "clients": [[["start"], ["enq", "raise", None, "partial/obj/std"], ["enq", "ret", None, "bare/zero/none"],
                      ["wait", 0], ["wait", 1], ["enq_bad", "int"], ["join"]]]},
    ]


def window_programs():
    """
    Tiny programs (pool started once, never stopped, no gate opened by a client, every wait with a time-out) in which a
    client enqueues again after an earlier task has finished, i.e. while the worker of that task is going through its
    retirement decision: explored with a single pre-emption at every step in every run, so that an enqueue() lands in each
    one-operation window of the worker's epilogue (and of its idle time-out path).
    """
    out = []
    R, X = ["enq", "ret", None], ["enq", "raise", None]

    def P(mx, mn, clients):
        out.append({"max": mx, "min": mn, "qsize": 0, "klass": "L2", "clients": clients, "drains": True})
    P(1, 0, [[["start"], R, ["wait", 0], R, ["wait", 1]]])
    P(2, 0, [[["start"], X, ["wait", 0], R, ["join_t"]]])
    P(1, 0, [[["start"], R, ["join_t"]], [R, ["wait", 0]]])
    P(2, 0, [[["start"], ["enq", "gwait", 0], ["enq", "gopen", 0], ["wait", 0], ["wait", 1], R, ["wait", 2]]])
    P(2, 1, [[["start"], R, R, ["wait", 1], R, ["wait", 2]]])
    return out


OBS_SCRIPTS = (
    [["done", 0], ["wait_0", 0], ["done", 0]],
    [["wait_0", 0], ["done", 0]],
    [["result", 0], ["done", 0], ["wait_0", 0, 0.0]],
    [["wait", 0], ["done", 0]],
    [["done", 0], ["result", 0]],
)
OBS_VARIANTS_QUICK = (("ret", None), ("ret", "obj/none/std"), ("raise", None), ("raise", "bare/falsy/none"),
                      ("raise", "partial/os/std"))
OBS_VARIANTS_ALL = tuple([("ret", "%s/%s/std" % (sh, v)) for sh, v in zip(SHAPES * 2, VALUE_KINDS)]
                         + [("raise", "%s/%s/%s" % (sh, v, a)) for sh, v, a in zip(SHAPES + SHAPES, EXC_KINDS, ARG_KINDS + ARG_KINDS)])
OBS_POINTS = 16  # operations of the worker between its start and its second wait on the queue (with a margin)


def observe_programs(thorough=False):
    """
    Tiny programs for `ObserveChooser`: one worker, one task that returns / raises, and a client that observes its
    future - polls, timed and untimed reads, done-then-result.  (Class L2; drained when the script has a blocking read.)
    """
    out = []
    cfgs = [(1, 1)] if not thorough else [(1, 1), (1, 0), (2, 0)]
    for mx, mn in cfgs:
        for kind, variant in (OBS_VARIANTS_ALL if thorough else OBS_VARIANTS_QUICK):
            for sc in OBS_SCRIPTS:
                enq = ["enq", kind, None] + ([variant] if variant else [])
                # (a script that only polls may end before the task has begun: the tear-down then drops it, legitimately)
                out.append({"max": mx, "min": mn, "qsize": 0, "klass": "L2", "drains": any(o[0] in ("result", "wait") for o in sc),
                            "clients": [[["start"], enq] + [list(o) for o in sc]]})
    return out


class ObserveChooser(object):
    """
    Places a client's observations at a chosen point of the worker's work: the client runs up to its first observation
    (`call.done` / `call.wait`); then the other threads execute `point` operations; from then on the client runs whenever
    it is enabled (a blocked read is resumed at the very first scheduling point at which the future's flag is up), the
    others only when it is not.  `point` = 0 .. OBS_POINTS puts the observations before / after each operation of the
    worker: queue.get, the accounting, task.begin, task.end, fut.set, fut.published, queue.task_done, ...
    """

    def __init__(self, point, client="c0"):
        self.point = point
        self.client = client
        self.phase = 0
        self.others = 0

    def choose(self, s, en, tmo):
        c = next((t for t in en if t.role == self.client), None)
        others = [t for t in en if t.role != self.client]
        if self.phase == 0:
            if c is not None and c.pending.label not in ("call.done", "call.wait"):
                return c
            if c is None:
                return others[0]
            self.phase = 1
        if self.phase == 1:
            if self.others < self.point and others:
                self.others += 1
                return others[0]
            self.phase = 2
        return c if c is not None else en[0]


def observe_sweep(ck, ctx):
    """Every observation script x every outcome kind x every point of the worker's sequence (part of EVERY run)."""
    n = 0
    for program in observe_programs(ctx.thorough):
        for point in range(OBS_POINTS + 1):
            if ctx.violations and ck.enough():
                return n
            r = run_program(program, ObserveChooser(point))
            ck.record(program, r, "observe", lockstep=(n % 3 == 0))
            n += 1
    return n


def lazy_roles(program):
    """Roles of the clients that only open gates."""
    return tuple("c%d" % i for i, sc in enumerate(program["clients"]) if sc and all(op[0] == "open" for op in sc))


def gen_chooser(rng, horizon=80):
    r = rng.random()
    if r < 0.4:
        return "uniform", sched.RandomChooser(rng)
    if r < 0.6:
        return "sticky", sched.StickyChooser(rng, rng.choice([0.6, 0.8, 0.9]))
    d = rng.randint(1, 3)
    return "pct%d" % d, sched.PCTChooser(rng, d, horizon)


# ---- running, shrinking, replay -------------------------------------------------------------------------


def run_program(program, chooser, max_steps=1500, monitors=True):
    return Run(program, chooser, max_steps=max_steps, monitors=monitors).execute()


def replay_schedule(program, roles, monitors=True, max_steps=1500):
    ch = sched.ReplayChooser(roles)
    r = run_program(program, ch, max_steps=max_steps, monitors=monitors)
    return r


def switches(roles):
    return sum(1 for a, b in zip(roles, roles[1:]) if a != b)


def shrink(program, roles, key, prop, rounds=40):
    """
    Drops context switches: tries to let a thread run on instead of switching, keeps the change when the same
    violation (property, key) is still found by replay.  Returns the (possibly shorter) role list.
    """
    def fails(rs):
        r = replay_schedule(program, rs)
        return any(v["property"] == prop and v["key"] == key for v in r.violations), r

    ok, r = fails(roles)
    if not ok:
        return roles, False
    best = r.schedule()
    tries = 0
    i = 1
    while i < len(best) and tries < rounds:
        if best[i] != best[i - 1]:
            # extend the previous thread's run over position i
            j = i
            while j < len(best) and best[j] == best[i]:
                j += 1
            cand = best[:i] + [best[i - 1]] * (j - i) + best[i:]
            tries += 1
            ok, r = fails(cand)
            if ok and switches(r.schedule()) < switches(best):
                best = r.schedule()
                continue
        i += 1
    return best, True


def payload(program, run, v):
    return {"program": program, "schedule": run.schedule(), "status": run.status, "violation": v,
            "trace": [st.token() for st in run.s.trace][-60:]}


def replay(payload_obj, prop=None):
    """Re-executes a replay payload on the real code; prints what happens; returns 1 when a violation recurs."""
    case = payload_obj.get("case") or payload_obj
    program = case["program"]
    roles = case["schedule"]
    r = replay_schedule(program, roles)
    print("program: %s" % json.dumps(program))
    print("schedule: %d steps, %d context switches; status=%s" % (len(roles), switches(roles), r.status))
    for st in r.s.trace:
        print("  %3d %-3s %-22s %s" % (st.index, st.role, st.label + (":timeout" if st.timeout else ""), st.proj))
    hit = [v for v in r.violations if prop is None or v["property"] == prop]
    for v in r.violations:
        print("monitor: [%s] %s: %s (step %d)" % (v["property"], v["key"], v["detail"], v["step"]))
    if hit:
        print("VIOLATION reproduced")
        return 1
    print("no violation on this tree")
    return 0


def dfs(program, max_preempt=2, max_runs=300, on_run=None, lazy=()):
    """
    Bounded-preemption depth-first exploration: default policy is non-preemptive; at most `max_preempt`
    switches away from a thread that could have continued.  Calls on_run(run) for each execution.
    """
    stack = [([], 0)]
    seen = set()
    runs = 0
    while stack and runs < max_runs:
        prefix, used = stack.pop()
        ch = sched.PrefixChooser(prefix)
        r = run_program(program, sched.LazyChooser(ch, lazy) if lazy else ch)
        runs += 1
        if on_run is not None and on_run(r):
            return runs
        alts = ch.alts
        for n in range(len(alts) - 1, len(prefix) - 1, -1):
            chosen, roles, cur = alts[n]
            for alt in roles:
                if alt == chosen:
                    continue
                cost = 1 if cur is not None and alt != cur else 0
                if used + cost > max_preempt:
                    continue
                pre = tuple([a[0] for a in alts[:n]] + [alt])
                if pre in seen:
                    continue
                seen.add(pre)
                stack.append((list(pre), used + cost))
    return runs


# ---- the check shared by C09 / C10 / C11 ----------------------------------------------------------------


def small_programs():
    """~60 small programs for the bounded-preemption DFS of the thorough tier."""
    out = []
    for mx, mn in [(1, 0), (1, 1), (2, 0), (2, 1), (3, 0)]:
        def P(klass, clients, qsize=0, drains=False):
            out.append({"max": mx, "min": mn, "qsize": qsize, "klass": klass, "clients": clients, "drains": drains})
        R = ["enq", "ret", None]
        X = ["enq", "raise", None]
        P("L1", [[["start"], R, ["stop"]]])
        P("L2", [[R, ["start"], ["join"]]], drains=True)
        P("L2", [[["start"], R, X, ["join_t"]]])
        P("L1", [[["start"], ["stop"], ["start"], R, ["join"]]])
        P("L2", [[["start"]], [R, ["join_t"]]])
        P("L2", [[["start"], R, ["join"], X, ["join"]]], drains=True)
        P("L1", [[["start"], ["stop"]], [R, ["wait", 0]]])
        P("L1", [[["start"], R, ["stop"], ["start"], ["join_t"]]])
        P("L2", [[["start"]], [R], [X, ["join"]]])
        P("L1", [[["start"], R, R, R]], qsize=1)
        if mx >= 2:
            P("G", [[["start"], ["enq", "gwait", 0], ["enq", "gopen", 0], ["join"]]], drains=True)
        else:
            P("L1", [[R, ["start"], ["stop"], ["stop"], ["start"]]])
        if mx >= 3:
            P("G", [[["start"], ["enq", "gwait", 0], ["enq", "gwait", 0], ["enq", "gopen", 0], ["wait", 0]]])
        else:
            P("L2", [[["start"], ["enq", "gwait", 0], ["join_t"]], [["open", 0]]])
    return out


def features(program):
    ops = set()
    for sc in program["clients"]:
        for op in sc:
            ops.add(op[0] if op[0] != "enq" else "enq:" + op[1])
    return ",".join(sorted(ops))


SEARCH_SECONDS = 60.0
# the worker's completion sequence (its NEXT operation when a client's observation of the task's future is answered)
OBS_WINDOW = ("task.begin", "task.body", "task.end:ok", "task.end:exc", "fut.set", "fut.published", "queue.task_done")


class Checker(object):
    def __init__(self, ctx, pid):
        self.ctx = ctx
        self.pid = pid
        self.lines = []
        self.expected = []
        self.meta = []
        self.seen_keys = {}
        self.other_hits = 0
        self.steps = 0
        self.leaked = 0
        self.lockstep_cap = 6000
        self.nrecorded = 0
        self.first_hit = None
        # the search stage (tie already broken) is bounded in wall-clock time as well: a quick run stays a quick run, the
        # long hunt belongs to `--tier thorough`
        self.deadline = (time.time() + SEARCH_SECONDS) if ctx.searching else None

    def out_of_time(self):
        return self.deadline is not None and time.time() > self.deadline

    def enough(self):
        """A failing execution is in hand: go on for at most 150 more executions (other violation keys), stop at three keys."""
        if self.out_of_time():
            return True
        if not self.ctx.violations:
            return False
        if self.first_hit is None:
            self.first_hit = self.nrecorded
        return len(self.seen_keys) >= 3 or self.nrecorded - self.first_hit >= 150

    def record(self, program, r, chooser_name, lockstep=True):
        ctx = self.ctx
        self.nrecorded += 1
        self.steps += len(r.s.trace)
        self.leaked += r.leaked
        sw = switches(r.schedule())
        ctx.count(case_repr={"program": program, "chooser": chooser_name, "status": r.status, "steps": len(r.s.trace)},
                  nontrivial_key=(program["klass"], program["max"], program["min"], program["qsize"], features(program),
                                  r.status, min(sw // 8, 6)),
                  kind="%s/%s/%s" % (program["klass"], chooser_name, r.status))
        self.count_rare(program, r)
        # violations observed by a client through the public API are reported before the ones read from the private state
        for v in sorted(r.violations, key=lambda x: 0 if x.get("api") else 1):
            if v["property"] != self.pid:
                self.other_hits += 1
                continue
            if v["key"] in self.seen_keys:
                self.seen_keys[v["key"]] += 1
                continue
            self.seen_keys[v["key"]] = 1
            roles = r.schedule()
            shrunk = False
            if len(self.seen_keys) <= 3:
                try:
                    roles, shrunk = shrink(program, roles, v["key"], self.pid)
                except Exception:  # noqa: BLE001 - shrinking is best effort
                    roles, shrunk = r.schedule(), False
            rr = replay_schedule(program, roles) if shrunk else r
            vv = next((x for x in rr.violations if x["property"] == self.pid and x["key"] == v["key"]), v)
            ctx.violate(payload(program, rr, vv), "[%s] %s: %s" % (self.pid, vv["key"], vv["detail"]), key=vv["key"])
        if lockstep and len(self.lines) < self.lockstep_cap:
            line, projs = r.model_line()
            self.lines.append(line)
            self.expected.append(projs)
            self.meta.append((program, r.schedule()))

    RARE = ("queue.get:timeout", "queue.put:timeout", "thread.join:timeout", "cond.wait:timeout", "fut.wait:timeout",
            "event.is_set:startfail")

    def count_rare(self, program, r):
        """How often each rare operation / situation occurred on the real code (printed into the evidence histogram)."""
        h = self.ctx.hist
        for st in r.s.trace:
            tok = st.label + (":timeout" if st.timeout else "") + (":startfail" if st.fail else "")
            if tok in self.RARE:
                h["rare/" + tok] += 1
        for c in r.calls:
            if c.api in ("done", "wait", "wait_0", "result") and c.end is not None:
                # observations of a future, by where the worker of the task stood when the answer was given
                at = c.obs_end if c.obs_end in OBS_WINDOW else "elsewhere"
                h["observe/%s=%s@%s" % ({"wait": "result(1.0)", "wait_0": "result(0)", "result": "result()", "done": "done()"}[c.api],
                                        c.ret, at)] += 1
                if c.told_before:
                    h["observe/after-done-was-reported:%s" % c.api] += 1
            if c.api in ("join_0", "wait_0"):
                h["rare/call.%s" % c.api] += 1
            if c.api == "join" and c.client != 0:
                h["rare/join()-by-non-controller"] += 1
                if c.overlap_stop:
                    h["rare/join()-by-non-controller-overlapping-stop"] += 1
        for t in r.tasks:
            if t.shape != "obj":
                h["rare/task-without-__name__:" + ("raises" if t.kind == "raise" else "returns")] += 1
            if t.kind != "raise" and t.value is not None and not t.value and t.ended:
                h["rare/falsy-result"] += 1
            if t.kind == "raise" and isinstance(t.exc, OSError) and t.ended:
                h["rare/task-raises-OSError"] += 1
        if program.get("timeout", 60) is None:
            h["rare/pool-with-timeout-None"] += 1

    def lockstep(self):
        ctx = self.ctx
        if not self.lines:
            return
        outs = ctx.lean(self.lines)
        bad = 0
        nsteps = 0
        for line, out, exp, (program, roles) in zip(self.lines, outs, self.expected, self.meta):
            got = out.split(" | ") if out else []
            nsteps += len(exp)
            if got != exp:
                bad += 1
                if bad <= 5:
                    toks = line.split(" ")[6:]
                    k = next((j for j, (a, b) in enumerate(zip(got + ["<nothing>"] * len(exp), exp)) if a != b), len(exp))
                    ctx.disagree({"program": program, "schedule": roles, "step": k,
                                  "action": toks[k] if k < len(toks) else None},
                                 exp[k] if k < len(exp) else "<end>", got[k] if k < len(got) else "<nothing>", component="pool")
                else:
                    ctx.disagree("(further cases omitted)", "", "", component="pool")
                    break
        ctx.traces_validated += len(self.lines) - bad
        ctx.extra["lockstep_steps_compared"] = ctx.extra.get("lockstep_steps_compared", 0) + nsteps
        self.lines, self.expected, self.meta = [], [], []


def check(ctx, pid, mix, quick_runs, thorough_runs, special=None):
    """
    mix: list of (weight, klass, force_cfg or None).  Random schedules (uniform / sticky / PCT depth 1-3) on random
    programs; thorough adds bounded-preemption DFS (<= 2 preemptions) over small_programs().
    """
    ck = Checker(ctx, pid)
    rng = ctx.rng
    total = float(sum(w for w, _k, _c in mix))
    n_runs = ctx.budget(quick_runs, thorough_runs)
    if ctx.searching:
        # the tie is already known to be broken: look for a failing input only, with a bounded budget
        n_runs = min(n_runs, 1500)
        ck.lockstep_cap = 0
    directed(ck, ctx)
    for n in range(n_runs):
        if ck.enough():
            break
        x = rng.random() * total
        for w, klass, cfg in mix:
            x -= w
            if x <= 0:
                break
        program = gen_program(rng, klass)
        if cfg is not None and program["klass"] != "G":
            program["max"], program["min"] = cfg
        elif cfg is not None:
            program = gen_program_cfg(rng, klass, cfg)
        name, ch = gen_chooser(rng)
        r = run_program(program, ch)
        ck.record(program, r, name)
    if special is not None:
        special(ck)
    if ctx.thorough and not ctx.violations and not ck.out_of_time():
        k = 0
        for program in small_programs():
            def on_run(r, program=program):
                nonlocal k
                k += 1
                ck.record(program, r, "dfs", lockstep=(k % 12 == 0))
                return bool(ctx.violations)
            dfs(program, max_preempt=2, max_runs=60 if ctx.searching else 150, on_run=on_run)
            if ctx.violations or ck.out_of_time():
                break
    ck.lockstep()
    # the failing input that is written to the replay file is the first one: prefer an execution in which a client of the
    # program SAW the violation through the public API to one in which the monitor read it from the pool's private state
    ctx.violations.sort(key=lambda v: 0 if isinstance(v.get("case"), dict) and (v["case"].get("violation") or {}).get("api") else 1)
    ctx.extra["scheduler_steps"] = ctx.extra.get("scheduler_steps", 0) + ck.steps
    ctx.extra["monitor_hits_for_other_properties"] = ck.other_hits
    ctx.extra["violation_keys"] = dict(ck.seen_keys)
    if ck.leaked:
        raise_infra("managed OS threads leaked: %d" % ck.leaked)
    ctx.rule = ("random client programs (classes L1 single controlling thread with stop/restart and join() on the other clients, "
                "L2 started once with join(), G gate-dependent tasks, R stop() during a gate-blocked task then restart and "
                "enqueue, S stop then enqueue without restart, W anything on any thread, F some Thread.start() calls fail, "
                "N pool built with timeout=None) x pool sizes max 1..3, min 0..max, queue bound 0/1 x tasks that are named "
                "callables / bare callable instances / functools.partial objects returning truthy, falsy-but-not-None or None "
                "objects or raising (empty args, falsy exception objects, OSError), with tuple / no / falsy arguments; join(1.0), "
                "join(0), join(0.0), result(1.0), result(0), result(0.0), result(), done(), done-then-result, enqueue(non-callable); "
                "the future's Event.set() is two scheduling points (fut.set, fut.published) and in every run a client's "
                "observations are placed before/after every operation of the completing worker (observe_sweep) x "
                "schedules (uniform, sticky, PCT depth 1-3, gate opener kept back for class R; in every run: DFS over the choices "
                "at blocking points of 5 fixed quiescence / failing-start / nameless-task programs and 15 fixed class R programs, "
                "exhaustive single-pre-emption DFS of 2 tiny enqueue-after-completion programs; thorough: bounded-preemption DFS "
                "over 60 small programs) on the REAL ThreadPool under harness/sched.py; every execution is replayed step by step "
                "by the Lean model (lockstep projections) and checked by the monitors; distinct_nontrivial = distinct (class, max, "
                "min, queue bound, set of API operations, final status, context-switch bucket); distribution keys `rare/...` count "
                "how often each rare operation occurred on the real code")
    ctx.assumptions.append("harness/sched.py shims of threading.Event/RLock/Lock/Thread and queue.Queue (atomic FIFO with an "
                           "unfinished count and all_tasks_done) stand for CPython's; positive time-outs expire only at "
                           "quiescence, zero time-outs (join(0), result(0)) at once; Thread.start() fails only where the program says")
    ctx.assumptions.append("pool `timeout` finite (constructor default 60; `ThreadPool(..., timeout=None)` is accepted unvalidated and "
                           "lets stop()/enqueue block for ever in an untimed queue.put: hypothesis `cfg.timeoutNone = false` of "
                           "C11_stop_no_stuck; class N programs are run for correspondence and safety only)")
    ctx.assumptions.append("Thread.start() never raises, for the growth / floor / liveness theorems only (hypothesis "
                           "`cfg.startMayFail = false` of C09_queued_has_server/_eventually_*, C10_no_starvation*/_min_floor/"
                           "_progress_*); failing starts are modelled, run in lockstep (class F) and keep the counters exact "
                           "(C10_counters_exact, C10_start_failure_rollback)")
    ctx.assumptions.append("not modelled, not generated: tasks raising BaseException that is not Exception (SystemExit, "
                           "KeyboardInterrupt: FutureResult.execute does not store it, the worker thread dies, the future is "
                           "never done), tasks calling enqueue()/stop() on their own pool from a worker thread, execute() called "
                           "twice on one future, objects whose __call__/__bool__/__repr__ themselves misbehave")
    return ck


def directed(ck, ctx):
    """
    Histories and windows that random programs / random schedules reach too rarely; part of EVERY run, and independent of
    the seed for the two fixed lists:
      1. restart_programs(): DFS without pre-emption (all choices at blocking points); thorough: also one pre-emption;
      2. window_programs(): the first two exhaustively for one pre-emption at every step; thorough: all five, and two
         pre-emptions for the first two;
      3. random class R programs under random schedules, the gate opener kept back in 5 runs out of 6;
      0. (first) observe_sweep(): a client's done() / result(0) / result(1.0) / result() placed before and after every
         operation of the worker that runs a returning / raising task (ObserveChooser), `fut.published` included.
    """
    def explore(program, max_preempt, max_runs, lazy, every):
        k = 0

        def on_run(r):
            nonlocal k
            k += 1
            ck.record(program, r, "dfs%d" % max_preempt, lockstep=(k % every == 1 or every == 1))
            return bool(ctx.violations) or ck.out_of_time()
        if ck.out_of_time():
            return 0
        return dfs(program, max_preempt=max_preempt, max_runs=max_runs, on_run=on_run, lazy=lazy)

    def bud(q, t):
        # search stage (tie already broken): a bounded budget, three times the quick one
        return min(t, 3 * q) if ctx.searching else ctx.budget(q, t)

    nruns = 0
    deep = ctx.thorough  # thorough tier or search stage
    nruns += observe_sweep(ck, ctx)
    for k, program in enumerate(quiescent_programs()):
        if ctx.violations:
            break
        nruns += explore(program, 1 if k == 2 else 0, 60 if k == 2 else 40, lazy_roles(program), 2)
    for program in restart_programs():
        lz = lazy_roles(program)
        nruns += explore(program, 0, 40, lz, 4)
        if deep and not ctx.violations:
            nruns += explore(program, 1, bud(25, 100), lz, 6)
    for k, program in enumerate(window_programs()):
        if ctx.violations:
            break
        if k < 2:
            # exhaustive for one pre-emption (about 35 executions each)
            nruns += explore(program, 1, 150, (), 4)
        if deep and not ctx.violations:
            nruns += explore(program, 2 if k < 2 else 1, bud(100, 450), (), 8)
    rng = ctx.derive_rng("class-R")
    for _ in range(bud(100, 1000)):
        if ck.enough():
            break
        program = gen_restart(rng)
        name, ch = gen_chooser(rng)
        if rng.random() < 5.0 / 6:
            name, ch = name + "+lazy", sched.LazyChooser(ch, lazy_roles(program))
        r = run_program(program, ch)
        ck.record(program, r, name)
        nruns += 1
    ctx.extra["directed_runs"] = ctx.extra.get("directed_runs", 0) + nruns


def gen_program_cfg(rng, klass, cfg):
    for _ in range(200):
        p = gen_program(rng, klass)
        if (p["max"], p["min"]) == tuple(cfg):
            return p
    return p


def raise_infra(msg):
    import core
    raise core.InfraError(msg)
