"""
The *pooled* paths of C04 (notification thread pool) and C12 (request thread pool) under the deterministic scheduler.

The sequential stages of C04/C12 drive the pooled paths on real OS threads only, where the interleavings that matter
(a worker evaluating its retirement while a request thread enqueues) almost never happen.  Here the REAL
`SimpleJSONRPCDispatcher` / `PooledJSONRPCServer` run on top of the REAL `jsonrpclib.threadpool.ThreadPool`, the pool
module's `threading` / `queue` being replaced by the shims of harness/sched.py for the duration of one run, so that
every interleaving of request threads and pool workers at synchronisation-operation granularity can be chosen, replayed
and shrunk.

Stage "notif"  (C04): managed request threads r0, r1 call `dispatcher._marshaled_dispatch(body)` for a short sequence of
                      bodies; the dispatcher's notification pool is a real ThreadPool(max, min) started beforehand.
Stage "accept" (C12): a managed accept-loop thread a0 calls `server.process_request(fake_request_i, addr)` on a real
                      PooledJSONRPCServer (never bound: bind_and_activate=False) whose `process_request_thread` is
                      replaced on the instance by a recording stub; then `server.server_close()`.

A run has three phases, all decided by the controller as a deterministic function of the state (so a role list replays):
  main   the primary threads (r*/a0) and the workers run until the primaries have ended and nobody is enabled
         ("drained"); gates that nobody can open any more are opened by the controller at quiescence, except in
         programs marked `selfopen` (their openers are pool tasks: a correct pool needs no help);
  idle   idle-timeouts expire (one per live worker, at quiescence): workers may retire;
  close  a managed thread c0 stops the pool (`pool.stop()` / `server.server_close()`), then every thread must end.

Monitors are written from the property statements (properties.jsonl C04, C12); they look at the invocation log of the
callables / handler stub and at the replies, never at the Lean model.  No lockstep with the Lean pool model is done here
(that is C09-C11's correspondence, on the same pool code and the same scheduler).

Programs (JSON-able)
  notif : {"stage": "notif", "max": 2, "min": 0, "ver": 2.0, "custom": false, "selfopen": false, "gates": 1,
           "threads": [[op, ...], ...]}
          op    = ["post", [entry, ...], is_batch] | ["open", gate]
          entry = ["n", style, method, token] | ["c", method, token, id] | ["bad", json value]
          style = "2.0-noid" | "2.0-null" | "2.0-empty" | "1.0-null" | "1.0-empty"
          method= ret | boom | two (needs two arguments, gets one) | nosuch (not registered) | gwait<g> | gopen<g>
  accept: {"stage": "accept", "pool": null | [max, min], "selfopen": false, "gates": 1, "close": "drain" | "inflight",
           "reqs": [[kind, gate], ...]}      kind = ret | raise | gwait | gopen
           optional "again": [{"server": "same" | "new", "reqs": [...], "close": ..., "selfopen": ...}, ...] — further life
           cycles on the SAME user-supplied pool (pool != null): after server_close() the accept thread of the next cycle
           calls pool.start() and hands the pool to a new server (or keeps the closed one); see AcceptRun.
"""
import json

import impl  # noqa: F401  (sets sys.path, silences logging)
import jsonrpclib.config
import jsonrpclib.threadpool as tp
import jsonrpclib.SimpleJSONRPCServer as S

import poolcommon as pc
import sched

MAX_STEPS = 2500


# ---- one run ------------------------------------------------------------------------------------------------------


class StageRun(object):
    """Common part of a run: scheduler, gates, instrumented bodies, phases, projection."""
    PROP = None

    def __init__(self, program, chooser, max_steps=MAX_STEPS, keep_proj=False):
        self.program = program
        self.s = sched.Scheduler(chooser, max_steps=max_steps)
        self.keep_proj = keep_proj
        self.violations = []
        self.gates = {}
        self.execs = {}       # token -> [(role, step index)]
        self.ended = set()    # tokens whose body has ended
        self.primaries = []
        self.phase = "setup"
        self.drained = False
        self.nquiet = 0
        self.ctl_opened = 0
        self.selfopen = bool(program.get("selfopen"))
        self.status = None
        self.cycle = 0
        self.leaked = 0
        self.pool = None
        self.notes = []       # human-readable events (posts, replies) for the replay print

    # ---- violations
    def violate(self, key, detail):
        self.violations.append({"property": self.PROP, "key": key, "detail": detail, "step": len(self.s.trace) - 1,
                                "phase": self.phase})

    # ---- reading the pool (display only; tolerant of renamed privates)
    def pattr(self, name):
        return getattr(self.pool, "_ThreadPool__" + name, "?")

    def pool_state(self):
        p = self.pool
        if p is None:
            return "-"
        try:
            q = []
            for it in p._queue.queue:
                if it is p._done_event:
                    q.append("S")
                else:
                    q.append(self.item_label(it))
            lk = self.pattr("lock")
            owner = lk.owner.role if isinstance(getattr(lk, "owner", None), sched.MThread) else "-"
            ths = [getattr(th, "role", "?") or "?" for th in p._threads]
            return "stopped=%d lk=%s q=[%s] unfinished=%s nb_threads=%s nb_active=%s nb_pending=%s threads=[%s]" % (
                1 if p._done_event._flag else 0, owner, ",".join(q), p._queue.unfinished_tasks, self.pattr("nb_threads"),
                self.pattr("nb_active_threads"), self.pattr("nb_pending_task"), ",".join(ths))
        except Exception as ex:  # noqa: BLE001 - display only
            return "pool state unreadable: %r" % (ex,)

    def item_label(self, it):
        return "task"

    def projection(self):
        ran = ",".join("%s%s" % (t, "" if len(v) == 1 else "x%d" % len(v)) for t, v in sorted(self.execs.items()))
        live = ",".join("%s:%s" % (t.role, t.pending.label) for t in self.s.threads if not t.dead and t.pending is not None)
        return "%s ran=[%s] at=[%s]" % (self.pool_state(), ran, live)

    # ---- instrumented bodies (the callables / the handler stub); the code under test is not instrumented
    def body(self, tok, kind, gate):
        s = self.s
        s.yield_op("body.begin", arg=tok)
        me = s.me()
        self.execs.setdefault(tok, []).append((me.role if me is not None else "ctl", len(s.trace) - 1))
        if len(self.execs[tok]) > 1:
            self.on_twice(tok)
        if kind == "gwait":
            self.gates[gate].wait()
        elif kind == "gopen":
            self.gates[gate].set()
        s.yield_op("body.end", arg=tok)
        self.ended.add(tok)
        if kind in ("raise", "boom"):
            raise ValueError("boom %d" % tok)
        return tok + 1000

    def on_twice(self, tok):
        raise NotImplementedError

    # ---- scheduler callbacks
    def after_step(self, st):
        if self.keep_proj:
            st.proj = self.projection()

    def gates_closed(self):
        return [g for g, ev in self.gates.items() if not ev._flag]

    def on_quiescent(self):
        """Nobody is enabled (time-outs may be pending)."""
        self.nquiet += 1
        closed = self.gates_closed()
        if closed and (not self.selfopen or self.phase == "close"):
            # "a gate opened later by the controller": nobody else can do it any more
            for g in closed:
                self.gates[g]._flag = True
            self.ctl_opened += 1
            if self.keep_proj:
                self.notes.append((len(self.s.trace), "controller opens gates %r (quiescent)" % closed))
            return
        if self.phase == "main" and all(t.dead for t in self.primaries) and not self.drained:
            self.drained = True
            self.check_drained("the primary threads have ended and no thread is enabled")

    def run_until(self, cond):
        s = self.s
        while True:
            st = s.run(until=cond)
            if st == "deadlock" and s.enabled_threads():
                continue   # the quiescence callback opened a gate and no time-out was pending
            return st

    # ---- the run
    def execute(self):
        s = self.s
        with s.patched(tp):
            try:
                for g in range(self.program.get("gates", 0)):
                    self.gates[g] = sched.SEvent(s, "gate")
                self.setup()
                s.after_step = self.after_step
                s.on_quiescent = self.on_quiescent
                st = "done"
                for k in range(self.ncycles()):
                    # one life cycle: main / idle / close (a program has one, unless its pool is reused: AcceptRun)
                    self.cycle = k
                    self.phase = "main"
                    self.drained = False
                    self.begin_cycle(k)
                    if self.skip_drain():
                        st = self.run_until(lambda: all(t.dead for t in self.primaries))
                    else:
                        st = self.run_until(lambda: self.drained)
                        if st == "done" and not self.drained:
                            self.drained = True
                            self.check_drained("every thread has ended")
                        if st == "done":
                            self.phase = "idle"
                            target = self.nquiet + len(s.live()) + 1
                            st = self.run_until(lambda: self.nquiet >= target)
                    if st == "done":
                        self.phase = "close"
                        td = s.spawn("c%d" % k, self.teardown_main)
                        st = self.run_until(lambda: td.dead)
                        if st == "done":
                            self.after_close(td)
                            st = self.run_until(None)
                            if st == "done":
                                self.end_cycle(k)
                    if st != "done" or self.violations:
                        break
                self.status = st
                self.final_checks()
            finally:
                self.leaked = s.shutdown()
                self.cleanup()
        return self

    def skip_drain(self):
        return False

    def ncycles(self):
        return 1

    def begin_cycle(self, k):
        self.spawn_primaries()

    def end_cycle(self, k):
        pass

    def cleanup(self):
        pass

    def after_close(self, td):
        pass

    def crashed(self):
        return [(t.role, repr(t.crash)) for t in self.s.threads if t.crash is not None]

    def where(self):
        return dict((t.role, t.pending.label) for t in self.s.threads if not t.dead and t.pending is not None)

    def schedule(self):
        return [st.role for st in self.s.trace]


# ---- C04: notifications on a notification pool ----------------------------------------------------------------------

STYLES = ["2.0-noid", "2.0-null", "2.0-empty", "1.0-null", "1.0-empty"]
KNOWN_METHODS = {"ret": 1, "boom": 1, "two": 2, "gwait0": 1, "gwait1": 1, "gopen0": 1, "gopen1": 1}   # name -> arity


def build_entry(e):
    """Entry spec -> the JSON value put on the wire."""
    if e[0] == "bad":
        return e[1]
    if e[0] == "c":
        _c, method, tok, rid = e
        return {"jsonrpc": "2.0", "method": method, "params": [tok], "id": rid}
    _n, style, method, tok = e
    d = {"method": method, "params": [tok]}
    if style.startswith("2.0"):
        d["jsonrpc"] = "2.0"
    if style.endswith("null"):
        d["id"] = None
    elif style.endswith("empty"):
        d["id"] = ""
    return d


def expect_wire_entry(obj):
    """
    What the property text says about one entry on the wire, for the fixture registry KNOWN_METHODS:
    (is_notification, must_be_answered, token, executions expected).
    A well-formed request whose id is absent, null or empty is a notification: never answered, executed exactly once
    (zero times when the method does not exist or the arguments do not bind).  Anything else is answered.
    """
    wf = (isinstance(obj, dict) and ("jsonrpc" in obj or "id" in obj) and isinstance(obj.get("method"), str) and obj["method"]
          and isinstance(obj.get("params", []), (list, dict)))
    if not wf:
        return False, True, None, 0
    rid = obj.get("id")
    notif = "id" not in obj or rid is None or (isinstance(rid, str) and rid == "")
    params = obj.get("params", [])
    tok = params[0] if isinstance(params, list) and params and isinstance(params[0], int) else None
    arity = KNOWN_METHODS.get(obj["method"])
    runs = 1 if (arity is not None and isinstance(params, list) and len(params) == arity) else 0
    return notif, not notif, tok, runs


class NotifRun(StageRun):
    PROP = "C04"

    def __init__(self, program, chooser, **kw):
        StageRun.__init__(self, program, chooser, **kw)
        self.replies = []     # (thread, op index, wire value, outcome kind, reply)
        self.want = {}        # token -> (executions expected, is notification, description)

    def item_label(self, it):
        try:
            return "%s(%s)" % (it[1][0], it[1][1][0])
        except Exception:  # noqa: BLE001
            return "task"

    def on_twice(self, tok):
        self.violate("executed-twice", "the callable of entry %d has been invoked %d times (by %r)"
                     % (tok, len(self.execs[tok]), [r for r, _ in self.execs[tok]]))

    def setup(self):
        p = self.program
        self.pool = tp.ThreadPool(p["max"], p["min"], timeout=60)
        self.pool._done_event.kind = "event"
        self.pool.start()
        self.cfg = jsonrpclib.config.Config(version=p.get("ver", 2.0))
        self.disp = S.SimpleJSONRPCDispatcher(config=self.cfg)
        run = self

        def mk(name, kind, gate):
            if name == "two":
                def f(tok, other):
                    return run.body(tok, kind, gate)
            else:
                def f(tok):
                    return run.body(tok, kind, gate)
            f.__name__ = name
            return f
        self.funcs = {"ret": mk("ret", "ret", None), "boom": mk("boom", "boom", None), "two": mk("two", "ret", None)}
        for g in (0, 1):
            self.funcs["gwait%d" % g] = mk("gwait%d" % g, "gwait", g)
            self.funcs["gopen%d" % g] = mk("gopen%d" % g, "gopen", g)
        for g in (0, 1):
            if g not in self.gates:
                self.gates[g] = sched.SEvent(self.s, "gate")
                self.gates[g]._flag = True     # a gate the program does not use is open
        self.custom = None
        if p.get("custom"):
            def custom(method, params):
                fn = run.funcs.get(method)
                if fn is None:
                    raise KeyError("no such method %s" % method)
                return fn(*params)
            self.custom = custom
        else:
            for name, fn in self.funcs.items():
                self.disp.register_function(fn, name)
        self.disp.set_notification_pool(self.pool)

    def spawn_primaries(self):
        for i, script in enumerate(self.program["threads"]):
            self.primaries.append(self.s.spawn("r%d" % i, (lambda i=i, script=script: self.request_main(i, script))))

    def request_main(self, i, script):
        s = self.s
        for k, op in enumerate(script):
            if op[0] == "open":
                self.gates[op[1]].set()
                continue
            entries = [build_entry(e) for e in op[1]]
            wire = entries if op[2] else entries[0]
            body = json.dumps(wire)
            s.yield_op("call.post", arg=body)
            for obj in entries:
                notif, _ans, tok, runs = expect_wire_entry(obj)
                if tok is not None:
                    self.want[tok] = (runs, notif, json.dumps(obj))
            kind, val = impl.outcome(self.disp._marshaled_dispatch, body, self.custom)
            self.replies.append((i, k, wire, kind, val))
            if self.keep_proj:
                self.notes.append((len(s.trace), "r%d: _marshaled_dispatch(%s) -> %s %r" % (i, body, kind, val)))
            self.check_reply(i, k, wire, entries, op[2], kind, val)

    def check_reply(self, i, k, wire, entries, is_batch, kind, val):
        """Never answered: the reply holds one response object per entry that is not a notification, and no other."""
        where = "request thread r%d, body %d (%s)" % (i, k, json.dumps(wire))
        if kind == "err":
            self.violate("dispatcher-raised", "%s: _marshaled_dispatch raised %r" % (where, val))
            return
        exps = [expect_wire_entry(o) for o in entries]
        n_answer = sum(1 for e in exps if e[1])
        if val == "":
            resp = []
        else:
            try:
                doc = json.loads(val)
            except ValueError:
                self.violate("reply-not-json", "%s: reply %r" % (where, val))
                return
            resp = doc if isinstance(doc, list) else [doc]
        if len(resp) > n_answer:
            self.violate("notification-answered", "%s: %d response objects although only %d entries are not notifications: %s"
                         % (where, len(resp), n_answer, val))
        elif len(resp) < n_answer:
            self.violate("call-unanswered", "%s: %d response objects for %d entries that are not notifications: %s"
                         % (where, len(resp), n_answer, val))
        else:
            want_ids = [o.get("id") if isinstance(o, dict) else None for o, e in zip(entries, exps) if e[1]]
            got_ids = [d.get("id") if isinstance(d, dict) else "<not an object>" for d in resp]
            if want_ids != got_ids:
                self.violate("notification-answered", "%s: response ids %r, the entries to answer have %r" % (where, got_ids, want_ids))

    def check_drained(self, why):
        """Executed exactly once: read when nothing can run any more without a further request."""
        for tok, (runs, notif, text) in sorted(self.want.items()):
            got = len(self.execs.get(tok, []))
            if got == runs or got > 1:      # more than once: already reported when it happened
                continue
            what = "notification" if notif else "call"
            if got < runs:
                self.violate("notification-lost" if notif else "call-lost",
                             "%s %s was accepted%s but its callable has run %d times instead of %d when %s; pool: %s"
                             % (what, text, " (no answer)" if notif else "", got, runs, why, self.pool_state()))
            else:
                self.violate("executed-unexpectedly", "%s %s ran %d times, expected %d" % (what, text, got, runs))

    def teardown_main(self):
        self.s.yield_op("call.stop")
        self.pool.stop()

    def final_checks(self):
        cr = self.crashed()
        if cr:
            self.violate("thread-crashed", "managed threads ended with an exception: %r" % cr)
        if self.status in ("deadlock", "steplimit", "watchdog") and self.phase == "main":
            self.violate("deadlock", "%s before every notification had run: threads at %r; pool: %s"
                         % (self.status, self.where(), self.pool_state()))
            self.check_drained("the run ended in a %s" % self.status)
        # a stop() of the notification pool that hangs is C11's subject: not reported here


# ---- C12: fake requests handed to the request pool -----------------------------------------------------------------------


class AcceptRun(StageRun):
    """
    Life cycles of the program: cycle 0 = `reqs` / `close` / `selfopen` of the program itself; cycle k >= 1 =
    program["again"][k-1] = {"server": "same" | "new", "reqs": [...], "close": ..., "selfopen": ...} — the USER-SUPPLIED pool
    is reused: the managed accept thread a<k> first calls pool.start() on the pool that the previous server_close() stopped,
    then (server "new") constructs a second PooledJSONRPCServer on that pool, or keeps the closed one ("same":
    process_request needs no socket), hands it the requests of the cycle; then c<k> calls server_close().  Tokens number the
    requests of all cycles consecutively.
    """
    PROP = "C12"

    def __init__(self, program, chooser, **kw):
        StageRun.__init__(self, program, chooser, **kw)
        self.cycles = [{"reqs": program["reqs"], "close": program.get("close"), "selfopen": bool(program.get("selfopen")),
                        "server": "new"}] + [dict(c) for c in program.get("again", [])]
        self.reqinfo = {}     # token -> (cycle, kind, gate)
        tok = 0
        for k, c in enumerate(self.cycles):
            c["base"] = tok
            for kind, gate in c["reqs"]:
                self.reqinfo[tok] = (k, kind, gate)
                tok += 1
        self.accepted = []    # tokens of the current cycle whose process_request returned
        self.servers = []
        self.server = None
        self.close_returned = False
        self.n_at_close = None

    def item_label(self, it):
        try:
            return "req%d" % it[1][0][1]
        except Exception:  # noqa: BLE001
            return "task"

    def on_twice(self, tok):
        self.violate("request-twice", "request %d has been handled %d times (by %r)"
                     % (tok, len(self.execs[tok]), [r for r, _ in self.execs[tok]]))

    def ncycles(self):
        return len(self.cycles)

    def skip_drain(self):
        return self.cycles[self.cycle]["close"] == "inflight"

    def make_server(self, user):
        run = self
        server = S.PooledJSONRPCServer(("127.0.0.1", 0), logRequests=False, bind_and_activate=False,
                                       config=jsonrpclib.config.Config(), thread_pool=user)

        def stub(request, client_address):
            # stands for socketserver's process_request_thread (finish_request + shutdown_request of that connection)
            kind, gate, tok = request[0], request[2], request[1]
            if client_address != ("fake", tok):
                run.violate("wrong-arguments", "handler of request %d got client address %r" % (tok, client_address))
            return run.body(tok, kind, gate)
        server.process_request_thread = stub
        self.servers.append(server)
        self.server = server
        return server

    def setup(self):
        p = self.program
        user = None
        if p.get("pool") is not None:
            user = tp.ThreadPool(p["pool"][0], p["pool"][1], timeout=60)
            user.start()
        self.make_server(user)
        self.pool = self.server._PooledJSONRPCServer__request_pool
        self.pool._done_event.kind = "event"

    def begin_cycle(self, k):
        self.accepted = []
        self.close_returned = False
        self.n_at_close = None
        self.selfopen = self.cycles[k]["selfopen"]
        self.primaries.append(self.s.spawn("a%d" % k, lambda: self.accept_main(k)))

    def accept_main(self, k):
        s = self.s
        cyc = self.cycles[k]
        if k:
            # the user starts its pool again and hands it to a server
            s.yield_op("call.pool_start")
            kk, v = impl.outcome(self.pool.start)
            if kk == "err":
                self.violate("pool-start-raised", "pool.start() of the stopped user pool raised %r" % (v,))
                return
            if cyc.get("server") == "new":
                self.make_server(self.pool)
        for i, (kind, gate) in enumerate(cyc["reqs"]):
            tok = cyc["base"] + i
            s.yield_op("call.process_request", arg=tok)
            kk, v = impl.outcome(self.server.process_request, (kind, tok, gate), ("fake", tok))
            if kk == "err":
                self.violate("process_request-raised", "process_request of request %d raised %r" % (tok, v))
            else:
                self.accepted.append(tok)

    def check_drained(self, why):
        """No lost or duplicated executions: every request handed to a running pool has been handled exactly once."""
        for tok in self.accepted:
            got = len(self.execs.get(tok, []))
            if got == 0:
                self.violate("request-lost", "request %d (%s) was accepted by process_request%s but never handled, when %s; pool: %s"
                             % (tok, self.reqinfo[tok][1],
                                " of life cycle %d of the reused pool (restarted with pool.start())" % (self.cycle + 1) if self.cycle else "",
                                why, self.pool_state()))

    def teardown_main(self):
        self.s.yield_op("call.server_close")
        self.server.server_close()
        self.close_returned = True

    def after_close(self, td):
        """server_close() has returned: in-flight handlers have completed, socket closed, pool stopped."""
        if td.crash is not None or not self.close_returned:
            return
        running = [t for t in self.execs if t not in self.ended]
        if running:
            self.violate("close-early", "server_close() returned while the handlers of requests %r are still running" % running)
        if self.server.socket.fileno() != -1:
            self.violate("socket-open", "listening socket still open after server_close()")
        if not self.pool._done_event._flag:
            self.violate("pool-running", "request pool not stopped after server_close()")
        self.n_at_close = sum(len(v) for v in self.execs.values())

    def end_cycle(self, k):
        """server_close() has returned and nothing can run any more: every worker of the stopped pool has terminated."""
        if not self.close_returned:
            return
        alive = [t.role for t in self.s.threads if not t.dead]
        if alive:
            self.violate("workers-alive", "threads still alive after server_close(): %r" % alive)
        now = sum(len(v) for v in self.execs.values())
        if self.n_at_close is not None and now != self.n_at_close:
            self.violate("handled-after-close", "%d handler executions began after server_close() had returned"
                         % (now - self.n_at_close))

    def final_checks(self):
        cr = self.crashed()
        if cr:
            self.violate("thread-crashed", "managed threads ended with an exception: %r" % cr)
        st = self.status
        if st in ("deadlock", "steplimit", "watchdog"):
            if self.phase == "close":
                self.violate("close-hang", "server_close() -> pool.stop(): %s with threads at %r although every in-flight handler could "
                             "complete; pool: %s" % (st, self.where(), self.pool_state()))
            else:
                self.violate("deadlock", "%s while requests are pending: threads at %r; pool: %s" % (st, self.where(), self.pool_state()))
                self.check_drained("the run ended in a %s" % st)

    def cleanup(self):
        for server in self.servers:
            try:
                server.socket.close()
            except Exception:  # noqa: BLE001
                pass


RUNNERS = {"notif": NotifRun, "accept": AcceptRun}


def run_program(program, chooser, keep_proj=False, max_steps=MAX_STEPS):
    return RUNNERS[program["stage"]](program, chooser, max_steps=max_steps, keep_proj=keep_proj).execute()


# ---- generators --------------------------------------------------------------------------------------------------------

CONFIGS = [(mx, mn) for mx in (1, 2, 3) for mn in range(0, mx + 1)]


def gen_notif_program(rng, cfg=None):
    mx, mn = cfg if cfg is not None else rng.choice(CONFIGS + [(1, 0), (2, 0), (3, 0)])
    selfopen = mx >= 2 and rng.random() < 0.25
    race = selfopen and rng.random() < 0.5
    nthreads = 1 if race else rng.choice([1, 1, 2])
    tok = [0]

    def T():
        tok[0] += 1
        return tok[0]

    def notif(method):
        return ["n", rng.choice(STYLES), method, T()]

    def call(method):
        t = T()
        return ["c", method, t, rng.choice([t, "id%d" % t, 0, -t, 1.5, True, [t]])]

    entries = []
    gates = set()
    if selfopen:
        # mutually dependent notifications: at most max-1 waiters and their opener, all on the pool; a correct pool
        # (C10: grows to max_threads while work waits) runs them all without outside help
        for _ in range(rng.randint(1, mx - 1)):
            entries.append(notif("gwait0"))
        entries.append(notif("gopen0"))
        gates.add(0)
        if race:
            # shaped for accounting races: quick notifications first (their worker is evaluating its retirement while the
            # burst of dependent ones arrives), then the waiters and their opener, one body each
            entries = [rng.choice([notif("ret"), notif("boom"), notif("nosuch")]) for _ in range(rng.randint(1, 2))] + entries
        else:
            for _ in range(rng.randint(0, 2)):
                entries.append(rng.choice([notif("ret"), notif("boom"), notif("nosuch"), call("ret")]))
            rng.shuffle(entries)
    else:
        for _ in range(rng.randint(2, 6)):
            r = rng.random()
            g = rng.choice([0, 0, 1])
            if r < 0.32:
                entries.append(notif("ret"))
            elif r < 0.44:
                entries.append(notif("boom"))
            elif r < 0.51:
                entries.append(notif("nosuch"))
            elif r < 0.56:
                entries.append(notif("two"))
            elif r < 0.72:
                entries.append(notif("gwait%d" % g))
                gates.add(g)
            elif r < 0.77:
                entries.append(notif("gopen%d" % g))
                gates.add(g)
            elif r < 0.86:
                entries.append(call("ret"))
            elif r < 0.89:
                entries.append(call("boom"))
            elif r < 0.92:
                entries.append(call("gwait%d" % g))
                gates.add(g)
            elif r < 0.96:
                entries.append(call("gopen%d" % g))
                gates.add(g)
            else:
                entries.append(["bad", rng.choice([1, "x", {}, {"method": "ret", "params": [0]}, None, [],
                                                   {"jsonrpc": "2.0", "id": 9, "method": 5}])])
    scripts = [[] for _ in range(nthreads)]
    i = 0
    while i < len(entries):
        n = 1 if (race or rng.random() < 0.6) else rng.randint(2, 3)
        group = entries[i:i + n]
        i += n
        is_batch = len(group) > 1 or rng.random() < 0.15
        if not is_batch and group[0][0] == "bad" and not isinstance(group[0][1], dict):
            is_batch = True      # a non-object alone is not a request at all (C05's subject)
        scripts[rng.randrange(nthreads)].append(["post", group, is_batch])
    if not selfopen:
        for g in sorted(gates):
            if rng.random() < 0.25:
                sc = scripts[rng.randrange(nthreads)]
                sc.insert(rng.randint(0, len(sc)), ["open", g])
    return {"stage": "notif", "max": mx, "min": mn, "ver": rng.choice([2.0, 2.0, 1.0]), "custom": rng.random() < 0.15,
            "selfopen": selfopen, "gates": (max(gates) + 1) if gates else 0, "threads": [sc for sc in scripts if sc] or [[]]}


POOLS = [None, None, None, None, [1, 0], [1, 0], [2, 0], [2, 0], [3, 0], [3, 0], [1, 1], [2, 1], [2, 2], [3, 1], [3, 2], [3, 3], [30, 0]]


def gen_accept_program(rng, pool="random"):
    if pool == "random":
        pool = rng.choice(POOLS)
    mx = 30 if pool is None else pool[0]
    selfopen = mx >= 2 and rng.random() < 0.2
    reqs = []
    gates = set()
    if selfopen:
        for _ in range(rng.randint(1, min(mx, 3) - 1)):
            reqs.append(["gwait", 0])
        reqs.append(["gopen", 0])
        gates.add(0)
        if rng.random() < 0.5:
            reqs = [[rng.choice(["ret", "ret", "raise"]), None] for _ in range(rng.randint(1, 2))] + reqs
        else:
            for _ in range(rng.randint(0, 2)):
                reqs.append([rng.choice(["ret", "ret", "raise"]), None])
            rng.shuffle(reqs)
    else:
        for _ in range(rng.randint(1, 5)):
            r = rng.random()
            g = rng.choice([0, 0, 1])
            if r < 0.55:
                reqs.append(["ret", None])
            elif r < 0.7:
                reqs.append(["raise", None])
            elif r < 0.92:
                reqs.append(["gwait", g])
                gates.add(g)
            else:
                reqs.append(["gopen", g])
                gates.add(g)
    program = {"stage": "accept", "pool": pool, "selfopen": selfopen, "gates": (max(gates) + 1) if gates else 0,
               "close": "inflight" if (not selfopen and rng.random() < 0.3) else "drain", "reqs": reqs}
    if pool is not None and rng.random() < 0.35:
        gen_reuse(rng, program)
    return program


def gen_reuse(rng, program):
    """A user-supplied pool with a life longer than one server: the first life cycle mostly ends with requests in flight or
    still queued; one or two further life cycles (pool.start(), the same or a new server) — a lone request, several, and
    (max >= 2) handlers that depend on each other, which only a pool that still grows as a fresh one serves."""
    mx = program["pool"][0]
    if not program["selfopen"] and rng.random() < 0.7:
        program["close"] = "inflight"
        if rng.random() < 0.5 and not any(r[0] == "gwait" for r in program["reqs"]):
            g = 0
            program["reqs"].insert(rng.randint(0, len(program["reqs"])), ["gwait", g])
            program["gates"] = max(program["gates"], g + 1)
    again = []
    for k in range(1, rng.choice([2, 2, 3])):
        g = 2 * k                # gates of their own: those of the earlier life cycles are open by now
        r = rng.random()
        selfopen = False
        if mx >= 2 and r < 0.35:
            reqs = [["gwait", g]] * rng.randint(1, min(mx, 3) - 1) + [["gopen", g]]
            reqs = [list(x) for x in reqs]
            selfopen = True
        elif r < 0.6:
            reqs = [[rng.choice(["ret", "raise"]), None]]
        else:
            reqs = [rng.choice([["ret", None], ["ret", None], ["raise", None], ["gwait", g]]) for _ in range(rng.randint(1, 4))]
            reqs = [list(x) for x in reqs]
        if any(x[1] is not None for x in reqs):
            program["gates"] = max(program["gates"], g + 1)
        again.append({"server": rng.choice(["new", "new", "same"]), "reqs": reqs, "selfopen": selfopen,
                      "close": "inflight" if (not selfopen and rng.random() < 0.4) else "drain"})
    program["again"] = again


def small_notif_programs():
    """Tiny programs for the bounded-preemption DFS (thorough tier)."""
    out = []
    N = lambda m, t, st="2.0-noid": ["n", st, m, t]  # noqa: E731
    for mx, mn in [(1, 0), (2, 0), (1, 1), (3, 0), (2, 1)]:
        def P(threads, gates=0, selfopen=False, custom=False):
            out.append({"stage": "notif", "max": mx, "min": mn, "ver": 2.0, "custom": custom, "selfopen": selfopen,
                        "gates": gates, "threads": threads})
        P([[["post", [N("ret", 1)], False], ["post", [N("ret", 2, "1.0-null")], False]]])
        P([[["post", [N("ret", 1), N("boom", 2, "2.0-empty")], True]]])
        P([[["post", [N("ret", 1)], False]], [["post", [N("boom", 2, "1.0-empty")], False]]])
        P([[["post", [N("gwait0", 1)], False], ["post", [N("ret", 2, "2.0-null")], False]]], gates=1)
        P([[["post", [N("nosuch", 1), N("ret", 2), ["c", "ret", 3, 3]], True]]], custom=True)
        if mx >= 2:
            P([[["post", [N("gwait0", 1)], False], ["post", [N("gopen0", 2)], False]]], gates=1, selfopen=True)
    return out


def small_accept_programs():
    out = []
    for pool in [None, [1, 0], [2, 0], [1, 1], [2, 1]]:
        def P(reqs, gates=0, selfopen=False, close="drain"):
            out.append({"stage": "accept", "pool": pool, "selfopen": selfopen, "gates": gates, "close": close, "reqs": reqs})
        P([["ret", None], ["ret", None]])
        P([["ret", None], ["raise", None], ["ret", None]])
        P([["gwait", 0], ["ret", None]], gates=1)
        P([["gwait", 0], ["ret", None]], gates=1, close="inflight")
        if pool is None or pool[0] >= 2:
            P([["gwait", 0], ["gopen", 0]], gates=1, selfopen=True)
    # a user-supplied pool reused by a second life cycle (appended: the quick tier's DFS floor keeps its first two programs)
    for pool in [[1, 0], [2, 0], [2, 1]]:
        for server in ("new", "same"):
            out.append({"stage": "accept", "pool": pool, "selfopen": False, "gates": 1, "close": "inflight", "reqs": [["gwait", 0]],
                        "again": [{"server": server, "reqs": [["ret", None]], "selfopen": False, "close": "drain"}]})
        if pool[0] >= 2:
            out.append({"stage": "accept", "pool": pool, "selfopen": False, "gates": 3, "close": "inflight", "reqs": [["gwait", 0]],
                        "again": [{"server": "new", "reqs": [["gwait", 2], ["gopen", 2]], "selfopen": True, "close": "drain"}]})
    return out


# ---- replay, shrinking, DFS (generic in the runner) ------------------------------------------------------------------


def replay_schedule(program, roles, keep_proj=False):
    return run_program(program, sched.ReplayChooser(roles), keep_proj=keep_proj)


def has(run, key):
    return any(v["key"] == key for v in run.violations)


def shrink(program, roles, key, rounds=40):
    """Drops context switches while the same violation is still found by replay (as poolcommon.shrink)."""
    r = replay_schedule(program, roles)
    if not has(r, key):
        return roles, False
    best = r.schedule()
    tries = 0
    i = 1
    while i < len(best) and tries < rounds:
        if best[i] != best[i - 1]:
            j = i
            while j < len(best) and best[j] == best[i]:
                j += 1
            cand = best[:i] + [best[i - 1]] * (j - i) + best[i:]
            tries += 1
            r = replay_schedule(program, cand)
            if has(r, key) and pc.switches(r.schedule()) < pc.switches(best):
                best = r.schedule()
                continue
        i += 1
    return best, True


def smaller_programs(program):
    """Programs with one operation / entry / request removed (token numbers are kept, so messages stay comparable)."""
    out = []
    if program["stage"] == "notif":
        ths = program["threads"]
        for i, sc in enumerate(ths):
            for k, op in enumerate(sc):
                rest = [list(x) for x in ths]
                rest[i] = sc[:k] + sc[k + 1:]
                rest = [x for x in rest if x]
                if rest:
                    out.append(dict(program, threads=rest))
                if op[0] == "post" and len(op[1]) > 1:
                    for e in range(len(op[1])):
                        ths2 = [list(x) for x in ths]
                        ths2[i] = sc[:k] + [["post", op[1][:e] + op[1][e + 1:], op[2]]] + sc[k + 1:]
                        out.append(dict(program, threads=ths2))
    else:
        reqs = program["reqs"]
        again = program.get("again", [])
        if again:
            out.append(dict(program, again=again[:-1]) if len(again) > 1 else dict((k, v) for k, v in program.items() if k != "again"))
            for n, c in enumerate(again):
                for k in range(len(c["reqs"])):
                    if len(c["reqs"]) > 1:
                        out.append(dict(program, again=again[:n] + [dict(c, reqs=c["reqs"][:k] + c["reqs"][k + 1:])] + again[n + 1:]))
        for k in range(len(reqs)):
            if len(reqs) > 1:
                out.append(dict(program, reqs=reqs[:k] + reqs[k + 1:]))
    return out


def shrink_program(program, roles, key, rng, budget=160, per_candidate=12):
    """
    Greedy: drop one operation at a time while some schedule (the current one replayed, else a few random ones) still shows
    the same violation.  Best effort, bounded by `budget` runs.  Returns (program, roles).
    """
    used = 0
    progress = True
    while progress and used < budget:
        progress = False
        for cand in smaller_programs(program):
            tries = [sched.ReplayChooser(roles)]
            for _ in range(per_candidate):
                tries.append(rng.choice([sched.RandomChooser(rng), sched.StickyChooser(rng, 0.8), sched.PCTChooser(rng, 2, 60)]))
            hit = None
            for ch in tries:
                used += 1
                r = run_program(cand, ch)
                if has(r, key):
                    hit = r
                    break
                if used >= budget:
                    break
            if hit is not None:
                program, roles = cand, hit.schedule()
                progress = True
                break
            if used >= budget:
                break
    return program, roles


def dfs(program, max_preempt=2, max_runs=300, on_run=None):
    """Bounded-preemption depth-first exploration (as poolcommon.dfs, for these runners)."""
    stack = [([], 0)]
    seen = set()
    runs = 0
    while stack and runs < max_runs:
        prefix, used = stack.pop()
        ch = sched.PrefixChooser(prefix)
        r = run_program(program, ch)
        runs += 1
        if on_run is not None and on_run(r):
            return runs
        alts = ch.alts
        for n in range(len(alts) - 1, len(prefix) - 1, -1):
            chosen, roles, cur = alts[n]
            for alt in roles:
                if alt == chosen:
                    continue
                cost = 1 if cur is not None and alt != cur else 0
                if used + cost > max_preempt:
                    continue
                pre = tuple([a[0] for a in alts[:n]] + [alt])
                if pre in seen:
                    continue
                seen.add(pre)
                stack.append((list(pre), used + cost))
    return runs


def payload(program, run, v):
    return {"stage": program["stage"], "program": program, "schedule": run.schedule(), "status": run.status, "violation": v,
            "trace": [st.token() for st in run.s.trace][-60:]}


def describe(program):
    if program["stage"] == "notif":
        print("notification pool: ThreadPool(max_threads=%d, min_threads=%d), started; server version %s; %s dispatcher%s" % (
            program["max"], program["min"], program.get("ver"), "custom dispatch function" if program.get("custom") else "default",
            "; gates are opened by pool tasks only" if program.get("selfopen") else ""))
        for i, sc in enumerate(program["threads"]):
            for op in sc:
                if op[0] == "open":
                    print("  r%d: opens gate %d" % (i, op[1]))
                else:
                    es = [build_entry(e) for e in op[1]]
                    print("  r%d: _marshaled_dispatch(%s)" % (i, json.dumps(es if op[2] else es[0])))
    else:
        print("PooledJSONRPCServer(bind_and_activate=False), request pool: %s; close: %s%s" % (
            "default ThreadPool(30, 0)" if program["pool"] is None else "user ThreadPool(%d, %d), started" % tuple(program["pool"]),
            program.get("close"), "; gates are opened by handlers only" if program.get("selfopen") else ""))
        n = 0
        for k, c in enumerate([program] + list(program.get("again", []))):
            if k:
                print("  -- life cycle %d of the same pool: a%d calls pool.start() and hands the pool to %s; close: %s%s" % (
                    k + 1, k, "a NEW PooledJSONRPCServer" if c.get("server") == "new" else "the SAME (closed) server", c.get("close"),
                    "; gates are opened by handlers only" if c.get("selfopen") else ""))
            for rq in c["reqs"]:
                print("  a%d: process_request(request %d: handler %s%s)" % (k, n, rq[0], "" if rq[1] is None else " gate %d" % rq[1]))
                n += 1


def replay(payload_obj, prop=None):
    """Re-executes a replay payload on the real code; prints what happens; returns 1 when a violation recurs."""
    case = payload_obj.get("case") or payload_obj
    program = case["program"]
    roles = case["schedule"]
    describe(program)
    r = replay_schedule(program, roles, keep_proj=True)
    print("schedule: %d steps, %d context switches; status=%s" % (len(roles), pc.switches(roles), r.status))
    notes = dict()
    for n, text in r.notes:
        notes.setdefault(n, []).append(text)
    for st in r.s.trace:
        for text in notes.get(st.index, []):
            print("      -- %s" % text)
        print("  %3d %-3s %-26s %s" % (st.index, st.role, st.label + (":timeout" if st.timeout else "")
                                        + (" %s" % st.arg if st.label.startswith("body.") else ""), st.proj))
    for text in notes.get(len(r.s.trace), []):
        print("      -- %s" % text)
    hit = [v for v in r.violations if prop is None or v["property"] == prop]
    for v in r.violations:
        print("monitor: [%s] %s: %s (step %d, phase %s)" % (v["property"], v["key"], v["detail"], v["step"], v["phase"]))
    if hit:
        print("VIOLATION reproduced")
        return 1
    print("no violation on this tree")
    return 0


# ---- the stage run by props/c04.py and props/c12.py ---------------------------------------------------------------------


def features(program):
    if program["stage"] == "notif":
        ms = set()
        for sc in program["threads"]:
            for op in sc:
                if op[0] == "post":
                    for e in op[1]:
                        ms.add(e[0] + ":" + (e[2] if e[0] == "n" else e[1] if e[0] == "c" else "bad")[:5] + ("+b" if op[2] else ""))
        return (program["max"], program["min"], len(program["threads"]), program["selfopen"], program["custom"], ",".join(sorted(ms)))
    reuse = tuple((c.get("server"), c.get("selfopen"), c.get("close"), ",".join(r[0] for r in c["reqs"])) for c in program.get("again", []))
    return (str(program["pool"]), program["selfopen"], program["close"], ",".join(r[0] for r in program["reqs"])) + reuse


class Stage(object):
    def __init__(self, ctx, pid, label):
        self.ctx = ctx
        self.pid = pid
        self.label = label
        self.seen = {}
        self.runs = 0
        self.steps = 0
        self.leaked = 0
        self.status = {}

    def record(self, program, r, chooser_name):
        ctx = self.ctx
        self.runs += 1
        self.steps += len(r.s.trace)
        self.leaked += r.leaked
        self.status[r.status] = self.status.get(r.status, 0) + 1
        sw = pc.switches(r.schedule())
        ctx.count(case_repr={"stage": self.label, "program": program, "chooser": chooser_name, "status": r.status,
                             "steps": len(r.s.trace)} if self.runs <= 2 else None,
                  nontrivial_key=(self.label,) + features(program) + (r.status, min(sw // 8, 6)),
                  kind="%s/%s/%s" % (self.label, chooser_name, r.status))
        if program.get("again"):
            h = getattr(ctx, "hist", None)
            if h is not None:
                h["%s/pool-reused/pool(max=%d,min=%d)" % ((self.label,) + tuple(program["pool"]))] += 1
                h["%s/pool-reused/first-close:%s/life-cycles:%d" % (self.label, program.get("close"), 1 + len(program["again"]))] += 1
                for c in program["again"]:
                    h["%s/pool-reused/next:%s-server%s" % (self.label, c.get("server"),
                                                          "/dependent-handlers" if c.get("selfopen") else "")] += 1
        for v in r.violations:
            if v["key"] in self.seen:
                self.seen[v["key"]] += 1
                continue
            self.seen[v["key"]] = 1
            roles, shrunk = r.schedule(), False
            if len(self.seen) <= 3:
                try:
                    if len(self.seen) == 1:
                        program, roles = shrink_program(program, roles, v["key"], self.ctx.derive_rng(self.label + "/shrink"))
                    roles, shrunk = shrink(program, roles, v["key"])
                except Exception:  # noqa: BLE001 - shrinking is best effort
                    program, roles, shrunk = r.program, r.schedule(), False
            rr = replay_schedule(program, roles) if shrunk else r
            vv = next((x for x in rr.violations if x["key"] == v["key"]), v)
            ctx.violate(payload(program, rr, vv), "[%s, %s] %s: %s" % (self.pid, self.label, vv["key"], vv["detail"]),
                        key="%s:%s" % (self.label, vv["key"]))

    def finish(self):
        ctx = self.ctx
        ctx.extra[self.label + "_runs"] = self.runs
        ctx.extra[self.label + "_scheduler_steps"] = self.steps
        ctx.extra[self.label + "_final_status"] = dict(self.status)
        ctx.extra[self.label + "_violation_keys"] = dict(self.seen)
        if self.leaked:
            pc.raise_infra("managed OS threads leaked: %d" % self.leaked)


def explore(ctx, pid, label, gen, smalls, quick_runs, thorough_runs, dfs_runs):
    """
    Random programs x random schedules (uniform / sticky / PCT depth 1-3); thorough: bounded-preemption DFS (<= 2
    preemptions) over the tiny programs.  Own PRNG stream, so the other stages of the property see the same cases as before.
    """
    st = Stage(ctx, pid, label)
    rng = ctx.derive_rng(label)
    n_runs = ctx.budget(quick_runs, thorough_runs)
    if ctx.searching:
        n_runs = min(n_runs, 3000)
    last_new, nkeys = 0, 0
    for k in range(n_runs):
        program = gen(rng)
        name, ch = pc.gen_chooser(rng, horizon=60)
        st.record(program, run_program(program, ch), name)
        if len(st.seen) != nkeys:
            nkeys, last_new = len(st.seen), k
        if len(st.seen) >= 3 or (st.seen and k - last_new >= 150):
            break      # a failing input is in hand: no point in spending the rest of the budget
    if not st.seen:
        # bounded-preemption DFS: every tiny program in the thorough tier; in the quick tier the first two only, with a small
        # budget (a seed-independent floor: the two seeded retirement defects fall within it)
        todo = smalls() if ctx.thorough else smalls()[:2]
        for program in todo:
            def on_run(r, program=program):
                st.record(program, r, "dfs")
                return bool(st.seen)
            dfs(program, max_preempt=2, max_runs=dfs_runs if ctx.thorough else 100, on_run=on_run)
            if st.seen:
                break
    st.finish()
    return st
