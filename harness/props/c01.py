"""
C01 — End-to-end call transparency across versions, transports and call styles.

Model   : lean/JRV/Model/EndToEnd.lean — the client call path (_Method.__call__, dotted names, ServerProxy._request /
          _request_notify / _run_request with History, MultiCall, MultiCallIterator) composed with the dispatcher model
          (JRV.Model.Server) through a loop-back transport; the JSON text layer is abstract.
Theorems: lean/JRV/Properties/C01.lean (over every Backend satisfying its laws).
Tie     : extracted facts (tools/extractors/e2e.py) + differential correspondence: scenarios (a proxy with a History,
          a registry of instrumented callables, a sequence of calls / notifications / MultiCall batches) run on the
          REAL ServerProxy against (a) a bare SimpleJSONRPCDispatcher through impl.LoopTransport, (b) real
          SimpleJSONRPCServer / PooledJSONRPCServer over TCP and Unix sockets, and on the model (`e2e` component):
          outcome of every op, server effect log, and the documents of every recorded request / response text.
Monitor : the property statement on the real outputs: call log of the instrumented callable (exactly one call with the
          sent arguments up to JSON normalisation), returned value (normalised return value, exact types), History
          versus the texts captured by a recording wrapper around the server's `_marshaled_dispatch`; for batches the
          positional mapping and one call per job in job order.  A violating scenario is reduced to the single call
          (or single-job batch) that still violates before it is written as replay (`shrink`).
Always  : besides the random scenarios every rig (quick tier included) runs the hand-written cases and `long_payloads()`:
          arguments AND results of 1.5-9 kB (non-ASCII text of every UTF-8 width, unaligned; a long ASCII control; a
          nested value) as single call (positional, keyword), notification and at every MultiCall position, so that the
          reply spans several 1024-byte reads of the HTTP body on the real-socket rigs.  The interpreted model sees the
          long payloads once per value (first rig); elsewhere they are judged by the monitor alone.
Names   : method-name segments include private-looking ones (`_x`, `a._b`, `_w_`, `__x`, `x__`, `_`) for registered
          FUNCTIONS (the server refuses `_`-segments only while walking a registered instance); dunder names (`__x__`,
          `__`, `___`) and a function registered under "" are sent as out-of-domain ops (correspondence only).
Reuse   : scenarios that KEEP helper objects across ops (`reuse_hand_written`, `gen_reuse`): one MultiCall called two
          or three times with new jobs in between, a kept `ns = proxy.ns` used for several methods, a kept method
          called several times, a kept `_notify` object (and a namespace under it), MultiCallMethod objects extended
          by separate statements; plus odd uses (job called twice, attribute access without call, job touched after
          its batch was sent, a job whose call raised left in the list).  Such ops are compiled to steps
          (`Compiler`) that the real objects and the model's object heap (`e2e` op "script") both execute.
Sized   : `sized_payloads`: bodies of 1 KiB (every alignment of a 7-byte multi-byte unit against the 1024 boundary),
          64 KiB and, over the real sockets, more than 10 MiB (the do_POST read loop takes at most 10 MiB per read),
          ASCII and non-ASCII, as argument, result, keyword, notification and batch member.
Order   : dict key ORDER is not compared (JSON objects are unordered; Python's == ignores it); how often the real
          backend changed the order of a rendered dict is measured and reported (`backend_key_order_changed`), not
          alarmed on — see the header of lean/JRV/Properties/C01.lean.
Mixed   : out-of-domain batches mixing fates (unknown method, arguments that do not bind, ordinary jobs, notifications)
          are run for correspondence with the model (`C01_batch_mixed`): per-position outcome and effect log.
Registry: the server's registry as a MUTABLE object over a history (harness/c01reg.py, model JRV.Model.RegistryProg):
          scenarios whose ops interleave calls / notifications / batches with register_function (three spellings) /
          `del funcs[name]` / register_instance (replacement, None, an object registered again later) / setattr and
          delattr on (attributes of) instance objects, registered or not / register_introspection_functions.  Every
          callable of the pool logs its identity; what a name denotes at the moment of a call is computed from the
          ops alone (`c01reg.Sim`), so the monitor alarms when a STALE callable runs (a name that was called before the
          registry changed).  `system.listMethods` must list what is registered now.  Hand-written programs (one per
          way a denotation can change) run on every rig; random programs return to a few focus names after every change.
Sizes   : `c01reg.sized_scenarios`: boundary sizes 0..12, 15-17, 19-21, 31-33, 63-65, 99-101, 127-129 (thorough: up to
          1025) for every count the other generators keep small — jobs per batch (results identify their position: the
          callable returns its arguments and job i is given i; no / some / all / first / last notifications), positional
          arguments, keywords, segments of a dotted name, nesting depth and width of a value, registered callables,
          exchanges on one proxy and History, uses of one kept MultiCall / method object, length of a method name.
          Histogram keys `size/<dimension>/<n>`.
Names2  : harness/c01names.py: names that LOOK special to some layer (reserved `rpc.` prefix, `system.` prefix with and
          without the introspection functions registered, Python keywords, attribute names of the dispatcher / server
          classes, words of the client classes, digit-first, Unicode incl. NFKC-sensitive, whitespace, control characters,
          very long, dots at the ends, empty segments, words and punctuation of JSON).  A FIXED list, every name of it on every
          run and seed: as registered function and as attribute path of the registered instance, under all four version
          pairs on the bare rig (two on the others), single call positional and keyword, notification, three batch
          positions; plus random draws (`segment`, `gen_callables`).  Histogram keys `name/<class>` (by predicate);
          `name/excluded-dunder`, `name/excluded-proxy-own-attr` count what the quantifier leaves out.
Assumed : the JSON codec laws `Backend.roundtrip` and `Backend.batch` — tested here against jsonrpclib.jdumps/jloads on
          every generated value and batch.
"""
import json
import os
import re
import shutil
import socket
import tempfile
import threading

import c01names
import c01reg
import gen
import impl
import pyval
import servercases as sc

REQUIRED_THEOREMS = [
    "C01_request", "C01_single", "C01_single_jsonclass", "C01_kwargs", "C01_dotted", "C01_no_args", "C01_no_args_wire",
    "C01_falsy", "C01_raises", "C01_notify", "C01_notify_jsonclass", "C01_notify_jsonclass_full",
    "C01_batch", "C01_batch_all_notifications", "C01_batch_position", "C01_batch_mixed", "C01_batch_jsonclass",
    "C01_batch_jsonclass_partial", "C01_methodParams_shape", "C01_jobParams_shape",
    # names built by attribute access; which names are refused; the empty name
    "C01_notify_dotted", "C01_extendJobName", "C01_mkJob", "C01_dunder_test", "C01_empty_name_refused",
    # kept helper objects
    "C01_method_object_immutable", "C01_method_cells_never_change", "C01_job_object_extended", "C01_kept_namespace",
    "C01_call_via_objects", "C01_addJob", "C01_addJobs", "C01_multicall_call", "C01_multicall_reuse",
    "C01_multicall_keeps_on_failure",
    # transports / server classes; satisfiability of the codec laws
    "C01_over_wire", "C01_backend_exists",
    # the registry as a mutable object (JRV.Model.RegistryProg)
    "C01_registry_requests_leave_state", "C01_registry_fresh_dispatcher", "C01_registry_static",
    "C01_registry_function_wins", "C01_registry_function_other", "C01_registry_function_deleted",
    "C01_registry_instance_replaced", "C01_registry_attribute_rebound", "C01_registry_attribute_deleted",
    "C01_registry_list_methods_current", "C01_single_after_program", "C01_batch_after_program",
    # companions of the extracted facts (JRV/Properties/C01Gen.lean)
    "C01_gen_methodSendsArgsElseKwargs", "C01_gen_requestReturnsResult", "C01_gen_historyOrder",
    "C01_gen_multicallFormat", "C01_gen_multicallVersion", "C01_gen_iteratorPositional", "C01_gen_proxyOwnAttrs",
    "C01_gen_proxyGetattrRefuses", "C01_gen_proxyGetattrReturns", "C01_gen_methodGetattr", "C01_gen_jobGetattr",
    "C01_gen_multicallClearsJobs", "C01_gen_multicallGetattrAppends", "C01_gen_callReceiverPositional",
    "C01_gen_requestWrites", "C01_gen_servePathSharedWrites", "C01_gen_multicallResponsesUntouched",
    "C01_gen_multicallJobIds", "C01_gen_methodNameInspections",
]

J = impl.jsonrpclib.jsonrpc
S = sc.S
WATCHDOG = 8.0

# ------------------------------------------------------------------------------------------------
# values

EDGE_VALUES = [
    0, -0.0, 0.0, 2 ** 53, 2 ** 53 + 1, -(2 ** 53) - 1, 2 ** 53 - 1, 1e-320, 5e-324, 1.5, "", "\u0000", "\U0001f600",
    "é", "à́", "\U0001f468‍\U0001f469", [], {}, [[]], [[[[[[[]]]]]]], {"": {"": {"": {}}}},
    {"not an identifier": 1, "a b": 2, "1": 3, "é": 4, "": 5}, [{}], {"k": []}, True, False, None, [None], [0, False, ""],
    "null", "true", "0", " ", "\\", "\"", "\n", " ", "퟿", "", "￿",
]
FALSY = [0, False, "", [], {}, None, 0.0, -0.0]


def value(rng, size=4, depth=3, jc_keys=False):
    r = rng.random()
    if r < 0.3:
        return rng.choice(EDGE_VALUES)
    v = gen.json_value(rng, size, depth)
    if jc_keys and rng.random() < 0.15:
        v = {"__jsonclass__": ["builtins.list", [v]], "x": v}
    return v


def tuplify(v):
    if isinstance(v, list):
        return tuple(tuplify(x) for x in v)
    if isinstance(v, dict):
        return dict((k, tuplify(x)) for k, x in v.items())
    return v


def norm(v):
    """JSON normalisation, by CPython's own codec (tuples -> lists; int/float identity preserved)."""
    return json.loads(json.dumps(v))


def strict_eq(a, b):
    """Equality with exact types: bool vs int vs float, floats by repr (-0.0), containers recursively."""
    if type(a) is not type(b):
        return False
    if isinstance(a, float):
        return repr(a) == repr(b)
    if isinstance(a, (list, tuple)):
        return len(a) == len(b) and all(strict_eq(x, y) for x, y in zip(a, b))
    if isinstance(a, dict):
        return set(a.keys()) == set(b.keys()) and all(strict_eq(a[k], b[k]) for k in a)
    return a == b


def view_eq(a, b):
    """Callee views (named values with the default sentinel, *args, **kwargs)."""
    (n1, a1, k1), (n2, a2, k2) = a, b
    if len(n1) != len(n2):
        return False
    for x, y in zip(n1, n2):
        if (x is sc._D) != (y is sc._D):
            return False
        if x is not sc._D and not strict_eq(x, y):
            return False
    return strict_eq(list(a1), list(a2)) and strict_eq(dict(k1), dict(k2))


# ------------------------------------------------------------------------------------------------
# names

_excluded = []


def excluded_names():
    """Attributes that normal lookup finds on the real proxy-side objects (computed from the real classes)."""
    if not _excluded:
        tr = impl.LoopTransport(lambda body: "")
        proxy = J.ServerProxy("http://localhost/", transport=tr)
        mc = J.MultiCall(proxy)
        objs = [proxy, J._Method(lambda *a: None, "m"), J._Notify(lambda *a: None), mc,
                J.MultiCallMethod("m"), J.MultiCallNotify(mc)]
        names = set()
        for o in objs:
            names.update(dir(o))
            names.update(getattr(o, "__dict__", {}).keys())
        _excluded.append(names)
    return _excluded[0]


_excluded_first = []


def excluded_first():
    """Attributes that normal lookup finds on the objects a WHOLE method name is looked up on (`getattr(obj, name)`): the
    proxy, `proxy._notify`, a MultiCall and its `_notify` (not a `_Method` / MultiCallMethod, which see later segments)."""
    if not _excluded_first:
        tr = impl.LoopTransport(lambda body: "")
        proxy = J.ServerProxy("http://localhost/", transport=tr)
        mc = J.MultiCall(proxy)
        names = set()
        for o in (proxy, J._Notify(lambda *a: None), mc, J.MultiCallNotify(mc)):
            names.update(dir(o))
            names.update(getattr(o, "__dict__", {}).keys())
        _excluded_first.append(names)
    return _excluded_first[0]


def is_dunder(n):
    return n.startswith("__") and n.endswith("__")


IDENT_HEAD = "abcdefghijklmnopqrstuvwxyzABCXYZ"
IDENT_TAIL = IDENT_HEAD + "0123456789_"
UNI = ["é", "日本", "\U0001f600", "é", "a b", "x-y", "1st", "ключ", " ", "\u0000", "q\"", "k\\", "add!", " ", "id", "result"]


def ident(rng):
    return rng.choice(IDENT_HEAD) + "".join(rng.choice(IDENT_TAIL) for _ in range(rng.randint(0, 5)))


def underscored(rng):
    """Names with leading / trailing underscores that are NOT dunder names: private-looking (`_x`), single-underscore
    wrapped (`_x_`), half-dunder (`__x`, `x__`, `__x_`, `_x__`) and the bare `_`.  ServerProxy.__getattr__ proxies all
    of them (only `__x__` is refused); the server serves them when they name a registered *function* (it refuses
    `_`-segments only while walking the attributes of a registered instance)."""
    x = ident(rng)
    return rng.choice(["_" + x, "_" + x + "_", "__" + x, x + "__", "__" + x + "_", "_" + x + "__", "_", x + "_", "_%s_%s" % (x, x)])


def segment(rng, allow_uni=True, underscore=False):
    excl = excluded_names()
    for _ in range(50):
        r = rng.random()
        if allow_uni and rng.random() < 0.12:
            # a segment that looks special to some layer (harness/c01names.py): rpc, system, keywords, dispatcher attributes…
            s = c01names.special_segment(rng)
        elif underscore and r < 0.3:
            s = underscored(rng)
        elif r < 0.6 or not allow_uni:
            s = ident(rng)
        elif r < 0.9:
            s = rng.choice(UNI)
        else:
            s = "".join(rng.choice(UNI + list(IDENT_TAIL)) for _ in range(rng.randint(1, 3)))
        if s and "." not in s and (underscore or not s.startswith("_")) and s not in excl and not is_dunder(s):
            return s
    return "m" + ident(rng)


# ------------------------------------------------------------------------------------------------
# scenarios (JSON-able: they go into replay files)
#
#   callable  {"name", "target": "func"|"attr", "sig": [names, ndefaults, star, kw], "beh": ["ret", v] | ["rett", v] |
#              ["raise", cls, text]}           "rett": the value is returned with every list turned into a tuple
#   op        {"op": "call"|"notify", "callee": i, "path": [..], "args": [..], "kwargs": {..}, "tup": bool}
#             {"op": "batch", "jobs": [{"notify": bool, "callee": i, "path", "args", "kwargs", "tup"}..]}
#             {"op": "odd", ...}  outside the property's domain, correspondence only

def gen_sig(rng):
    r = rng.random()
    if r < 0.5:
        return [[], 0, True, True]
    names = rng.sample(["a", "b", "c", "x", "y"], rng.randint(0, 3))
    return [names, rng.randint(0, len(names)), rng.random() < 0.3, rng.random() < 0.4]


def gen_callables(rng, n, special=True):
    out = []
    used = set()
    for _ in range(n):
        target = "func" if rng.random() < 0.6 else "attr"
        depth = rng.choice([1, 1, 2, 3])
        for _try in range(20):
            # leading underscores only in names of registered functions (see `underscored`)
            segs = [segment(rng, allow_uni=True, underscore=(target == "func")) for _ in range(depth)]
            name = ".".join(segs)
            if special and rng.random() < 0.08:
                # a whole name of the fixed list of special-looking names (empty segments, dots at the ends, rpc.* …)
                name = c01names.special_name(rng, target, excluded_first()) or name
            # an attribute path must not pass through another callable's leaf twice; keep names prefix-free
            # (a dotted name that as a whole starts and ends with "__" is a dunder name for `getattr(proxy, name)`)
            if all(not (name == u or name.startswith(u + ".") or u.startswith(name + ".")) for u in used) and not is_dunder(name):
                break
        else:
            name = "m" + ident(rng) + str(len(used))
        used.add(name)
        r = rng.random()
        if r < 0.08:
            beh = ["raise", rng.choice(["ValueError", "TypeError", "KeyError", "MyError", "ZeroDivisionError"]), rng.choice(["boom", "", "é"])]
        elif r < 0.3:
            beh = ["ret", rng.choice(FALSY)]
        elif r < 0.4:
            beh = ["rett", value(rng)]
        else:
            beh = ["ret", value(rng)]
        out.append({"name": name, "target": target, "sig": gen_sig(rng), "beh": beh})
    return out


def gen_args(rng, sig, jc_keys):
    """Arguments that bind: (args, kwargs)."""
    names, nd, star, kw = sig
    nreq = len(names) - nd
    styles = ["pos"]
    if nreq == 0:
        styles.append("none")
    if names or kw:
        styles.append("kw")
    style = rng.choice(styles)
    if style == "none":
        return [], {}
    if style == "pos":
        lo = max(nreq, 1)
        hi = len(names) + (rng.randint(0, 3) if star else 0)
        if hi < lo:
            if nreq == 0:
                return [], {}
            hi = lo
        n = rng.randint(lo, hi)
        return [value(rng, 3, 2, jc_keys) for _ in range(n)], {}
    keys = list(names[:nreq]) + [n for n in names[nreq:] if rng.random() < 0.5]
    if kw:
        for _ in range(rng.randint(0 if keys else 1, 3)):
            # ("self" is an ordinary keyword: `_Method.__call__(*args, **kwargs)` takes its receiver positionally)
            k = rng.choice(["k", "not an identifier", "é", "", "a b", "1", "zz", "\U0001f600", "cls", "method", "id", "self"])
            if k not in names:
                keys.append(k)
    if not keys:
        return [], {}
    rng.shuffle(keys)
    return [], dict((k, value(rng, 3, 2, jc_keys)) for k in dict.fromkeys(keys))


def client_path(rng, name):
    """Attribute accesses whose nesting gives the method name."""
    segs = name.split(".")
    excl = excluded_names()
    ok = all(s and s not in excl and not is_dunder(s) for s in segs)
    if ok and rng.random() < 0.8:
        return segs
    return [name]


def gen_call(rng, callables, jc_keys):
    i = rng.randrange(len(callables))
    c = callables[i]
    args, kwargs = gen_args(rng, c["sig"], jc_keys)
    return {"callee": i, "path": client_path(rng, c["name"]), "args": args, "kwargs": kwargs, "tup": rng.random() < 0.25}


BAD_BEAN = {"__jsonclass__": ["", []]}


def gen_odd(rng, callables, suj=False):
    r = rng.random()
    c = rng.choice(callables)
    if suj and rng.random() < 0.5:
        # the server's class translator rejects the request: a single -32700 object answers it — also a whole batch
        kind = rng.choice(["call", "notify", "batch", "batch"])
        if kind == "batch":
            return {"op": "odd", "kind": "batch", "jobs": [
                {"notify": rng.random() < 0.3, "path": client_path(rng, c["name"]), "args": [1], "kwargs": {}},
                {"notify": rng.random() < 0.3, "path": client_path(rng, c["name"]), "args": [[BAD_BEAN]], "kwargs": {}}]}
        return {"op": "odd", "kind": kind, "path": client_path(rng, c["name"]), "args": [BAD_BEAN], "kwargs": {}}
    if rng.random() < 0.15:
        # the edges of the name domain: the empty method name (refused by the server with -32600 whatever is registered:
        # C01_empty_name_refused), the shortest dunder names, a private segment below a registered instance (-32601)
        which = rng.choice(["empty", "dunder", "private-attr", "empty-batch"])
        if which == "empty":
            return {"op": "odd", "kind": rng.choice(["call", "notify"]), "path": [""], "args": [1], "kwargs": {}}
        if which == "empty-batch":
            return {"op": "odd", "kind": "batch", "jobs": [{"notify": False, "path": [""], "args": [], "kwargs": {}},
                                                          {"notify": False, "path": client_path(rng, c["name"]), "args": [], "kwargs": {}}]}
        if which == "dunder":
            return {"op": "odd", "kind": "call", "path": [rng.choice(["__", "___", "____", "__a__", "__.__"])], "args": [], "kwargs": {}}
        return {"op": "odd", "kind": "call", "path": c["name"].split(".")[:1] + ["_" + ident(rng)], "args": [], "kwargs": {}}
    if r < 0.25:
        return {"op": "odd", "kind": "call", "path": ["nosuch" + ident(rng)], "args": [1], "kwargs": {}}
    if r < 0.4:
        return {"op": "odd", "kind": "call", "path": client_path(rng, c["name"]), "args": [1], "kwargs": {"k": 2}}
    if r < 0.45:
        return {"op": "odd", "kind": rng.choice(["call", "notify"]), "path": client_path(rng, c["name"]), "args": [], "kwargs": {"self": 1}}
    if r < 0.6:
        return {"op": "odd", "kind": "call", "path": ["__nope_%s__" % ident(rng)], "args": [], "kwargs": {}}
    if r < 0.8:
        # arguments that do not bind (when the signature can refuse them)
        names, nd, star, kw = c["sig"]
        if not star:
            return {"op": "odd", "kind": "call", "path": client_path(rng, c["name"]),
                    "args": [0] * (len(names) + 1), "kwargs": {}}
        return {"op": "odd", "kind": "notify", "path": ["nosuch"], "args": [], "kwargs": {}}
    # a batch mixing fates (C01_batch_mixed): unknown method, arguments that do not bind, ordinary jobs, in any order
    jobs = [{"notify": False, "path": ["nosuch"], "args": [], "kwargs": {}},
            {"notify": rng.random() < 0.5, "path": client_path(rng, c["name"]), "args": [], "kwargs": {}}]
    for c2 in callables:
        names, nd, star, kw = c2["sig"]
        if not star and rng.random() < 0.7:
            jobs.append({"notify": rng.random() < 0.25, "path": client_path(rng, c2["name"]),
                         "args": [0] * (len(names) + 1 + rng.randint(0, 2)), "kwargs": {}})
        if not kw and rng.random() < 0.4:
            jobs.append({"notify": False, "path": client_path(rng, c2["name"]), "args": [], "kwargs": {"no such keyword": 1}})
        if rng.random() < 0.5:
            a, k = gen_args(rng, c2["sig"], False)
            jobs.append({"notify": rng.random() < 0.25, "path": client_path(rng, c2["name"]), "args": a, "kwargs": k})
    if rng.random() < 0.3:
        jobs.append({"notify": rng.random() < 0.5, "path": ["nosuch", ident(rng)], "args": [1], "kwargs": {}})
    rng.shuffle(jobs)
    return {"op": "odd", "kind": "batch", "jobs": jobs[:6]}


def gen_scenario(rng, force=None):
    cuj, suj = rng.random() < 0.35, rng.random() < 0.35
    sc_ = {
        "cver": rng.choice([1.0, 2.0]), "carg": rng.choice([None, None, 1.0, 2.0]), "cuj": cuj,
        "sver": rng.choice([1.0, 2.0]), "suj": suj,
        "mver": rng.choice([1.0, 2.0]), "muj": cuj,
    }
    if force:
        sc_.update(force)
    jc_keys = not (sc_["cuj"] or sc_["suj"] or sc_["muj"])
    callables = gen_callables(rng, rng.randint(1, 4))
    ops = []
    for _ in range(rng.randint(1, 4)):
        r = rng.random()
        if r < 0.45:
            op = gen_call(rng, callables, jc_keys)
            op["op"] = "call"
        elif r < 0.6:
            op = gen_call(rng, callables, jc_keys)
            op["op"] = "notify"
        elif r < 0.9:
            jobs = []
            for _j in range(rng.randint(1, 6)):
                j = gen_call(rng, callables, jc_keys)
                j["notify"] = rng.random() < 0.35
                jobs.append(j)
            if rng.random() < 0.1:
                for j in jobs:
                    j["notify"] = True
            op = {"op": "batch", "jobs": jobs}
        else:
            op = gen_odd(rng, callables, sc_["suj"])
        ops.append(op)
    sc_["callables"] = callables
    sc_["ops"] = ops
    return sc_


# ------------------------------------------------------------------------------------------------
# scenarios that REUSE helper objects across ops

def reuse_hand_written():
    """One scenario per kind of kept object (every version pair is added by the caller)."""
    cs = [
        {"name": "add", "target": "func", "sig": [["a", "b"], 0, False, False], "beh": ["ret", 3]},
        {"name": "mul", "target": "func", "sig": [["a", "b"], 0, False, False], "beh": ["ret", 12]},
        {"name": "ns.a", "target": "attr", "sig": [[], 0, True, True], "beh": ["ret", "a1"]},
        {"name": "ns.b", "target": "attr", "sig": [[], 0, True, True], "beh": ["ret", "b2"]},
        {"name": "ns.sub.echo", "target": "attr", "sig": [[], 0, True, True], "beh": ["rett", [1, [2]]]},
        {"name": "ping", "target": "func", "sig": [[], 0, False, False], "beh": ["ret", None]},
        {"name": "_hidden", "target": "func", "sig": [["x"], 0, False, False], "beh": ["ret", 42]},
        {"name": "pkg._impl_.run__", "target": "func", "sig": [[], 0, True, True], "beh": ["ret", [True]]},
    ]

    def call(i, args=(), kwargs=None, **kw):
        return dict({"op": "call", "callee": i, "path": cs[i]["name"].split("."), "args": list(args),
                     "kwargs": kwargs or {}, "tup": False}, **kw)

    def job(i, args=(), kwargs=None, notify=False, **kw):
        return dict({"notify": notify, "callee": i, "path": cs[i]["name"].split("."), "args": list(args),
                     "kwargs": kwargs or {}, "tup": False}, **kw)
    ops = [
        # one MultiCall called twice, then a third time, new jobs in between
        {"op": "batch", "mc": "mc0", "jobs": [job(0, [1, 2])]},
        {"op": "batch", "mc": "mc0", "jobs": [job(1, [3, 4])]},
        # ns = proxy.ns; ns.a(1); ns.b(2); ns.sub.echo()
        call(2, [1], keep=["ns0", 1]),
        call(3, [2], keep=["ns0", 1]),
        call(4, keep=["ns0", 1]),
        call(2, [], {"k": 1}, keep=["ns0", 1]),
        # m = proxy.add; m(1, 2); m(3, 4)
        call(0, [1, 2], keep=["m0", 1]),
        call(0, [], {"a": 3, "b": 4}, keep=["m0", 1]),
        # n = proxy._notify; n.ping(); n.add(1, 2); nn = n.ns; nn.a(); nn.b()
        dict(call(5), op="notify", nkeep="n0"),
        dict(call(0, [1, 2]), op="notify", nkeep="n0"),
        dict(call(2, [0]), op="notify", nkeep="n0", keep=["nns0", 1]),
        dict(call(3, [0]), op="notify", nkeep="n0", keep=["nns0", 1]),
        # a MultiCallMethod obtained once and extended twice by separate statements; the MultiCall from above again
        {"op": "batch", "mc": "mc0", "jobs": [job(4, ["x"], stmts=True), job(5, notify=True), job(4, [], {"k": []}, notify=True, stmts=True)]},
        # names that start with an underscore (registered functions), through attribute access
        call(6, [41]), call(7, [1]), call(7, [], {"k": 1}, keep=["pk0", 2]), call(7, [2], keep=["pk0", 2]),
        {"op": "batch", "mc": "mc0", "jobs": [job(6, [41]), job(7, [], {}, stmts=True)]},
    ]
    out = []
    for cver in (1.0, 2.0):
        for sver in (1.0, 2.0):
            uj = cver != sver
            out.append({"cver": cver, "carg": None, "cuj": uj, "sver": sver, "suj": uj, "mver": cver, "muj": uj,
                        "callables": cs, "ops": ops})
    return out


def gen_reuse(rng):
    """A random scenario made of threads, each REUSING one kept helper object, interleaved on one proxy/History."""
    cuj, suj = rng.random() < 0.3, rng.random() < 0.3
    sc_ = {"cver": rng.choice([1.0, 2.0]), "carg": rng.choice([None, None, 1.0, 2.0]), "cuj": cuj,
           "sver": rng.choice([1.0, 2.0]), "suj": suj, "mver": rng.choice([1.0, 2.0]), "muj": cuj}
    jc_keys = not (cuj or suj)
    # a namespace with several leaves (so that one kept `ns` serves several methods), plus ordinary callables
    target = "func" if rng.random() < 0.5 else "attr"
    us = target == "func"
    ns = segment(rng, True, us)
    sub = segment(rng, True, us)
    leaves = []
    while len(leaves) < 3:
        x = segment(rng, True, us)
        if x not in leaves and x != sub:
            leaves.append(x)
    names = ["%s.%s" % (ns, leaves[0]), "%s.%s" % (ns, leaves[1]), "%s.%s.%s" % (ns, sub, leaves[2]), "%s.%s.%s" % (ns, sub, leaves[0])]
    callables = []
    for nm in names:
        beh = ["ret", value(rng)] if rng.random() < 0.85 else ["ret", rng.choice(FALSY)]
        callables.append({"name": nm, "target": target, "sig": [[], 0, True, True] if rng.random() < 0.7 else gen_sig(rng), "beh": beh})
    # (paths are walked segment by segment on kept objects here: no whole special names with empty / own-attribute segments)
    for c in gen_callables(rng, rng.randint(1, 2), special=False):
        if all(not (c["name"] == u["name"] or c["name"].startswith(u["name"] + ".") or u["name"].startswith(c["name"] + ".")
                    or c["name"].split(".")[0] == ns) for u in callables):
            callables.append(c)

    def mk(i, **kw):
        c = callables[i]
        a, k = gen_args(rng, c["sig"], jc_keys)
        return dict({"callee": i, "path": c["name"].split("."), "args": a, "kwargs": k, "tup": rng.random() < 0.2}, **kw)
    threads = []
    kinds = rng.sample(["mc", "ns", "ns2", "method", "notifier", "mc"], rng.randint(1, 3))
    for t, kind in enumerate(kinds):
        v = "%s%d" % (kind, t)
        ops = []
        if kind == "mc":
            for _ in range(rng.randint(2, 3)):
                jobs = []
                for _j in range(rng.randint(1, 4)):
                    j = mk(rng.randrange(len(callables)), notify=rng.random() < 0.3)
                    if len(j["path"]) > 1 and rng.random() < 0.5:
                        j["stmts"] = True
                    jobs.append(j)
                ops.append({"op": "batch", "mc": v, "jobs": jobs})
        elif kind == "ns":
            for _ in range(rng.randint(2, 4)):
                ops.append(dict(mk(rng.randrange(4), keep=[v, 1]), op="call"))
        elif kind == "ns2":
            for _ in range(rng.randint(2, 3)):
                ops.append(dict(mk(rng.choice([2, 3]), keep=[v, 2]), op="call"))
        elif kind == "method":
            i = rng.randrange(len(callables))
            for _ in range(rng.randint(2, 3)):
                ops.append(dict(mk(i, keep=[v, len(callables[i]["name"].split("."))]), op="call"))
        else:
            for _ in range(rng.randint(2, 3)):
                i = rng.randrange(len(callables))
                o = dict(mk(i, nkeep=v), op="notify")
                if i < 4 and rng.random() < 0.5:
                    o["keep"] = [v + "ns", 1]
                ops.append(o)
        threads.append(ops)
    if rng.random() < 0.35:
        threads.append(gen_odd_scripts(rng, callables))
    # interleave, keeping the order inside each thread
    ops = []
    while any(threads):
        t = rng.choice([t for t in threads if t])
        ops.append(t.pop(0))
    sc_["callables"] = callables
    sc_["ops"] = ops
    sc_["reuse"] = True
    return sc_


def gen_odd_scripts(rng, callables):
    """Uses of the helper objects the property does not speak about (correspondence with the model's object heap only)."""
    def nm():
        return rng.choice(callables)["name"].split(".")
    r = rng.random()
    v, j = "omc%d" % rng.randrange(10 ** 6), "oj%d" % rng.randrange(10 ** 6)

    def get_chain(dst, src, path):
        steps, cur = [], src
        for i, seg in enumerate(path):
            d = dst if i == len(path) - 1 else "%s_%d" % (dst, i)
            steps.append(["get", d, cur, seg])
            cur = d
        return steps
    if r < 0.2:      # a job called twice: the second call replaces the parameters
        steps = [["mc", v]] + get_chain(j, v, nm()) + [["call", "_", j, [1], {}], ["call", "_", j, [], {"k": 2}], ["call", "_", v, [], {}]]
        return [{"op": "odd", "kind": "script", "steps": steps, "batch": True}]
    if r < 0.4:      # attribute access alone registers a job (parameters [])
        steps = [["mc", v]] + get_chain(j, v, nm()) + get_chain(j + "b", v, nm()) + [["call", "_", j + "b", [0], {}], ["call", "_", v, [], {}]]
        return [{"op": "odd", "kind": "script", "steps": steps, "batch": True}]
    if r < 0.6:      # a job extended and called after its batch was sent: detached, the next batch is empty (None)
        p1 = nm()
        return [{"op": "odd", "kind": "script", "steps": [["mc", v]] + get_chain(j, v, p1) + [["call", "_", j, [], {}], ["call", "_", v, [], {}]], "batch": True},
                {"op": "odd", "kind": "script", "steps": [["get", j + "x", j, "late"], ["call", "_", j, [1], {}], ["call", "_", v, [], {}]], "batch": True},
                {"op": "odd", "kind": "script", "steps": get_chain(j + "n", v, nm()) + [["call", "_", j + "n", [], {}], ["call", "_", v, [], {}]], "batch": True}]
    if r < 0.8:      # both argument styles on a job: ProtocolError, the job stays in the list with parameters []
        return [{"op": "odd", "kind": "script", "steps": [["mc", v]] + get_chain(j, v, nm()) + [["call", "_", j, [1], {"k": 2}]]},
                {"op": "odd", "kind": "script", "steps": get_chain(j + "n", v, nm()) + [["call", "_", j + "n", [], {}], ["call", "_", v, [], {}]], "batch": True}]
    # a kept MultiCallNotify; an empty MultiCall called (None)
    return [{"op": "odd", "kind": "script", "steps": [["mc", v], ["call", "_", v, [], {}]], "batch": True},
            {"op": "odd", "kind": "script", "steps": [["get", j + "n", v, "_notify"]] + get_chain(j, j + "n", nm()) + [["call", "_", j, [], {}]]
             + get_chain(j + "2", j + "n", nm()) + [["call", "_", j + "2", [0], {}], ["call", "_", v, [], {}]], "batch": True}]


def effective_client_version(s):
    return s["carg"] or s["cver"]


# ------------------------------------------------------------------------------------------------
# the real side

def run_beh(beh):
    if beh[0] == "ret":
        return beh[1]
    if beh[0] == "rett":
        return tuplify(beh[1])
    raise sc.EXC[beh[1]](beh[2])


def make_def(sig, name, target, beh, log):
    """A real `def` with the described signature, logging the callee's view of its arguments."""
    names, nd, star, kw = sig
    nreq = len(names) - nd
    ps = [n if i < nreq else "%s=_D" % n for i, n in enumerate(names)]
    if star:
        ps.append("*args")
    if kw:
        ps.append("**kwargs")
    if beh[0] == "echo":
        # returns its arguments (a variadic signature): the positional ones as a list, else the keywords
        assert not names and star and kw
        action = "return list(args) if (args or not kwargs) else dict(kwargs)"
    else:
        action = "return _run(_beh)"
    src = "def _f(%s):\n    _log.append(('call', _target, _name, ([%s], %s, %s), False))\n    %s\n" % (
        ", ".join(ps), ", ".join(names), "list(args)" if star else "[]", "dict(kwargs)" if kw else "{}", action)
    env = {"_D": sc._D, "_log": log, "_target": target, "_name": name, "_run": run_beh, "_beh": beh}
    exec(src, env)  # noqa: S102 - generated from a closed grammar of identifiers
    return env["_f"]


class _Node(object):
    pass


def registry_desc(callables):
    """The registry in the descriptor form of servercases (for the model encoder and sig lookup)."""
    funcs = []
    root = []

    def place(children, segs, c):
        for n, a in children:
            if n == segs[0]:
                node = a
                break
        else:
            node = [None, []]
            children.append([segs[0], node])
        if len(segs) == 1:
            node[0] = [c["sig"], c["beh"]]
        else:
            place(node[1], segs[1:], c)

    for c in callables:
        if c["target"] == "func":
            funcs.append([c["name"], [c["sig"], c["beh"]]])
        else:
            place(root, c["name"].split("."), c)
    inst = {"dispatch": None, "attrs": root} if root else None
    return {"funcs": funcs, "inst": inst, "custom": None}


def install(disp, callables, log):
    """Registers the instrumented callables on a real dispatcher (functions by name, attributes on an instance)."""
    disp.funcs.clear()
    disp.instance = None
    root = None
    for c in callables:
        f = make_def(c["sig"], c["name"], c["target"], c["beh"], log)
        if c["target"] == "func":
            disp.register_function(f, c["name"])
        else:
            if root is None:
                root = _Node()
            node = root
            segs = c["name"].split(".")
            for s in segs[:-1]:
                if not hasattr(node, s):
                    setattr(node, s, _Node())
                node = getattr(node, s)
            setattr(node, segs[-1], f)
    if root is not None:
        disp.register_instance(root)


class raw_backend(object):
    """
    Runs the library with a JSON backend that does not escape non-ASCII characters (what orjson / ujson-style backends
    of jsonlib emit; CPython's json with ensure_ascii=False).  Only with such a backend do the byte conversions
    (`utils.to_bytes` / `from_bytes`, the HTTP layer) see non-ASCII bytes.  The module globals the library reads
    (`jsonrpclib.jsonrpc.jdumps`, re-exported as `jsonrpclib.jdumps`) are replaced for the duration of the block — in
    this process only; nothing in the repository is touched.
    """

    def __init__(self, active):
        self.active = active

    def __enter__(self):
        if self.active:
            self.saved = (J.jdumps, impl.jsonrpclib.jdumps)

            def jdumps_raw(obj, encoding="utf-8"):
                return json.dumps(obj, ensure_ascii=False)
            J.jdumps = jdumps_raw
            impl.jsonrpclib.jdumps = jdumps_raw
        return self

    def __exit__(self, *exc):
        if self.active:
            J.jdumps, impl.jsonrpclib.jdumps = self.saved
        return False


class Rig(object):
    """A real server end (bare dispatcher / SimpleJSONRPCServer / PooledJSONRPCServer) and the way to reach it."""
    counter = 0

    def __init__(self, kind, transport, sver, suj, tmpdir):
        self.kind, self.transport = kind, transport
        self.cfg = impl.jsonrpclib.config.Config(version=sver, use_jsonclass=suj)
        self.log = []
        self.captured = []
        self.thread = None
        if kind == "bare":
            self.disp = S.SimpleJSONRPCDispatcher(config=self.cfg)
        else:
            if transport == "unix":
                Rig.counter += 1
                addr, fam = os.path.join(tmpdir, "c01-%d.sock" % Rig.counter), socket.AF_UNIX
            else:
                addr, fam = ("127.0.0.1", 0), socket.AF_INET
            cls = S.PooledJSONRPCServer if kind == "pooled" else S.SimpleJSONRPCServer
            self.disp = cls(addr, logRequests=False, address_family=fam, config=self.cfg)
            self.addr = addr
        orig = self.disp._marshaled_dispatch
        captured = self.captured

        def recording(data, dispatch_method=None, path=None):
            reply = orig(data, dispatch_method, path)
            captured.append((data, reply))
            return reply
        self.disp._marshaled_dispatch = recording
        if transport in ("tcp", "unix"):
            self.thread = threading.Thread(target=self.disp.serve_forever, args=(0.01,))
            self.thread.daemon = True
            self.thread.start()

    def proxy(self, s, hist):
        cfg = impl.jsonrpclib.config.Config(version=s["cver"], use_jsonclass=s["cuj"])
        kw = dict(version=s["carg"], history=hist, config=cfg)
        if self.transport == "loop":
            return J.ServerProxy("http://localhost/", transport=impl.LoopTransport(self.disp._marshaled_dispatch), **kw)
        if self.transport == "unix":
            return J.ServerProxy("unix+http://%s" % self.addr, **kw)
        return J.ServerProxy("http://127.0.0.1:%d/" % self.disp.server_address[1], **kw)

    def close(self):
        if self.kind == "bare":
            return
        from props.c12 import run_with_watchdog
        try:
            if self.thread is not None and self.thread.is_alive():
                run_with_watchdog(self.disp.shutdown, 3)
            run_with_watchdog(self.disp.server_close, 3)
        except Exception:  # noqa: BLE001
            pass


def send_args(op):
    args = [tuplify(a) for a in op["args"]] if op.get("tup") else list(op["args"])
    kwargs = dict((k, tuplify(v)) for k, v in op["kwargs"].items()) if op.get("tup") else dict(op["kwargs"])
    return args, kwargs


def walk(obj, path):
    for s in path:
        obj = getattr(obj, s)
    return obj


# ------------------------------------------------------------------------------------------------
# programs over KEPT helper objects
#
# An op may name variables that live for the whole scenario (optional fields; an op without them builds every helper
# object afresh, as one expression):
#   call / notify   "keep": [var, k]   var = the object reached by path[:k] (a _Method), created by the first op that
#                                      names it and REUSED by the later ones; the remaining path[k:] is walked from it
#                   "nkeep": var       (notify only) var = proxy._notify, kept
#   batch           "mc": var          var = MultiCall(proxy, config=mcfg), kept: called again by every later batch op
#                                      that names it, with the jobs added since
#                   job "stmts": true  j = getattr(mc, path[0]); j.<seg> for the other segments as separate statements
#                                      whose results are dropped (MultiCallMethod.__getattr__ extends j itself); j(...)
#   odd "script"    "steps": [...]     raw steps (correspondence with the model only)
# Such an op is compiled to steps   ["mc", dst] | ["get", dst, src, name] | ["call", dst, src, args, kwargs]
# which the real side executes on the real objects and the model on its object heap (`e2e` op "script").

def uses_vars(op):
    if op["op"] == "reg":
        return False
    if op.get("keep") or op.get("nkeep") or op.get("mc"):
        return True
    if op["op"] == "odd" and op.get("kind") == "script":
        return True
    return any(j.get("stmts") for j in op.get("jobs") or [])


def op_vars(op):
    out = set()
    if op["op"] == "reg":
        return out
    if op.get("keep"):
        out.add(op["keep"][0])
    for f in ("nkeep", "mc"):
        if op.get(f):
            out.add(op[f])
    if op["op"] == "odd" and op.get("kind") == "script":
        for st in op["steps"]:
            out.update(x for x in st[1:3] if isinstance(x, str) and x != "proxy")
    return out


class Compiler(object):
    """Turns ops into steps; remembers which variables are bound (so a sub-sequence of the ops still compiles)."""

    def __init__(self):
        self.bound = set()
        self.n = 0

    def tmp(self):
        self.n += 1
        return "_t%d" % self.n

    def chain(self, steps, base, path, into=None):
        cur = base
        for i, seg in enumerate(path):
            dst = into if (into is not None and i == len(path) - 1) else self.tmp()
            steps.append(["get", dst, cur, seg])
            cur = dst
        return cur

    def compile(self, op):
        kind = op["kind"] if op["op"] == "odd" else op["op"]
        steps = []
        if kind == "script":
            return [list(st) for st in op["steps"]]
        if kind in ("call", "notify"):
            args, kwargs = send_args(op)
            base = "proxy"
            if kind == "notify":
                nk = op.get("nkeep")
                if nk:
                    if nk not in self.bound:
                        steps.append(["get", nk, "proxy", "_notify"])
                        self.bound.add(nk)
                    base = nk
                else:
                    base = self.chain(steps, "proxy", ["_notify"])
            path = list(op["path"])
            if op.get("keep"):
                var, k = op["keep"]
                if var not in self.bound:
                    self.chain(steps, base, path[:k], into=var)
                    self.bound.add(var)
                cur = self.chain(steps, var, path[k:])
            else:
                cur = self.chain(steps, base, path)
            steps.append(["call", "_r", cur, list(args), kwargs])
            return steps
        mc = op.get("mc") or self.tmp()
        if mc not in self.bound:
            steps.append(["mc", mc])
            self.bound.add(mc)
        for j in op["jobs"]:
            args, kwargs = send_args(j)
            base = self.chain(steps, mc, ["_notify"]) if j["notify"] else mc
            path = list(j["path"])
            if j.get("stmts"):
                jv = self.chain(steps, base, path[:1])
                for seg in path[1:]:
                    steps.append(["get", self.tmp(), jv, seg])
                cur = jv
            else:
                cur = self.chain(steps, base, path)
            steps.append(["call", "_r", cur, list(args), kwargs])
        steps.append(["call", "_r", mc, [], {}])
        return steps


def exec_steps(env, steps, proxy, mcfg):
    """The steps on the real objects; the value of the last step."""
    last = None
    for st in steps:
        if st[0] == "mc":
            env[st[1]] = J.MultiCall(proxy, config=mcfg)
            last = None
        elif st[0] == "get":
            env[st[1]] = getattr(env[st[2]], st[3])
            last = None
        else:
            last = env[st[2]](*st[3], **st[4])
    return last


def run_real(rig, s):
    """Runs the scenario on the real code.  Returns the records of the ops and the History."""
    del rig.log[:]
    del rig.captured[:]
    registry = None
    if s.get("registry"):
        registry = c01reg.RealRegistry(rig.disp, s["callables"], rig.log, make_def)
    else:
        install(rig.disp, s["callables"], rig.log)
    hist = impl.jsonrpclib.history.History()
    proxy = rig.proxy(s, hist)
    mcfg = impl.jsonrpclib.config.Config(version=s["mver"], use_jsonclass=s["muj"])
    records = []
    env = {"proxy": proxy}
    comp = Compiler()
    try:
        for op in s["ops"]:
            l0, c0 = len(rig.log), len(rig.captured)
            h0 = (len(hist.requests), len(hist.responses))
            kind = op["kind"] if op["op"] == "odd" else op["op"]
            if kind == "reg":
                rec = {"outcome": impl.outcome(registry.apply, op)}
            elif uses_vars(op):
                steps = comp.compile(op)
                k, v = impl.outcome(exec_steps, env, steps, proxy, mcfg)
                rec = {"outcome": (k, v)}
                if k == "ok" and isinstance(v, J.MultiCallIterator):
                    kl, n = impl.outcome(len, v)
                    rec["len"] = (kl, n)
                    rec["items"] = [impl.outcome(v.__getitem__, i) for i in range(n)] if kl == "ok" else []
                    rec["iter"] = impl.outcome(lambda v=v: list(v))
            elif kind in ("call", "notify"):
                args, kwargs = send_args(op)
                base = proxy if kind == "call" else proxy._notify

                def go(base=base, op=op, args=args, kwargs=kwargs):
                    return walk(base, op["path"])(*args, **kwargs)
                k, v = impl.outcome(go)
                rec = {"outcome": (k, v)}
            else:
                def go_batch(op=op):
                    mc = J.MultiCall(proxy, config=mcfg)
                    for j in op["jobs"]:
                        args, kwargs = send_args(j)
                        walk(mc._notify if j["notify"] else mc, j["path"])(*args, **kwargs)
                    return mc()
                k, v = impl.outcome(go_batch)
                rec = {"outcome": (k, v)}
                if k == "ok" and v is not None:
                    kl, n = impl.outcome(len, v)
                    rec["len"] = (kl, n)
                    rec["items"] = [impl.outcome(v.__getitem__, i) for i in range(n)] if kl == "ok" else []
                    rec["iter"] = impl.outcome(lambda v=v: list(v))
            rec["log"] = list(rig.log[l0:])
            rec["captured"] = list(rig.captured[c0:])
            rec["hist"] = (list(hist.requests[h0[0]:]), list(hist.responses[h0[1]:]))
            records.append(rec)
    finally:
        try:
            proxy("close")()
        except Exception:  # noqa: BLE001
            pass
    return records, (list(hist.requests), list(hist.responses))


# ------------------------------------------------------------------------------------------------
# the monitor: the property statement, on the real outputs

def expected_view(c, args, kwargs):
    """What the callable must have been called with: Python's own binding of the normalised arguments."""
    if args:
        return sc.callee_view(c["sig"], norm(list(args)))
    if kwargs:
        return sc.callee_view(c["sig"], norm(kwargs))
    return sc.callee_view(c["sig"], [])


def expected_return(c, args=(), kwargs=None):
    """The callable's return value up to JSON normalisation (`echo` returns the arguments it was called with)."""
    if c["beh"][0] == "echo":
        return norm(list(args)) if (args or not kwargs) else norm(kwargs)
    return norm(c["beh"][1])


def short(v, limit=240):
    """repr for messages: long payloads abbreviated (the full input is in the replay file)."""
    r = repr(v)
    return r if len(r) <= limit else "%s…[%d chars]…%s" % (r[:limit // 2], len(r), r[-limit // 4:])


def check_one_call(entry, c, args, kwargs, where):
    _, target, name, view, _ = entry
    if name != c["name"] or target != c["target"]:
        if target == "uid":
            return "%s: function object %s ran, but the callable registered under that name NOW is function object %s" % (where, name, c["name"])
        return "%s: %s %r was invoked instead of %r" % (where, target, name, c["name"])
    exp = expected_view(c, args, kwargs)
    if not view_eq(view, exp):
        return "%s: %r invoked with %s, sent %s / %s" % (where, name, short(view), short(args), short(kwargs))
    return None


def check_value(got, c, where, args=(), kwargs=None):
    exp = expected_return(c, args, kwargs)
    if not strict_eq(got, exp):
        return "%s: returned %s, the callable returned %s (normalised %s)" % (
            where, short(got), short(c["beh"][1] if len(c["beh"]) > 1 else "its arguments"), short(exp))
    return None


def monitor(s, records, hist):
    """Returns a list of (message, key)."""
    out = []
    if s.get("registry"):
        # a mutable registry: which callable every name denotes at the moment of its call, from the ops alone
        s = c01reg.resolved(s)
    cs = s["callables"]
    all_captured = []
    for n, (op, rec) in enumerate(zip(s["ops"], records)):
        where = "op %d (%s)" % (n, op["op"])
        all_captured.extend(rec["captured"])
        if op["op"] in ("odd", "reg"):
            continue
        k, v = rec["outcome"]
        # History: exactly the texts exchanged, in order (reported after the outcome of the call itself)
        req_c = [d for d, _r in rec["captured"]]
        rep_c = [r for _d, r in rec["captured"]]
        hist_msgs = []
        if len(rec["captured"]) != 1:
            hist_msgs.append(("%s: %d exchanges reached the server instead of 1" % (where, len(rec["captured"])), "exchanges"))
        if rec["hist"][0] != req_c or rec["hist"][1] != rep_c or not all(isinstance(t, str) for t in rec["hist"][0] + rec["hist"][1]):
            hist_msgs.append(("%s: History recorded %s / %s, exchanged %s / %s" % (
                where, short(rec["hist"][0]), short(rec["hist"][1]), short(req_c), short(rep_c)), "history"))
        if op["op"] == "call" and op.get("intro") is not None:
            # a bound method of the dispatcher (system.listMethods / system.methodSignature): no instrumented callable
            # runs, the value is what the method returns for the registry as it is NOW
            if rec["log"]:
                out.append(("%s: %s invoked %s" % (where, ".".join(op["path"]), short([e[2] for e in rec["log"]])), "intro-invoked"))
            if k != "ok" or not strict_eq(v, norm(op["intro"][0])):
                out.append(("%s: %s gave %s %s, registered now: %s" % (where, ".".join(op["path"]), k, short(v), short(op["intro"][0])), "intro-value"))
        elif op["op"] in ("call", "notify"):
            c = cs[op["callee"]]
            args, kwargs = send_args(op)
            if len(rec["log"]) != 1:
                out.append(("%s: the callable was invoked %d times" % (where, len(rec["log"])), "call-count"))
            else:
                m = check_one_call(rec["log"][0], c, args, kwargs, where)
                if m:
                    out.append((m, "call-args"))
            if c["beh"][0] == "raise" and op["op"] == "call":
                if k != "err" or type(v).__name__ != "ProtocolError" or not isinstance(v.args[0], tuple) or v.args[0][0] != -32603:
                    out.append(("%s: raising callable surfaced as %s %r" % (where, k, v), "raise"))
            elif op["op"] == "notify":
                if k != "ok" or v is not None:
                    out.append(("%s: notification returned %s %r" % (where, k, v), "notify-return"))
                if rec["hist"][1] != [""]:
                    out.append(("%s: notification response recorded as %r" % (where, rec["hist"][1]), "notify-history"))
            else:
                if k != "ok":
                    out.append(("%s: raised %s(%s) instead of returning %s" % (where, type(v).__name__, short(v.args), short(expected_return(c, args, kwargs))), "call-raised"))
                else:
                    m = check_value(v, c, where, args, kwargs)
                    if m:
                        out.append((m, "call-value"))
        else:
            jobs = op["jobs"]
            if len(rec["log"]) != len(jobs):
                out.append(("%s: %d invocations for %d jobs" % (where, len(rec["log"]), len(jobs)), "batch-count"))
            else:
                for i, (j, e) in enumerate(zip(jobs, rec["log"])):
                    a, kw = send_args(j)
                    m = check_one_call(e, cs[j["callee"]], a, kw, "%s job %d" % (where, i))
                    if m:
                        out.append((m, "batch-args"))
                        break
            answered = [j for j in jobs if not j["notify"]]
            if k != "ok" or v is None:
                out.append(("%s: MultiCall gave %s %s" % (where, k, short(v)), "batch-outcome"))
                out.extend(hist_msgs)
                continue
            if rec["len"] != ("ok", len(answered)):
                out.append(("%s: %r results for %d non-notification jobs" % (where, rec["len"], len(answered)), "batch-len"))
                out.extend(hist_msgs)
                continue
            for i, j in enumerate(answered):
                c = cs[j["callee"]]
                ki, vi = rec["items"][i]
                if c["beh"][0] == "raise":
                    if ki != "err" or type(vi).__name__ != "ProtocolError" or vi.args[0][0] != -32603:
                        out.append(("%s: result %d of a raising callable is %s %r" % (where, i, ki, vi), "batch-raise"))
                elif ki != "ok":
                    out.append(("%s: result %d raised %s%s" % (where, i, type(vi).__name__, short(vi.args)), "batch-item-raised"))
                else:
                    m = check_value(vi, c, "%s result %d" % (where, i), *send_args(j))
                    if m:
                        out.append((m, "batch-position"))
            if all(cs[j["callee"]]["beh"][0] != "raise" for j in answered):
                ka, va = rec["iter"]
                if ka != "ok" or not strict_eq(va, [expected_return(cs[j["callee"]], *send_args(j)) for j in answered]):
                    out.append(("%s: iteration gave %s %s" % (where, ka, short(va)), "batch-iter"))
        out.extend(hist_msgs)
    if hist[0] != [d for d, _r in all_captured] or hist[1] != [r for _d, r in all_captured]:
        out.append(("History %s / %s differs from the exchanged texts %s" % (short(hist[0]), short(hist[1]), short(all_captured)), "history-total"))
    return out


# ------------------------------------------------------------------------------------------------
# the model side

def enc_beh(b):
    if b[0] == "echo":
        return ["echo"]
    if b[0] == "ret":
        return ["ret", b[1]]
    if b[0] == "rett":
        return ["ret", tuplify(b[1])]
    cls = sc.EXC[b[1]]
    return ["raise", b[1], str(cls(b[2])), issubclass(cls, TypeError), issubclass(cls, AttributeError)]


def enc_registry(desc):
    def enc_callable(c):
        return [list(c[0]), enc_beh(c[1])]

    def enc_attr(a):
        return [None if a[0] is None else enc_callable(a[0]), [[n, enc_attr(x)] for n, x in a[1]]]
    inst = desc.get("inst")
    return pyval.enc({
        "funcs": [[n, enc_callable(c)] for n, c in desc["funcs"]],
        "inst": None if inst is None else {"dispatch": None, "attrs": [[n, enc_attr(a)] for n, a in inst["attrs"]]},
        "custom": None})


def enc_op(op, comp=None, s=None):
    kind = op["kind"] if op["op"] == "odd" else op["op"]
    if kind == "reg":
        return ["reg", c01reg.enc_regop(op, s["callables"], enc_beh)]
    if uses_vars(op):
        return ["script", comp.compile(op)]
    if kind in ("call", "notify"):
        args, kwargs = send_args(op)
        return [kind, list(op["path"]), list(args), kwargs]
    jobs = []
    for j in op["jobs"]:
        args, kwargs = send_args(j)
        jobs.append([bool(j["notify"]), list(j["path"]), list(args), kwargs])
    return ["batch", jobs]


def model_line(s):
    comp = Compiler()
    return "e2e L6 %s %s %s %s %s %s" % (
        sc.enc_cfg(s["cver"], s["cuj"]), pyval.enc(None if s["carg"] is None else int(round(s["carg"] * 10))),
        sc.enc_cfg(s["sver"], s["suj"]), enc_registry(registry_desc([] if s.get("registry") else s["callables"])),
        sc.enc_cfg(s["mver"], s["muj"]), pyval.enc([enc_op(op, comp, s) for op in s["ops"]]))


_UUID = re.compile(r"^[0-9a-f]{8}-[0-9a-f]{4}-[0-9a-f]{4}-[0-9a-f]{4}-[0-9a-f]{12}$|^fresh#\d+$")


class Ids(object):
    """Generated request ids, renamed by first occurrence."""

    def __init__(self):
        self.map = {}

    def doc(self, d):
        if isinstance(d, list):
            return [self.doc(x) for x in d]
        if isinstance(d, dict) and isinstance(d.get("id"), str) and _UUID.match(d["id"]):
            d = dict(d)
            d["id"] = self.map.setdefault(d["id"], "id#%d" % len(self.map))
        return d


def canon_text_real(text, ids):
    if not isinstance(text, str):
        return "not-a-text " + type(text).__name__
    if text == "":
        return "empty"
    try:
        doc = json.loads(text)
    except ValueError:
        return "not-json " + repr(text[:60])
    return pyval.enc(sc.canon_doc(ids.doc(doc)), canon=True)


def canon_text_model(text, ids):
    if text == "":
        return "empty"
    if text.startswith("[ ") and text.endswith(" ]"):
        doc = [pyval.from_tree(pyval.parse(t)) for t in text[2:-2].split(",")]
    else:
        doc = pyval.from_tree(pyval.parse(text))
    return pyval.enc(ids.doc(doc), canon=True)


def canon_exc(val):
    name = type(val).__name__
    if name in impl.PROTO_CLASSES:
        arg = val.args[0] if len(val.args) == 1 else tuple(val.args)
        if isinstance(arg, tuple) and len(arg) >= 2:
            arg = (arg[0], sc.canon_message(arg[0], arg[1])) + tuple(arg[2:])
        return "err %s %s" % (name, pyval.enc(arg, canon=True))
    return "err " + name


def canon_outcome_real(k, v):
    if k == "ok":
        return "ok " + pyval.enc(v, canon=True)
    return canon_exc(v)


def canon_outcome_model(t):
    """A decoded outcome tuple of the driver."""
    if t[0] == "ok":
        return "ok " + pyval.enc(t[1], canon=True)
    if t[1] in impl.PROTO_CLASSES:
        return "err %s %s" % (t[1], pyval.enc(t[2], canon=True))
    return "err " + t[1]


def batch_like(op):
    """The op ends with the call of a MultiCall (its value is None or an iterator)."""
    kind = op["kind"] if op["op"] == "odd" else op["op"]
    return kind == "batch" or (kind == "script" and bool(op.get("batch")))


def variadic_view(params):
    """The callee view of `(*args, **kwargs)` for the params value a request carries."""
    return [[], list(params), {}] if isinstance(params, (list, tuple)) else [[], [], dict(params)]


def registry_effect_real(e):
    return "call %s" % pyval.enc(sc._view_plain(e[3]), canon=True)


def registry_effect_model(tree):
    e = sc.from_model(tree)
    return "call %s" % pyval.enc(variadic_view(e[3]), canon=True)


def project_real(s, records, hist):
    desc = registry_desc([] if s.get("registry") else s["callables"])
    ids = Ids()
    ops = []
    for op, rec in zip(s["ops"], records):
        k, v = rec["outcome"]
        if batch_like(op) and k == "ok":
            if v is None:
                o = "ok N"
            else:
                o = "iter " + " ; ".join(canon_outcome_real(*x) for x in rec["items"])
        else:
            o = canon_outcome_real(k, v)
        if s.get("registry"):
            # the pool's callables are variadic and placed under changing names: which one ran shows in the value
            ops.append((o, [registry_effect_real(e) for e in rec["log"]]))
        else:
            ops.append((o, [sc.canon_effect_real(e, None) for e in rec["log"]]))
    del desc
    h = ([canon_text_real(t, ids) for t in hist[0]], [canon_text_real(t, ids) for t in hist[1]])
    return ops, h


def project_model(s, line):
    """Model output -> the same projection, or None when the model declines the scenario."""
    if line.startswith("err Unmodelled"):
        return None
    if not line.startswith("ok "):
        return ("bad", line)
    desc = registry_desc([] if s.get("registry") else s["callables"])
    tr = pyval.parse(line[3:])
    parts = tr[1]
    ids = Ids()
    ops = []
    intro = c01reg.intro_names_at(s) if s.get("registry") else None
    for op, part in zip(s["ops"], parts[:-1]):
        out_t, eff_t = part[1]
        o = pyval.from_tree(out_t)
        if batch_like(op) and o[0] == "ok":
            if o[1] is None:
                oc = "ok N"
            else:
                oc = "iter " + " ; ".join(canon_outcome_model(x) for x in o[1])
        else:
            oc = canon_outcome_model(o)
        if s.get("registry"):
            # the bound methods of the dispatcher (system.*) are not instrumented on the real side
            effs = [t for t in eff_t[1] if sc.from_model(t)[2] not in intro[len(ops)]]
            ops.append((oc, [registry_effect_model(t) for t in effs]))
        else:
            ops.append((oc, [sc.canon_effect_model(t, desc) for t in eff_t[1]]))
    hreq, hresp = pyval.from_tree(parts[-1])
    # request texts first, then responses — the same walk as on the real side
    h = ([canon_text_model(t, ids) for t in hreq], [canon_text_model(t, ids) for t in hresp])
    return ops, h


# ------------------------------------------------------------------------------------------------
# the JSON codec laws, tested against the real backend

def check_backend_laws(ctx, values, batches):
    bad = 0
    for raw in (False, True):
        with raw_backend(raw):
            bad += _check_backend_laws(ctx, values, batches)
    return bad


def _check_backend_laws(ctx, values, batches):
    jd, jl = impl.jsonrpclib.jsonrpc.jdumps, impl.jsonrpclib.jsonrpc.jloads
    bad = 0
    for v in values:
        k, t = impl.outcome(jd, v)
        if k != "ok" or not isinstance(t, str) or t == "" or not strict_eq(jl(t), norm_model(v)):
            bad += 1
            ctx.disagree({"law": "roundtrip", "value": repr(v)[:200]}, repr((k, t))[:200], "parse(render v) = normalise v", component="backend-law")
        elif key_orders(jl(t)) != key_orders(norm_model(v)):
            # the law as the model states it is ORDERED; the property is not (see the module docstring): counted only
            ctx.extra["backend_key_order_changed"] = ctx.extra.get("backend_key_order_changed", 0) + 1
    for vs in batches:
        ts = [jd(v) for v in vs]
        body = "[ {0} ]".format(",".join(ts))
        k, r = impl.outcome(jl, body)
        if k != "ok" or not strict_eq(r, [norm_model(v) for v in vs]):
            bad += 1
            ctx.disagree({"law": "batch", "values": repr(vs)[:200]}, repr((k, r))[:200], "parse('[ a,b ]') = [normalise ..]", component="backend-law")
    return bad


def key_orders(v):
    """The key sequences of all dicts of a value, in traversal order."""
    if isinstance(v, (list, tuple)):
        return [key_orders(x) for x in v]
    if isinstance(v, dict):
        return [list(v.keys())] + [key_orders(x) for x in v.values()]
    return None


def norm_model(v):
    """`PyVal.normalise` written directly (not through a JSON codec): tuples become lists."""
    if isinstance(v, (list, tuple)):
        return [norm_model(x) for x in v]
    if isinstance(v, dict):
        return dict((k, norm_model(x)) for k, x in v.items())
    return v


# ------------------------------------------------------------------------------------------------

# (server kind, transport, backend): "raw" = non-escaping JSON backend (see raw_backend)
RIGS_QUICK = [("bare", "loop", "std"), ("simple", "tcp", "std"), ("simple", "unix", "raw"), ("pooled", "tcp", "raw")]
RIGS_THOROUGH = [("bare", "loop", "std"), ("bare", "loop", "raw"), ("simple", "loop", "std"), ("pooled", "loop", "std"),
                 ("simple", "tcp", "std"), ("simple", "unix", "std"), ("pooled", "tcp", "std"), ("pooled", "unix", "std"),
                 ("simple", "tcp", "raw"), ("simple", "unix", "raw"), ("pooled", "tcp", "raw"), ("pooled", "unix", "raw")]


def scenario_key(s, rig):
    kinds = []
    if s.get("registry"):
        for op in s["ops"]:
            kinds.append(op["do"] if op["op"] == "reg" else op["op"][0] + ".".join(op.get("path") or [str(len(op.get("jobs") or []))]))
        return (rig, effective_client_version(s), s["sver"], s["cuj"], s["suj"], tuple(kinds))
    if s.get("size"):
        return (rig, effective_client_version(s), s["sver"], tuple(s["size"]))
    for op in s["ops"]:
        if op["op"] == "batch":
            kinds.append("b" + "".join("n" if j["notify"] else "c" for j in op["jobs"]))
        elif op["op"] == "odd":
            kinds.append("odd")
        else:
            style = "p" if op["args"] else ("k" if op["kwargs"] else "0")
            c = s["callables"][op["callee"]]
            dotted = "d" if "." in c["name"] else "s"
            kinds.append(op["op"][0] + style + dotted + c["target"][0] + gen.shape(c["beh"][1] if c["beh"][0] in ("ret", "rett") else c["beh"][0])[:12])
    return (rig, effective_client_version(s), s["sver"], s["cuj"], s["suj"], tuple(kinds))


def run_group(ctx, rig_spec, scenarios, tmpdir, lines, pending):
    """Runs scenarios (grouped by server configuration) on one kind of rig."""
    kind, transport, backend = rig_spec
    label = "%s/%s/%s" % rig_spec
    groups = {}
    for s in scenarios:
        groups.setdefault((s["sver"], s["suj"]), []).append(s)
    for (sver, suj), group in sorted(groups.items()):
        rig = Rig(kind, transport, sver, suj, tmpdir)
        try:
            for s in group:
                with raw_backend(backend == "raw"):
                    records, hist = run_real(rig, s)
                case = {"rig": list(rig_spec), "scenario": s}
                found = monitor(s, records, hist)
                if found and s.get("sized"):
                    # megabytes are not written into the replay file: the scenario is named, with the failing op
                    m = re.match(r"op (\d+) ", found[0][0])
                    case = {"rig": list(rig_spec), "scenario": {"sized_ref": s["long"], "ops": [int(m.group(1))] if m else None}}
                    if m:
                        found = [(re.sub(r"^op \d+ ", "op 0 ", t), k) for t, k in found if t.startswith("op %s " % m.group(1))]
                elif found:
                    # the replay is the failing call alone whenever it fails on its own
                    case, found = shrink(rig, rig_spec, s, found)
                for msg, key in found:
                    ctx.violate(case, msg, key="%s:%s" % (key, transport if transport != "loop" else "loop"))
                # the model is interpreted: the long payloads (about 100 kB a line) are run through it once per value,
                # on the first rig; on the other rigs they are judged by the monitor alone
                # (the boundary-size scenarios likewise: through the model on the bare rig, by the monitor alone elsewhere)
                if (not s.get("long") and not s.get("monitor_only") and not (s.get("size") and rig_spec != RIGS_QUICK[0])) \
                        or (rig_spec == RIGS_QUICK[0] and s.get("long_model")):
                    lines.append(model_line(s))
                    pending.append((s, rig_spec, project_real(s, records, hist)))
                else:
                    ctx.extra["monitor_only_cases"] = ctx.extra.get("monitor_only_cases", 0) + 1
                ctx.count(case_repr={"rig": label, "versions": [effective_client_version(s), s["sver"]],
                                     "ops": [op["op"] for op in s["ops"]]},
                          nontrivial_key=scenario_key(s, label), kind="scenario/" + label)
                for c in s["callables"]:
                    if any(seg.startswith("_") for seg in c.get("name", "").split(".")):
                        ctx.hist["name/underscore-segment"] += 1
                    # the special-looking classes of harness/c01names.py, by predicate (fixed list and random draws alike)
                    for cls in (c01names.classify(c["name"]) if c.get("name") else ()):
                        ctx.hist["name/%s" % cls] += 1
                        ctx.hist["name/%s/%s" % (cls, c.get("target", "pool"))] += 1
                        ctx.hist["name/%s/client-%s" % (cls, effective_client_version(s))] += 1
                if s.get("names"):
                    ctx.hist["name/fixed-list-scenarios/%s" % s["names"]] += 1
                if s.get("size"):
                    ctx.hist["size/%s/%d" % tuple(s["size"])] += 1
                if s.get("registry"):
                    ctx.hist["registry/programs"] += 1
                    ctx.hist["registry/calls-of-a-name-whose-denotation-changed"] += len(c01reg.stale_possible(s))
                for op in s["ops"]:
                    if op["op"] == "reg":
                        ctx.hist["registry/op/" + op["do"] + ("/" + op["style"] if op.get("style") else "")] += 1
                        if op["do"] == "regfunc":
                            for cls in c01names.classify(op["name"]):
                                ctx.hist["name/%s/registry-program" % cls] += 1
                        continue
                    for f in ("mc", "keep", "nkeep"):
                        if op.get(f):
                            ctx.hist["reuse/" + f] += 1
                    if any(j.get("stmts") for j in op.get("jobs") or []):
                        ctx.hist["reuse/job-extended-by-statements"] += 1
                    if op["op"] == "batch":
                        ctx.hist["op/batch/%d" % len(op["jobs"])] += 1
                        if all(j["notify"] for j in op["jobs"]):
                            ctx.hist["op/batch/all-notifications"] += 1
                    elif op["op"] == "odd":
                        ctx.hist["op/odd/" + op["kind"]] += 1
                        if op["kind"] == "batch" and len(op["jobs"]) > 2:
                            ctx.hist["op/odd/batch-mixed-fates"] += 1
                    else:
                        ctx.hist["op/" + op["op"]] += 1
                if s.get("long"):
                    ctx.hist["%s-payload/%s/%s" % ("sized" if s.get("sized") else "long", transport, s["long"])] += 1
                ctx.hist["versions/c%s-s%s" % (effective_client_version(s), s["sver"])] += 1
                ctx.hist["jsonclass/c%d-s%d" % (s["cuj"], s["suj"])] += 1
        finally:
            rig.close()


def shrink(rig, rig_spec, s, found):
    """Reduces a violating scenario to the single op (and, for a batch, the single job) that still violates."""
    case = {"rig": list(rig_spec), "scenario": s}
    m = re.match(r"op (\d+) ", found[0][0])
    if not m or len(s["ops"]) == 1 and s["ops"][0]["op"] != "batch":
        return case, found
    if s.get("sized"):
        return case, found  # one op per payload already; re-running multi-megabyte payloads buys nothing
    idx = int(m.group(1))
    op = s["ops"][idx]
    candidates = []
    vs = op_vars(op)
    if s.get("registry"):
        candidates = c01reg.shrink_candidates(s, idx)
    elif vs:
        # the failing op uses kept objects: the ops up to it that share one of them (order kept), nothing else
        group = [o for o in s["ops"][:idx + 1] if op_vars(o) & vs]
        if len(group) < len(s["ops"]):
            candidates.append(dict(s, ops=group))
        if len(group) > 2:
            candidates.insert(0, dict(s, ops=[group[0], group[-1]]))
            candidates.insert(0, dict(s, ops=group[-2:]))
    else:
        if op["op"] == "batch":
            candidates.extend(dict(s, ops=[dict(op, jobs=[j])]) for j in op["jobs"])
        if len(s["ops"]) > 1:
            candidates.append(dict(s, ops=[op]))
    for cand in candidates:
        try:
            with raw_backend(rig_spec[2] == "raw"):
                records, hist = run_real(rig, cand)
            again = monitor(cand, records, hist)
        except Exception:  # noqa: BLE001 - shrinking is best effort
            continue
        if again:
            return {"rig": list(rig_spec), "scenario": cand}, again
    return case, found


def hand_written():
    """The cases of the property text, one scenario each (all four version pairs are added by the caller)."""
    cs = [
        {"name": "add", "target": "func", "sig": [["a", "b"], 0, False, False], "beh": ["ret", 15]},
        {"name": "ping", "target": "func", "sig": [[], 0, False, False], "beh": ["ret", True]},
        {"name": "ns.sub.echo", "target": "attr", "sig": [[], 0, True, True], "beh": ["rett", [1, [2, {"k": [3]}]]]},
        {"name": "дот.ted", "target": "func", "sig": [[], 0, False, True], "beh": ["ret", -0.0]},
    ]
    falsy = [{"name": "f%d" % i, "target": "func", "sig": [[], 0, True, True], "beh": ["ret", v]} for i, v in enumerate(FALSY)]
    ops = [
        {"op": "call", "callee": 0, "path": ["add"], "args": [5, 10], "kwargs": {}, "tup": False},
        {"op": "call", "callee": 0, "path": ["add"], "args": [], "kwargs": {"a": 2 ** 53, "b": 1e-320}, "tup": False},
        {"op": "call", "callee": 1, "path": ["ping"], "args": [], "kwargs": {}, "tup": False},
        {"op": "call", "callee": 2, "path": ["ns", "sub", "echo"], "args": ["é\u0000\U0001f600", [[], {}]], "kwargs": {}, "tup": True},
        {"op": "notify", "callee": 2, "path": ["ns", "sub", "echo"], "args": [], "kwargs": {"not an identifier": [0]}, "tup": False},
        {"op": "call", "callee": 3, "path": ["дот", "ted"], "args": [], "kwargs": {"é": "é"}, "tup": False},
        {"op": "batch", "jobs": [
            {"notify": False, "callee": 0, "path": ["add"], "args": [1, 2], "kwargs": {}, "tup": False},
            {"notify": True, "callee": 1, "path": ["ping"], "args": [], "kwargs": {}, "tup": False},
            {"notify": False, "callee": 2, "path": ["ns", "sub", "echo"], "args": [], "kwargs": {}, "tup": False},
            {"notify": False, "callee": 3, "path": ["дот.ted"], "args": [], "kwargs": {"k": None}, "tup": False}]},
        {"op": "batch", "jobs": [{"notify": True, "callee": 1, "path": ["ping"], "args": [], "kwargs": {}, "tup": False}]},
    ]
    fops = [{"op": "call", "callee": i, "path": ["f%d" % i], "args": [], "kwargs": {}, "tup": False} for i in range(len(FALSY))]
    fops.append({"op": "batch", "jobs": [{"notify": False, "callee": i, "path": ["f%d" % i], "args": [0], "kwargs": {}, "tup": False}
                                         for i in range(len(FALSY))]})
    out = []
    for cver in (1.0, 2.0):
        for sver in (1.0, 2.0):
            for uj in (False, True):
                base = {"cver": cver, "carg": None, "cuj": uj, "sver": sver, "suj": uj, "mver": cver, "muj": uj}
                out.append(dict(base, callables=cs, ops=ops))
                out.append(dict(base, callables=falsy, ops=fops))
    return out


def _mix(n):
    """A deterministic text of `n` characters whose UTF-8 encodings are 1, 2, 3 and 4 bytes long, in an order that
    puts every residue of a read boundary inside a multi-byte sequence."""
    alphabet = ["a", "é", "€", "\U0001f600", "z", "日", "ü", "本", " ", "\U00010348", "ж", "語", "\\", "\""]
    out, k = [], 0
    for i in range(n):
        k = (k * 7 + i * 3 + 1) % 101
        out.append(alphabet[k % len(alphabet)])
    return "".join(out)


# Payloads longer than one read of the HTTP response (xmlrpc.client.Transport.parse_response reads 1024 bytes at a
# time) and than a socket buffer line: non-ASCII text of every UTF-8 width, unaligned, plus a long ASCII control.
LONG_VALUES = [
    ("euro", "€" * 1500),
    ("cjk", "日本語" * 600),
    ("mix", _mix(3000)),
    ("astral", "x" + "\U0001f600" * 700),
    ("latin", "é" * 1501),
    ("ascii", "plain ASCII " * 300),
    ("nested", ["日本語" * 400, {"kéy": "ü" * 999, "€": ["€" * 400, 1.5, None]}]),
]


def long_payloads():
    """
    Calls whose argument AND result are long texts (single call in positional and keyword style, notification, and
    every MultiCall position), always part of the quick tier on every rig: over a real socket the reply spans several
    reads of the HTTP body, so any per-chunk treatment of the bytes (decoding, length accounting) shows.
    """
    out = []
    small = {"name": "tiny", "target": "func", "sig": [[], 0, True, True], "beh": ["ret", "é"]}
    for n, (label, v) in enumerate(LONG_VALUES):
        other = LONG_VALUES[(n + 1) % len(LONG_VALUES)][1]
        cs = [{"name": "echo_" + label, "target": "func", "sig": [[], 0, True, True], "beh": ["ret", v]},
              {"name": "ns.other", "target": "attr", "sig": [["a"], 1, False, True], "beh": ["ret", other]},
              small]

        def job(callee, notify, args, kwargs):
            return {"notify": notify, "callee": callee, "path": cs[callee]["name"].split("."), "args": args,
                    "kwargs": kwargs, "tup": False}
        ops = [
            {"op": "call", "callee": 0, "path": ["echo_" + label], "args": [v], "kwargs": {}, "tup": False},
            {"op": "call", "callee": 1, "path": ["ns", "other"], "args": [], "kwargs": {"a": other, "ключ": v}, "tup": False},
            {"op": "notify", "callee": 0, "path": ["echo_" + label], "args": [v, v], "kwargs": {}, "tup": False},
            {"op": "batch", "jobs": [job(2, False, [], {}), job(0, False, [v], {}), job(1, True, [other], {}),
                                     job(1, False, [], {"a": v}), job(2, False, [0], {}), job(0, False, [], {"k": v})]},
            {"op": "batch", "jobs": [job(0, False, [v], {})]},
            {"op": "call", "callee": 2, "path": ["tiny"], "args": [], "kwargs": {}, "tup": False},
        ]
        for k, (cver, sver) in enumerate(((2.0, 2.0), (1.0, 1.0)) if n % 2 == 0 else ((1.0, 2.0), (2.0, 1.0))):
            out.append({"cver": cver, "carg": None, "cuj": False, "sver": sver, "suj": False, "mver": cver, "muj": False,
                        "callables": cs, "ops": ops, "long": label, "long_model": k == 0})
    return out


# Sized payloads: bodies of about 1 KiB, 64 KiB and more than 10 MiB (the server's do_POST reads the body in pieces of at
# most max_chunk_size = 10 MiB until Content-Length bytes are in; the client reads the reply 1024 bytes at a time).
# The non-ASCII text repeats the 7-byte unit é€é (2+3+2 bytes): 7 is coprime to 1024, so over 7 consecutive boundaries
# 1024*k every offset inside the unit — in particular inside each multi-byte sequence — falls on a boundary.
MB_UNIT = "é€é"


def sized_values(big):
    out = [("1k-ascii", "x" * 1024)]
    out += [("1k-mb%d" % r, "a" * r + MB_UNIT * 147) for r in range(7)]
    out += [("64k-ascii", "y" * 65536), ("64k-mb", "a" + MB_UNIT * 9363)]
    if big:
        out += [("11M-ascii", "z" * (11 * 1024 * 1024)), ("11M-mb", "ab" + MB_UNIT * (11 * 1024 * 1024 // 7 + 1))]
    return out


def sized_payloads(rig_spec, big):
    """
    One scenario per sized value: the value as positional argument (small result), as result (no argument), as keyword
    and notification parameter, and inside a MultiCall batch.  The values above 10 MiB are sent over the real-socket rigs
    only, the non-ASCII one only with the non-escaping backend (escaped it is ASCII on the wire, three times as long).
    These scenarios are judged by the monitor alone (the interpreted model is not fed megabytes).
    """
    out = []
    for n, (label, v) in enumerate(sized_values(big)):
        huge = label.startswith("11M")
        if huge and (rig_spec[1] == "loop" or (label == "11M-mb" and rig_spec[2] != "raw")):
            continue
        cs = [{"name": "size", "target": "func", "sig": [[], 0, True, True], "beh": ["ret", len(v)]},
              {"name": "fetch", "target": "func", "sig": [[], 0, True, True], "beh": ["ret", v]},
              {"name": "ns.keep", "target": "attr", "sig": [["a"], 1, False, True], "beh": ["ret", [v[:100], None]]}]

        def job(callee, notify, args, kwargs):
            return {"notify": notify, "callee": callee, "path": cs[callee]["name"].split("."), "args": args,
                    "kwargs": kwargs, "tup": False}
        ops = [{"op": "call", "callee": 0, "path": ["size"], "args": [v], "kwargs": {}, "tup": False},
               {"op": "call", "callee": 1, "path": ["fetch"], "args": [], "kwargs": {}, "tup": False},
               {"op": "batch", "jobs": [job(0, False, [0], {}), job(0, False, [v], {}), job(2, True, [], {"a": v}), job(0, False, [], {})]}]
        if not huge:
            ops += [{"op": "call", "callee": 2, "path": ["ns", "keep"], "args": [], "kwargs": {"a": v, "é": [v]}, "tup": False},
                    {"op": "notify", "callee": 0, "path": ["size"], "args": [v, 1], "kwargs": {}, "tup": False},
                    {"op": "batch", "jobs": [job(1, False, [], {}), job(1, False, [v], {})]}]
        cver, sver = ((2.0, 2.0), (1.0, 1.0), (1.0, 2.0), (2.0, 1.0))[n % 4]
        out.append({"cver": cver, "carg": None, "cuj": False, "sver": sver, "suj": False, "mver": cver, "muj": False,
                    "callables": cs, "ops": ops, "long": label, "sized": True, "long_model": label.startswith("1k")})
    return out


def run(ctx):
    ctx.rule = ("scenarios = (client version argument x client/server configuration version x use_jsonclass flags, a "
                "registry of 1-4 instrumented callables (functions and instance attributes, identifier / dotted / Unicode "
                "names, variadic and fixed signatures, edge-pool and falsy return values, tuples, raising bodies), 1-4 ops "
                "(call / notification / MultiCall batch of 1-6 jobs / out-of-domain op) with positional, keyword or no "
                "arguments), each run on a real ServerProxy with a History against the listed rig; distinct_nontrivial = "
                "distinct (rig, version pair, translation flags, per-op style/target/dotted/return shape); plus registry "
                "programs (calls interleaved with register_function / del funcs[name] / register_instance / setattr / delattr "
                "on instance objects / register_introspection_functions; distinct by the sequence of operations and called "
                "names) and boundary-size scenarios (distinct by dimension and size)")
    tmpdir = tempfile.mkdtemp(prefix="verif-c01-")
    old_timeout = socket.getdefaulttimeout()
    socket.setdefaulttimeout(WATCHDOG)
    lines, pending = [], []
    try:
        rigs = RIGS_THOROUGH if ctx.thorough or ctx.searching else RIGS_QUICK
        hw = hand_written()
        for n, rig_spec in enumerate(rigs):
            rng = ctx.derive_rng("rig/%s/%s/%s" % rig_spec)
            if rig_spec == ("bare", "loop", "std"):
                count = ctx.budget(900, 10000)
            elif rig_spec[1] == "loop":
                count = ctx.budget(80, 600)
            else:
                count = ctx.budget(80, 800)
            scenarios = [gen_scenario(rng) for _ in range(count)]
            # scenarios that keep helper objects (one MultiCall called several times, a kept proxy.ns / method /
            # _notify object, MultiCallMethod extended by statements)
            rcount = ctx.budget(150, 2500) if rig_spec == ("bare", "loop", "std") else ctx.budget(25, 250)
            rrng = ctx.derive_rng("reuse/%s/%s/%s" % rig_spec)
            reuse = reuse_hand_written() + [gen_reuse(rrng) for _ in range(rcount)]
            # every rig sees the hand-written cases, the long and the sized payloads; non-ASCII payloads over real
            # sockets (bodies spanning several reads, in both directions) are what exposes codec / framing changes
            # the registry as a mutable object: hand-written programs on every rig, random ones mostly on the bare rig
            grng = ctx.derive_rng("registry/%s/%s/%s" % rig_spec)
            gcount = ctx.budget(250, 4000) if rig_spec == ("bare", "loop", "std") else ctx.budget(30, 300)
            registry = c01reg.registry_hand_written() + [c01reg.gen_registry_scenario(grng, value) for _ in range(gcount)]
            # boundary sizes: every dimension on the bare rig; on the other rigs the core batch sizes, and every
            # dimension for a slice of the sizes that rotates with the rig (and the seed)
            all_sizes = c01reg.SIZES_THOROUGH if (ctx.thorough or ctx.searching) else c01reg.SIZES_QUICK
            if rig_spec == ("bare", "loop", "std"):
                sized = c01reg.sized_scenarios(all_sizes, full=True, k=n)
            else:
                off = grng.randrange(4)
                sized = (c01reg.sized_scenarios(c01reg.SIZES_CORE, full=False, k=n)
                         + c01reg.sized_scenarios([x for i, x in enumerate(all_sizes) if (i + n + off) % 4 == 0 and x <= 129], full=True, k=n))
            # names that look special to some layer (harness/c01names.py): the whole fixed list on every rig; all four
            # version pairs and the model on the bare rig, elsewhere two pairs (rotating with the rig), monitor alone
            if rig_spec == ("bare", "loop", "std"):
                # (the model does not look at the version when it routes a name: it is fed the two equal-version pairs)
                named = [x if x["cver"] == x["sver"] else dict(x, monitor_only=True)
                         for x in c01names.fixed_scenarios(excluded_names(), excluded_first())] + c01names.registry_programs()
            else:
                # a third of the classes per rig (rotating: three consecutive rigs see them all), the rpc. / system. families
                # on every rig
                labels = [lb for lb, _n in c01names.FIXED]
                mine = set(lb for i, lb in enumerate(labels) if i % 3 == n % 3) | {"reserved-rpc-prefix", "system-prefix"}
                pairs = (c01names.VERSION_PAIRS[:2], c01names.VERSION_PAIRS[2:] + c01names.VERSION_PAIRS[1:2])[n % 2]
                named = [dict(x, monitor_only=True) for x in
                         c01names.fixed_scenarios(excluded_names(), excluded_first(), pairs=pairs, classes=mine)
                         + c01names.registry_programs()[n % 2::2]]
            scenarios = hw + named + reuse + registry + sized + long_payloads() + sized_payloads(rig_spec, big=True) + scenarios
            import time as _time
            t_rig = _time.time()
            run_group(ctx, rig_spec, scenarios, tmpdir, lines, pending)
            ctx.extra.setdefault("rig_seconds", {})["%s/%s/%s" % rig_spec] = round(_time.time() - t_rig, 1)
        # the codec laws on everything that was generated
        values, batches = [], []
        for s, _rig, _p in pending[: ctx.budget(600, 4000)]:
            for c in s["callables"]:
                if c["beh"][0] in ("ret", "rett"):
                    values.append(tuplify(c["beh"][1]) if c["beh"][0] == "rett" else c["beh"][1])
            for op in s["ops"]:
                if op.get("kind") == "script" or op["op"] == "reg":
                    continue
                for j in (op.get("jobs") or [op]):
                    a, kw = send_args(j)
                    values.append(tuple(a))
                    values.append(kw)
                if op["op"] == "batch":
                    batches.append([{"jsonrpc": "2.0", "method": ".".join(j["path"]), "params": send_args(j)[0] or send_args(j)[1], "id": "x"}
                                    for j in op["jobs"]])
        # what the quantifier leaves out (never called as in-domain ops): dunder names, own attributes of the helper objects
        for nm in c01names.EXCLUDED_DUNDER:
            assert is_dunder(nm)
            ctx.hist["name/excluded-dunder"] += 1
        for nm in c01names.EXCLUDED_OWN:
            if nm in excluded_first():
                ctx.hist["name/excluded-proxy-own-attr"] += 1
        for _label, nms in c01names.FIXED:
            for nm in nms:
                if not c01names.in_domain(nm, excluded_first()):
                    ctx.hist["name/excluded-proxy-own-attr" if nm in excluded_first() else "name/excluded-dunder"] += 1
                elif not c01names.attr_routable(nm):
                    ctx.hist["name/instance-path-private-segment-or-too-deep-func-only"] += 1
        law_failures = check_backend_laws(ctx, values, batches)
        ctx.extra["backend_law_values"] = len(values)
        ctx.extra["backend_law_batches"] = len(batches)
        ctx.extra["backend_law_failures"] = law_failures
    finally:
        socket.setdefaulttimeout(old_timeout)
        shutil.rmtree(tmpdir, ignore_errors=True)

    # the version gate the theorems take as hypothesis `Gate20` (Lean cannot evaluate float("2.0") in the kernel)
    gate = ctx.lean(["proxy " + pyval.enc({"jsonrpc": "2.0", "id": "x", "result": 0})])
    if gate != ["ok I0"]:
        ctx.disagree("Gate20", "ok I0", gate[0], component="gate")

    import time as _time
    t_model = _time.time()
    outs = ctx.lean(lines)
    ctx.extra["model_seconds"] = round(_time.time() - t_model, 1)
    unmodelled = 0
    for (s, rig_spec, real), line in zip(pending, outs):
        model = project_model(s, line)
        if model is None:
            unmodelled += 1
            ctx.extra.setdefault("unmodelled_samples", [])
            if len(ctx.extra["unmodelled_samples"]) < 5:
                ctx.extra["unmodelled_samples"].append({"why": line[:120], "ops": short(s["ops"], 300)})
            continue
        if model != real:
            detail_real, detail_model = real, model
            if isinstance(model, tuple) and len(model) == 2 and isinstance(model[0], list):
                for i, (a, b) in enumerate(zip(real[0], model[0])):
                    if a != b:
                        detail_real, detail_model = {"op": i, "real": a}, {"op": i, "model": b}
                        break
                else:
                    detail_real, detail_model = {"history": real[1]}, {"history": model[1]}
            ctx.disagree({"rig": list(rig_spec), "scenario": s}, detail_real, detail_model, component="e2e")
    ctx.traces_validated += len(lines) - unmodelled
    ctx.extra["unmodelled_cases"] = unmodelled
    ctx.assumptions.append(
        "JSON codec laws Backend.roundtrip / Backend.batch (hypotheses of every C01 theorem) tested against "
        "jsonrpclib.jdumps/jloads (CPython json, escaping and non-escaping) on %d generated values and %d MultiCall bodies: %d failures"
        % (ctx.extra["backend_law_values"], ctx.extra["backend_law_batches"], ctx.extra["backend_law_failures"]))
    ctx.extra.setdefault("backend_key_order_changed", 0)
    ctx.assumptions.append(
        "dict key order: the model's equalities (PyVal.dict is an ordered list, Backend.roundtrip) hold for an "
        "order-preserving backend; the property does not speak of key order (JSON objects are unordered, Python == "
        "ignores it), so values, call arguments and documents are compared order-insensitively; the real backend "
        "changed the key order of %d of the rendered values (informational, no alarm)" % ctx.extra["backend_key_order_changed"])
    ctx.assumptions.append(
        "Gate20 (check_for_errors lets a reply with jsonrpc = \"2.0\" through: float(\"2.0\") > 2.0 is false) is a hypothesis "
        "of the theorems for 2.0-form replies; validated by executing the model's `proxy` component on every run")
    ctx.assumptions.append(
        "uuid4 ids are non-empty strings (hypothesis fresh ≠ \"\" of the theorems); HTTP transport = identity on texts: "
        "proved from the byte-level models as C01_over_wire (C17 reassembly + C19 own reply), the HTTP header layer "
        "(http.client / http.server, CPython) is represented by the read/chunk schedule; validated here over real TCP "
        "and Unix sockets with bodies from 30 bytes to more than 10 MiB")
    ctx.assumptions.append(
        "the Backend laws are satisfiable: JRV.Lemmas.BackendInstance.godel is a Backend with both law fields proved "
        "for all JSON-able values (C01_backend_exists); it is a witness, not CPython's json")


def expand_sized(s, rig_spec):
    """A sized scenario named by its label (see run_group), restricted to the listed ops."""
    if "sized_ref" not in s:
        return s
    full = [x for x in sized_payloads(tuple(rig_spec), big=True) if x["long"] == s["sized_ref"]][0]
    if s.get("ops") is not None:
        full = dict(full, ops=[full["ops"][i] for i in s["ops"]])
    return full


def search(ctx):
    """Search stage (a tie is broken and no monitor has fired): ONE more pass with the thorough rigs and budgets and
    fresh seeds.  (The default of three such passes costs ten minutes and has never found what the first did not.)"""
    import random
    ctx.rng = random.Random("C01/%s/search" % ctx.seed)
    saved = ctx.seed
    try:
        ctx.seed = "%s/search" % saved   # derive_rng labels depend on the seed: other scenarios than the first pass
        run(ctx)
    finally:
        ctx.seed = saved


def replay(payload):
    case = payload.get("case") or {}
    s = case.get("scenario")
    rig_spec = tuple(case.get("rig") or ("bare", "loop", "std"))
    if len(rig_spec) == 2:
        rig_spec = rig_spec + ("std",)
    print("replaying scenario on rig %s/%s/%s: %s" % (rig_spec + (json.dumps(s)[:1500],)))
    if "sized_ref" in s:
        s = expand_sized(s, rig_spec)
        print(" = sized payload %r (%d characters): ops %s" % (s["long"], len(dict(sized_values(True))[s["long"]]),
                                                          [(op["op"], short(op.get("args") or op.get("jobs"), 80)) for op in s["ops"]]))
    tmpdir = tempfile.mkdtemp(prefix="verif-c01-")
    socket.setdefaulttimeout(WATCHDOG)
    try:
        rig = Rig(rig_spec[0], rig_spec[1], s["sver"], s["suj"], tmpdir)
        try:
            with raw_backend(rig_spec[2] == "raw"):
                records, hist = run_real(rig, s)
        finally:
            rig.close()
    finally:
        shutil.rmtree(tmpdir, ignore_errors=True)
    for op, rec in zip(s["ops"], records):
        print(" op %s -> %s %s ; calls %s" % (op["op"], rec["outcome"][0], short(rec["outcome"][1]), short([(e[2], e[3]) for e in rec["log"]])))
    msgs = monitor(s, records, hist)
    for m, _k in msgs:
        print("VIOLATION reproduced:", m[:600])
    if not msgs:
        print("no violation")
    return 1 if msgs else 0
