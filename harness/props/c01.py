"""
C01 — End-to-end call transparency across versions, transports and call styles.

Model   : lean/JRV/Model/EndToEnd.lean — the client call path (_Method.__call__, dotted names, ServerProxy._request /
          _request_notify / _run_request with History, MultiCall, MultiCallIterator) composed with the dispatcher model
          (JRV.Model.Server) through a loop-back transport; the JSON text layer is abstract.
Theorems: lean/JRV/Properties/C01.lean (over every Backend satisfying its laws).
Tie     : extracted facts (tools/extractors/e2e.py) + differential correspondence: scenarios (a proxy with a History,
          a registry of instrumented callables, a sequence of calls / notifications / MultiCall batches) run on the
          REAL ServerProxy against (a) a bare SimpleJSONRPCDispatcher through impl.LoopTransport, (b) real
          SimpleJSONRPCServer / PooledJSONRPCServer over TCP and Unix sockets, and on the model (`e2e` component):
          outcome of every op, server effect log, and the documents of every recorded request / response text.
Monitor : the property statement on the real outputs: call log of the instrumented callable (exactly one call with the
          sent arguments up to JSON normalisation), returned value (normalised return value, exact types), History
          versus the texts captured by a recording wrapper around the server's `_marshaled_dispatch`; for batches the
          positional mapping and one call per job in job order.  A violating scenario is reduced to the single call
          (or single-job batch) that still violates before it is written as replay (`shrink`).
Always  : besides the random scenarios every rig (quick tier included) runs the hand-written cases and `long_payloads()`:
          arguments AND results of 1.5-9 kB (non-ASCII text of every UTF-8 width, unaligned; a long ASCII control; a
          nested value) as single call (positional, keyword), notification and at every MultiCall position, so that the
          reply spans several 1024-byte reads of the HTTP body on the real-socket rigs.  The interpreted model sees the
          long payloads once per value (first rig); elsewhere they are judged by the monitor alone.
Mixed   : out-of-domain batches mixing fates (unknown method, arguments that do not bind, ordinary jobs, notifications)
          are run for correspondence with the model (`C01_batch_mixed`): per-position outcome and effect log.
Assumed : the JSON codec laws `Backend.roundtrip` and `Backend.batch` — tested here against jsonrpclib.jdumps/jloads on
          every generated value and batch.
"""
import json
import os
import re
import shutil
import socket
import tempfile
import threading

import gen
import impl
import pyval
import servercases as sc

REQUIRED_THEOREMS = [
    "C01_request", "C01_single", "C01_single_jsonclass", "C01_kwargs", "C01_dotted", "C01_no_args", "C01_no_args_wire",
    "C01_falsy", "C01_raises", "C01_notify", "C01_notify_jsonclass", "C01_notify_jsonclass_full",
    "C01_batch", "C01_batch_all_notifications", "C01_batch_position", "C01_batch_mixed", "C01_batch_jsonclass",
    "C01_batch_jsonclass_partial", "C01_methodParams_shape",
    "C01_gen_methodSendsArgsElseKwargs", "C01_gen_requestReturnsResult", "C01_gen_historyOrder",
    "C01_gen_multicallFormat", "C01_gen_multicallVersion", "C01_gen_iteratorPositional", "C01_gen_proxyOwnAttrs",
]

J = impl.jsonrpclib.jsonrpc
S = sc.S
WATCHDOG = 8.0

# ------------------------------------------------------------------------------------------------
# values

EDGE_VALUES = [
    0, -0.0, 0.0, 2 ** 53, 2 ** 53 + 1, -(2 ** 53) - 1, 2 ** 53 - 1, 1e-320, 5e-324, 1.5, "", "\u0000", "\U0001f600",
    "é", "à́", "\U0001f468‍\U0001f469", [], {}, [[]], [[[[[[[]]]]]]], {"": {"": {"": {}}}},
    {"not an identifier": 1, "a b": 2, "1": 3, "é": 4, "": 5}, [{}], {"k": []}, True, False, None, [None], [0, False, ""],
    "null", "true", "0", " ", "\\", "\"", "\n", " ", "퟿", "", "￿",
]
FALSY = [0, False, "", [], {}, None, 0.0, -0.0]


def value(rng, size=4, depth=3, jc_keys=False):
    r = rng.random()
    if r < 0.3:
        return rng.choice(EDGE_VALUES)
    v = gen.json_value(rng, size, depth)
    if jc_keys and rng.random() < 0.15:
        v = {"__jsonclass__": ["builtins.list", [v]], "x": v}
    return v


def tuplify(v):
    if isinstance(v, list):
        return tuple(tuplify(x) for x in v)
    if isinstance(v, dict):
        return dict((k, tuplify(x)) for k, x in v.items())
    return v


def norm(v):
    """JSON normalisation, by CPython's own codec (tuples -> lists; int/float identity preserved)."""
    return json.loads(json.dumps(v))


def strict_eq(a, b):
    """Equality with exact types: bool vs int vs float, floats by repr (-0.0), containers recursively."""
    if type(a) is not type(b):
        return False
    if isinstance(a, float):
        return repr(a) == repr(b)
    if isinstance(a, (list, tuple)):
        return len(a) == len(b) and all(strict_eq(x, y) for x, y in zip(a, b))
    if isinstance(a, dict):
        return set(a.keys()) == set(b.keys()) and all(strict_eq(a[k], b[k]) for k in a)
    return a == b


def view_eq(a, b):
    """Callee views (named values with the default sentinel, *args, **kwargs)."""
    (n1, a1, k1), (n2, a2, k2) = a, b
    if len(n1) != len(n2):
        return False
    for x, y in zip(n1, n2):
        if (x is sc._D) != (y is sc._D):
            return False
        if x is not sc._D and not strict_eq(x, y):
            return False
    return strict_eq(list(a1), list(a2)) and strict_eq(dict(k1), dict(k2))


# ------------------------------------------------------------------------------------------------
# names

_excluded = []


def excluded_names():
    """Attributes that normal lookup finds on the real proxy-side objects (computed from the real classes)."""
    if not _excluded:
        tr = impl.LoopTransport(lambda body: "")
        proxy = J.ServerProxy("http://localhost/", transport=tr)
        mc = J.MultiCall(proxy)
        objs = [proxy, J._Method(lambda *a: None, "m"), J._Notify(lambda *a: None), mc,
                J.MultiCallMethod("m"), J.MultiCallNotify(mc)]
        names = set()
        for o in objs:
            names.update(dir(o))
            names.update(getattr(o, "__dict__", {}).keys())
        _excluded.append(names)
    return _excluded[0]


def is_dunder(n):
    return n.startswith("__") and n.endswith("__")


IDENT_HEAD = "abcdefghijklmnopqrstuvwxyzABCXYZ"
IDENT_TAIL = IDENT_HEAD + "0123456789_"
UNI = ["é", "日本", "\U0001f600", "é", "a b", "x-y", "1st", "ключ", " ", "\u0000", "q\"", "k\\", "add!", " ", "id", "result"]


def ident(rng):
    return rng.choice(IDENT_HEAD) + "".join(rng.choice(IDENT_TAIL) for _ in range(rng.randint(0, 5)))


def segment(rng, allow_uni=True):
    excl = excluded_names()
    for _ in range(50):
        r = rng.random()
        if r < 0.6 or not allow_uni:
            s = ident(rng)
        elif r < 0.9:
            s = rng.choice(UNI)
        else:
            s = "".join(rng.choice(UNI + list(IDENT_TAIL)) for _ in range(rng.randint(1, 3)))
        if s and "." not in s and not s.startswith("_") and s not in excl and not is_dunder(s):
            return s
    return "m" + ident(rng)


# ------------------------------------------------------------------------------------------------
# scenarios (JSON-able: they go into replay files)
#
#   callable  {"name", "target": "func"|"attr", "sig": [names, ndefaults, star, kw], "beh": ["ret", v] | ["rett", v] |
#              ["raise", cls, text]}           "rett": the value is returned with every list turned into a tuple
#   op        {"op": "call"|"notify", "callee": i, "path": [..], "args": [..], "kwargs": {..}, "tup": bool}
#             {"op": "batch", "jobs": [{"notify": bool, "callee": i, "path", "args", "kwargs", "tup"}..]}
#             {"op": "odd", ...}  outside the property's domain, correspondence only

def gen_sig(rng):
    r = rng.random()
    if r < 0.5:
        return [[], 0, True, True]
    names = rng.sample(["a", "b", "c", "x", "y"], rng.randint(0, 3))
    return [names, rng.randint(0, len(names)), rng.random() < 0.3, rng.random() < 0.4]


def gen_callables(rng, n):
    out = []
    used = set()
    for _ in range(n):
        target = "func" if rng.random() < 0.6 else "attr"
        depth = rng.choice([1, 1, 2, 3])
        for _try in range(20):
            segs = [segment(rng, allow_uni=True) for _ in range(depth)]
            name = ".".join(segs)
            # an attribute path must not pass through another callable's leaf twice; keep names prefix-free
            if all(not (name == u or name.startswith(u + ".") or u.startswith(name + ".")) for u in used):
                break
        used.add(name)
        r = rng.random()
        if r < 0.08:
            beh = ["raise", rng.choice(["ValueError", "TypeError", "KeyError", "MyError", "ZeroDivisionError"]), rng.choice(["boom", "", "é"])]
        elif r < 0.3:
            beh = ["ret", rng.choice(FALSY)]
        elif r < 0.4:
            beh = ["rett", value(rng)]
        else:
            beh = ["ret", value(rng)]
        out.append({"name": name, "target": target, "sig": gen_sig(rng), "beh": beh})
    return out


def gen_args(rng, sig, jc_keys):
    """Arguments that bind: (args, kwargs)."""
    names, nd, star, kw = sig
    nreq = len(names) - nd
    styles = ["pos"]
    if nreq == 0:
        styles.append("none")
    if names or kw:
        styles.append("kw")
    style = rng.choice(styles)
    if style == "none":
        return [], {}
    if style == "pos":
        lo = max(nreq, 1)
        hi = len(names) + (rng.randint(0, 3) if star else 0)
        if hi < lo:
            if nreq == 0:
                return [], {}
            hi = lo
        n = rng.randint(lo, hi)
        return [value(rng, 3, 2, jc_keys) for _ in range(n)], {}
    keys = list(names[:nreq]) + [n for n in names[nreq:] if rng.random() < 0.5]
    if kw:
        for _ in range(rng.randint(0 if keys else 1, 3)):
            # ("self" is an ordinary keyword: `_Method.__call__(*args, **kwargs)` takes its receiver positionally)
            k = rng.choice(["k", "not an identifier", "é", "", "a b", "1", "zz", "\U0001f600", "cls", "method", "id", "self"])
            if k not in names:
                keys.append(k)
    if not keys:
        return [], {}
    rng.shuffle(keys)
    return [], dict((k, value(rng, 3, 2, jc_keys)) for k in dict.fromkeys(keys))


def client_path(rng, name):
    """Attribute accesses whose nesting gives the method name."""
    segs = name.split(".")
    excl = excluded_names()
    ok = all(s and s not in excl and not is_dunder(s) for s in segs)
    if ok and rng.random() < 0.8:
        return segs
    return [name]


def gen_call(rng, callables, jc_keys):
    i = rng.randrange(len(callables))
    c = callables[i]
    args, kwargs = gen_args(rng, c["sig"], jc_keys)
    return {"callee": i, "path": client_path(rng, c["name"]), "args": args, "kwargs": kwargs, "tup": rng.random() < 0.25}


BAD_BEAN = {"__jsonclass__": ["", []]}


def gen_odd(rng, callables, suj=False):
    r = rng.random()
    c = rng.choice(callables)
    if suj and rng.random() < 0.5:
        # the server's class translator rejects the request: a single -32700 object answers it — also a whole batch
        kind = rng.choice(["call", "notify", "batch", "batch"])
        if kind == "batch":
            return {"op": "odd", "kind": "batch", "jobs": [
                {"notify": rng.random() < 0.3, "path": client_path(rng, c["name"]), "args": [1], "kwargs": {}},
                {"notify": rng.random() < 0.3, "path": client_path(rng, c["name"]), "args": [[BAD_BEAN]], "kwargs": {}}]}
        return {"op": "odd", "kind": kind, "path": client_path(rng, c["name"]), "args": [BAD_BEAN], "kwargs": {}}
    if r < 0.25:
        return {"op": "odd", "kind": "call", "path": ["nosuch" + ident(rng)], "args": [1], "kwargs": {}}
    if r < 0.4:
        return {"op": "odd", "kind": "call", "path": client_path(rng, c["name"]), "args": [1], "kwargs": {"k": 2}}
    if r < 0.45:
        return {"op": "odd", "kind": rng.choice(["call", "notify"]), "path": client_path(rng, c["name"]), "args": [], "kwargs": {"self": 1}}
    if r < 0.6:
        return {"op": "odd", "kind": "call", "path": ["__nope_%s__" % ident(rng)], "args": [], "kwargs": {}}
    if r < 0.8:
        # arguments that do not bind (when the signature can refuse them)
        names, nd, star, kw = c["sig"]
        if not star:
            return {"op": "odd", "kind": "call", "path": client_path(rng, c["name"]),
                    "args": [0] * (len(names) + 1), "kwargs": {}}
        return {"op": "odd", "kind": "notify", "path": ["nosuch"], "args": [], "kwargs": {}}
    # a batch mixing fates (C01_batch_mixed): unknown method, arguments that do not bind, ordinary jobs, in any order
    jobs = [{"notify": False, "path": ["nosuch"], "args": [], "kwargs": {}},
            {"notify": rng.random() < 0.5, "path": client_path(rng, c["name"]), "args": [], "kwargs": {}}]
    for c2 in callables:
        names, nd, star, kw = c2["sig"]
        if not star and rng.random() < 0.7:
            jobs.append({"notify": rng.random() < 0.25, "path": client_path(rng, c2["name"]),
                         "args": [0] * (len(names) + 1 + rng.randint(0, 2)), "kwargs": {}})
        if not kw and rng.random() < 0.4:
            jobs.append({"notify": False, "path": client_path(rng, c2["name"]), "args": [], "kwargs": {"no such keyword": 1}})
        if rng.random() < 0.5:
            a, k = gen_args(rng, c2["sig"], False)
            jobs.append({"notify": rng.random() < 0.25, "path": client_path(rng, c2["name"]), "args": a, "kwargs": k})
    if rng.random() < 0.3:
        jobs.append({"notify": rng.random() < 0.5, "path": ["nosuch", ident(rng)], "args": [1], "kwargs": {}})
    rng.shuffle(jobs)
    return {"op": "odd", "kind": "batch", "jobs": jobs[:6]}


def gen_scenario(rng, force=None):
    cuj, suj = rng.random() < 0.35, rng.random() < 0.35
    sc_ = {
        "cver": rng.choice([1.0, 2.0]), "carg": rng.choice([None, None, 1.0, 2.0]), "cuj": cuj,
        "sver": rng.choice([1.0, 2.0]), "suj": suj,
        "mver": rng.choice([1.0, 2.0]), "muj": cuj,
    }
    if force:
        sc_.update(force)
    jc_keys = not (sc_["cuj"] or sc_["suj"] or sc_["muj"])
    callables = gen_callables(rng, rng.randint(1, 4))
    ops = []
    for _ in range(rng.randint(1, 4)):
        r = rng.random()
        if r < 0.45:
            op = gen_call(rng, callables, jc_keys)
            op["op"] = "call"
        elif r < 0.6:
            op = gen_call(rng, callables, jc_keys)
            op["op"] = "notify"
        elif r < 0.9:
            jobs = []
            for _j in range(rng.randint(1, 6)):
                j = gen_call(rng, callables, jc_keys)
                j["notify"] = rng.random() < 0.35
                jobs.append(j)
            if rng.random() < 0.1:
                for j in jobs:
                    j["notify"] = True
            op = {"op": "batch", "jobs": jobs}
        else:
            op = gen_odd(rng, callables, sc_["suj"])
        ops.append(op)
    sc_["callables"] = callables
    sc_["ops"] = ops
    return sc_


def effective_client_version(s):
    return s["carg"] or s["cver"]


# ------------------------------------------------------------------------------------------------
# the real side

def run_beh(beh):
    if beh[0] == "ret":
        return beh[1]
    if beh[0] == "rett":
        return tuplify(beh[1])
    raise sc.EXC[beh[1]](beh[2])


def make_def(sig, name, target, beh, log):
    """A real `def` with the described signature, logging the callee's view of its arguments."""
    names, nd, star, kw = sig
    nreq = len(names) - nd
    ps = [n if i < nreq else "%s=_D" % n for i, n in enumerate(names)]
    if star:
        ps.append("*args")
    if kw:
        ps.append("**kwargs")
    src = "def _f(%s):\n    _log.append(('call', _target, _name, ([%s], %s, %s), False))\n    return _run(_beh)\n" % (
        ", ".join(ps), ", ".join(names), "list(args)" if star else "[]", "dict(kwargs)" if kw else "{}")
    env = {"_D": sc._D, "_log": log, "_target": target, "_name": name, "_run": run_beh, "_beh": beh}
    exec(src, env)  # noqa: S102 - generated from a closed grammar of identifiers
    return env["_f"]


class _Node(object):
    pass


def registry_desc(callables):
    """The registry in the descriptor form of servercases (for the model encoder and sig lookup)."""
    funcs = []
    root = []

    def place(children, segs, c):
        for n, a in children:
            if n == segs[0]:
                node = a
                break
        else:
            node = [None, []]
            children.append([segs[0], node])
        if len(segs) == 1:
            node[0] = [c["sig"], c["beh"]]
        else:
            place(node[1], segs[1:], c)

    for c in callables:
        if c["target"] == "func":
            funcs.append([c["name"], [c["sig"], c["beh"]]])
        else:
            place(root, c["name"].split("."), c)
    inst = {"dispatch": None, "attrs": root} if root else None
    return {"funcs": funcs, "inst": inst, "custom": None}


def install(disp, callables, log):
    """Registers the instrumented callables on a real dispatcher (functions by name, attributes on an instance)."""
    disp.funcs.clear()
    disp.instance = None
    root = None
    for c in callables:
        f = make_def(c["sig"], c["name"], c["target"], c["beh"], log)
        if c["target"] == "func":
            disp.register_function(f, c["name"])
        else:
            if root is None:
                root = _Node()
            node = root
            segs = c["name"].split(".")
            for s in segs[:-1]:
                if not hasattr(node, s):
                    setattr(node, s, _Node())
                node = getattr(node, s)
            setattr(node, segs[-1], f)
    if root is not None:
        disp.register_instance(root)


class raw_backend(object):
    """
    Runs the library with a JSON backend that does not escape non-ASCII characters (what orjson / ujson-style backends
    of jsonlib emit; CPython's json with ensure_ascii=False).  Only with such a backend do the byte conversions
    (`utils.to_bytes` / `from_bytes`, the HTTP layer) see non-ASCII bytes.  The module globals the library reads
    (`jsonrpclib.jsonrpc.jdumps`, re-exported as `jsonrpclib.jdumps`) are replaced for the duration of the block — in
    this process only; nothing in the repository is touched.
    """

    def __init__(self, active):
        self.active = active

    def __enter__(self):
        if self.active:
            self.saved = (J.jdumps, impl.jsonrpclib.jdumps)

            def jdumps_raw(obj, encoding="utf-8"):
                return json.dumps(obj, ensure_ascii=False)
            J.jdumps = jdumps_raw
            impl.jsonrpclib.jdumps = jdumps_raw
        return self

    def __exit__(self, *exc):
        if self.active:
            J.jdumps, impl.jsonrpclib.jdumps = self.saved
        return False


class Rig(object):
    """A real server end (bare dispatcher / SimpleJSONRPCServer / PooledJSONRPCServer) and the way to reach it."""
    counter = 0

    def __init__(self, kind, transport, sver, suj, tmpdir):
        self.kind, self.transport = kind, transport
        self.cfg = impl.jsonrpclib.config.Config(version=sver, use_jsonclass=suj)
        self.log = []
        self.captured = []
        self.thread = None
        if kind == "bare":
            self.disp = S.SimpleJSONRPCDispatcher(config=self.cfg)
        else:
            if transport == "unix":
                Rig.counter += 1
                addr, fam = os.path.join(tmpdir, "c01-%d.sock" % Rig.counter), socket.AF_UNIX
            else:
                addr, fam = ("127.0.0.1", 0), socket.AF_INET
            cls = S.PooledJSONRPCServer if kind == "pooled" else S.SimpleJSONRPCServer
            self.disp = cls(addr, logRequests=False, address_family=fam, config=self.cfg)
            self.addr = addr
        orig = self.disp._marshaled_dispatch
        captured = self.captured

        def recording(data, dispatch_method=None, path=None):
            reply = orig(data, dispatch_method, path)
            captured.append((data, reply))
            return reply
        self.disp._marshaled_dispatch = recording
        if transport in ("tcp", "unix"):
            self.thread = threading.Thread(target=self.disp.serve_forever, args=(0.01,))
            self.thread.daemon = True
            self.thread.start()

    def proxy(self, s, hist):
        cfg = impl.jsonrpclib.config.Config(version=s["cver"], use_jsonclass=s["cuj"])
        kw = dict(version=s["carg"], history=hist, config=cfg)
        if self.transport == "loop":
            return J.ServerProxy("http://localhost/", transport=impl.LoopTransport(self.disp._marshaled_dispatch), **kw)
        if self.transport == "unix":
            return J.ServerProxy("unix+http://%s" % self.addr, **kw)
        return J.ServerProxy("http://127.0.0.1:%d/" % self.disp.server_address[1], **kw)

    def close(self):
        if self.kind == "bare":
            return
        from props.c12 import run_with_watchdog
        try:
            if self.thread is not None and self.thread.is_alive():
                run_with_watchdog(self.disp.shutdown, 3)
            run_with_watchdog(self.disp.server_close, 3)
        except Exception:  # noqa: BLE001
            pass


def send_args(op):
    args = [tuplify(a) for a in op["args"]] if op.get("tup") else list(op["args"])
    kwargs = dict((k, tuplify(v)) for k, v in op["kwargs"].items()) if op.get("tup") else dict(op["kwargs"])
    return args, kwargs


def walk(obj, path):
    for s in path:
        obj = getattr(obj, s)
    return obj


def run_real(rig, s):
    """Runs the scenario on the real code.  Returns the records of the ops and the History."""
    del rig.log[:]
    del rig.captured[:]
    install(rig.disp, s["callables"], rig.log)
    hist = impl.jsonrpclib.history.History()
    proxy = rig.proxy(s, hist)
    mcfg = impl.jsonrpclib.config.Config(version=s["mver"], use_jsonclass=s["muj"])
    records = []
    try:
        for op in s["ops"]:
            l0, c0 = len(rig.log), len(rig.captured)
            h0 = (len(hist.requests), len(hist.responses))
            kind = op["kind"] if op["op"] == "odd" else op["op"]
            if kind in ("call", "notify"):
                args, kwargs = send_args(op)
                base = proxy if kind == "call" else proxy._notify

                def go(base=base, op=op, args=args, kwargs=kwargs):
                    return walk(base, op["path"])(*args, **kwargs)
                k, v = impl.outcome(go)
                rec = {"outcome": (k, v)}
            else:
                def go_batch(op=op):
                    mc = J.MultiCall(proxy, config=mcfg)
                    for j in op["jobs"]:
                        args, kwargs = send_args(j)
                        walk(mc._notify if j["notify"] else mc, j["path"])(*args, **kwargs)
                    return mc()
                k, v = impl.outcome(go_batch)
                rec = {"outcome": (k, v)}
                if k == "ok" and v is not None:
                    kl, n = impl.outcome(len, v)
                    rec["len"] = (kl, n)
                    rec["items"] = [impl.outcome(v.__getitem__, i) for i in range(n)] if kl == "ok" else []
                    rec["iter"] = impl.outcome(lambda v=v: list(v))
            rec["log"] = list(rig.log[l0:])
            rec["captured"] = list(rig.captured[c0:])
            rec["hist"] = (list(hist.requests[h0[0]:]), list(hist.responses[h0[1]:]))
            records.append(rec)
    finally:
        try:
            proxy("close")()
        except Exception:  # noqa: BLE001
            pass
    return records, (list(hist.requests), list(hist.responses))


# ------------------------------------------------------------------------------------------------
# the monitor: the property statement, on the real outputs

def expected_view(c, args, kwargs):
    """What the callable must have been called with: Python's own binding of the normalised arguments."""
    if args:
        return sc.callee_view(c["sig"], norm(list(args)))
    if kwargs:
        return sc.callee_view(c["sig"], norm(kwargs))
    return sc.callee_view(c["sig"], [])


def expected_return(c):
    return norm(c["beh"][1])


def short(v, limit=240):
    """repr for messages: long payloads abbreviated (the full input is in the replay file)."""
    r = repr(v)
    return r if len(r) <= limit else "%s…[%d chars]…%s" % (r[:limit // 2], len(r), r[-limit // 4:])


def check_one_call(entry, c, args, kwargs, where):
    _, target, name, view, _ = entry
    if name != c["name"] or target != c["target"]:
        return "%s: %s %r was invoked instead of %r" % (where, target, name, c["name"])
    exp = expected_view(c, args, kwargs)
    if not view_eq(view, exp):
        return "%s: %r invoked with %s, sent %s / %s" % (where, name, short(view), short(args), short(kwargs))
    return None


def check_value(got, c, where):
    exp = expected_return(c)
    if not strict_eq(got, exp):
        return "%s: returned %s, the callable returned %s (normalised %s)" % (where, short(got), short(c["beh"][1]), short(exp))
    return None


def monitor(s, records, hist):
    """Returns a list of (message, key)."""
    out = []
    cs = s["callables"]
    all_captured = []
    for n, (op, rec) in enumerate(zip(s["ops"], records)):
        where = "op %d (%s)" % (n, op["op"])
        all_captured.extend(rec["captured"])
        if op["op"] == "odd":
            continue
        k, v = rec["outcome"]
        # History: exactly the texts exchanged, in order (reported after the outcome of the call itself)
        req_c = [d for d, _r in rec["captured"]]
        rep_c = [r for _d, r in rec["captured"]]
        hist_msgs = []
        if len(rec["captured"]) != 1:
            hist_msgs.append(("%s: %d exchanges reached the server instead of 1" % (where, len(rec["captured"])), "exchanges"))
        if rec["hist"][0] != req_c or rec["hist"][1] != rep_c or not all(isinstance(t, str) for t in rec["hist"][0] + rec["hist"][1]):
            hist_msgs.append(("%s: History recorded %s / %s, exchanged %s / %s" % (
                where, short(rec["hist"][0]), short(rec["hist"][1]), short(req_c), short(rep_c)), "history"))
        if op["op"] in ("call", "notify"):
            c = cs[op["callee"]]
            args, kwargs = send_args(op)
            if len(rec["log"]) != 1:
                out.append(("%s: the callable was invoked %d times" % (where, len(rec["log"])), "call-count"))
            else:
                m = check_one_call(rec["log"][0], c, args, kwargs, where)
                if m:
                    out.append((m, "call-args"))
            if c["beh"][0] == "raise" and op["op"] == "call":
                if k != "err" or type(v).__name__ != "ProtocolError" or not isinstance(v.args[0], tuple) or v.args[0][0] != -32603:
                    out.append(("%s: raising callable surfaced as %s %r" % (where, k, v), "raise"))
            elif op["op"] == "notify":
                if k != "ok" or v is not None:
                    out.append(("%s: notification returned %s %r" % (where, k, v), "notify-return"))
                if rec["hist"][1] != [""]:
                    out.append(("%s: notification response recorded as %r" % (where, rec["hist"][1]), "notify-history"))
            else:
                if k != "ok":
                    out.append(("%s: raised %s(%s) instead of returning %s" % (where, type(v).__name__, short(v.args), short(expected_return(c))), "call-raised"))
                else:
                    m = check_value(v, c, where)
                    if m:
                        out.append((m, "call-value"))
        else:
            jobs = op["jobs"]
            if len(rec["log"]) != len(jobs):
                out.append(("%s: %d invocations for %d jobs" % (where, len(rec["log"]), len(jobs)), "batch-count"))
            else:
                for i, (j, e) in enumerate(zip(jobs, rec["log"])):
                    a, kw = send_args(j)
                    m = check_one_call(e, cs[j["callee"]], a, kw, "%s job %d" % (where, i))
                    if m:
                        out.append((m, "batch-args"))
                        break
            answered = [j for j in jobs if not j["notify"]]
            if k != "ok" or v is None:
                out.append(("%s: MultiCall gave %s %s" % (where, k, short(v)), "batch-outcome"))
                out.extend(hist_msgs)
                continue
            if rec["len"] != ("ok", len(answered)):
                out.append(("%s: %r results for %d non-notification jobs" % (where, rec["len"], len(answered)), "batch-len"))
                out.extend(hist_msgs)
                continue
            for i, j in enumerate(answered):
                c = cs[j["callee"]]
                ki, vi = rec["items"][i]
                if c["beh"][0] == "raise":
                    if ki != "err" or type(vi).__name__ != "ProtocolError" or vi.args[0][0] != -32603:
                        out.append(("%s: result %d of a raising callable is %s %r" % (where, i, ki, vi), "batch-raise"))
                elif ki != "ok":
                    out.append(("%s: result %d raised %s%s" % (where, i, type(vi).__name__, short(vi.args)), "batch-item-raised"))
                else:
                    m = check_value(vi, c, "%s result %d" % (where, i))
                    if m:
                        out.append((m, "batch-position"))
            if all(cs[j["callee"]]["beh"][0] != "raise" for j in answered):
                ka, va = rec["iter"]
                if ka != "ok" or not strict_eq(va, [expected_return(cs[j["callee"]]) for j in answered]):
                    out.append(("%s: iteration gave %s %s" % (where, ka, short(va)), "batch-iter"))
        out.extend(hist_msgs)
    if hist[0] != [d for d, _r in all_captured] or hist[1] != [r for _d, r in all_captured]:
        out.append(("History %s / %s differs from the exchanged texts %s" % (short(hist[0]), short(hist[1]), short(all_captured)), "history-total"))
    return out


# ------------------------------------------------------------------------------------------------
# the model side

def enc_beh(b):
    if b[0] == "ret":
        return ["ret", b[1]]
    if b[0] == "rett":
        return ["ret", tuplify(b[1])]
    cls = sc.EXC[b[1]]
    return ["raise", b[1], str(cls(b[2])), issubclass(cls, TypeError), issubclass(cls, AttributeError)]


def enc_registry(desc):
    def enc_callable(c):
        return [list(c[0]), enc_beh(c[1])]

    def enc_attr(a):
        return [None if a[0] is None else enc_callable(a[0]), [[n, enc_attr(x)] for n, x in a[1]]]
    inst = desc.get("inst")
    return pyval.enc({
        "funcs": [[n, enc_callable(c)] for n, c in desc["funcs"]],
        "inst": None if inst is None else {"dispatch": None, "attrs": [[n, enc_attr(a)] for n, a in inst["attrs"]]},
        "custom": None})


def enc_op(op):
    kind = op["kind"] if op["op"] == "odd" else op["op"]
    if kind in ("call", "notify"):
        args, kwargs = send_args(op)
        return [kind, list(op["path"]), list(args), kwargs]
    jobs = []
    for j in op["jobs"]:
        args, kwargs = send_args(j)
        jobs.append([bool(j["notify"]), list(j["path"]), list(args), kwargs])
    return ["batch", jobs]


def model_line(s):
    return "e2e L6 %s %s %s %s %s %s" % (
        sc.enc_cfg(s["cver"], s["cuj"]), pyval.enc(None if s["carg"] is None else int(round(s["carg"] * 10))),
        sc.enc_cfg(s["sver"], s["suj"]), enc_registry(registry_desc(s["callables"])), sc.enc_cfg(s["mver"], s["muj"]),
        pyval.enc([enc_op(op) for op in s["ops"]]))


_UUID = re.compile(r"^[0-9a-f]{8}-[0-9a-f]{4}-[0-9a-f]{4}-[0-9a-f]{4}-[0-9a-f]{12}$|^fresh#\d+$")


class Ids(object):
    """Generated request ids, renamed by first occurrence."""

    def __init__(self):
        self.map = {}

    def doc(self, d):
        if isinstance(d, list):
            return [self.doc(x) for x in d]
        if isinstance(d, dict) and isinstance(d.get("id"), str) and _UUID.match(d["id"]):
            d = dict(d)
            d["id"] = self.map.setdefault(d["id"], "id#%d" % len(self.map))
        return d


def canon_text_real(text, ids):
    if not isinstance(text, str):
        return "not-a-text " + type(text).__name__
    if text == "":
        return "empty"
    try:
        doc = json.loads(text)
    except ValueError:
        return "not-json " + repr(text[:60])
    return pyval.enc(sc.canon_doc(ids.doc(doc)), canon=True)


def canon_text_model(text, ids):
    if text == "":
        return "empty"
    if text.startswith("[ ") and text.endswith(" ]"):
        doc = [pyval.from_tree(pyval.parse(t)) for t in text[2:-2].split(",")]
    else:
        doc = pyval.from_tree(pyval.parse(text))
    return pyval.enc(ids.doc(doc), canon=True)


def canon_exc(val):
    name = type(val).__name__
    if name in impl.PROTO_CLASSES:
        arg = val.args[0] if len(val.args) == 1 else tuple(val.args)
        if isinstance(arg, tuple) and len(arg) >= 2:
            arg = (arg[0], sc.canon_message(arg[0], arg[1])) + tuple(arg[2:])
        return "err %s %s" % (name, pyval.enc(arg, canon=True))
    return "err " + name


def canon_outcome_real(k, v):
    if k == "ok":
        return "ok " + pyval.enc(v, canon=True)
    return canon_exc(v)


def canon_outcome_model(t):
    """A decoded outcome tuple of the driver."""
    if t[0] == "ok":
        return "ok " + pyval.enc(t[1], canon=True)
    if t[1] in impl.PROTO_CLASSES:
        return "err %s %s" % (t[1], pyval.enc(t[2], canon=True))
    return "err " + t[1]


def project_real(s, records, hist):
    desc = registry_desc(s["callables"])
    ids = Ids()
    ops = []
    for op, rec in zip(s["ops"], records):
        k, v = rec["outcome"]
        kind = op["kind"] if op["op"] == "odd" else op["op"]
        if kind == "batch" and k == "ok":
            if v is None:
                o = "ok N"
            else:
                o = "iter " + " ; ".join(canon_outcome_real(*x) for x in rec["items"])
        else:
            o = canon_outcome_real(k, v)
        ops.append((o, [sc.canon_effect_real(e, None) for e in rec["log"]]))
    del desc
    h = ([canon_text_real(t, ids) for t in hist[0]], [canon_text_real(t, ids) for t in hist[1]])
    return ops, h


def project_model(s, line):
    """Model output -> the same projection, or None when the model declines the scenario."""
    if line.startswith("err Unmodelled"):
        return None
    if not line.startswith("ok "):
        return ("bad", line)
    desc = registry_desc(s["callables"])
    tr = pyval.parse(line[3:])
    parts = tr[1]
    ids = Ids()
    ops = []
    for op, part in zip(s["ops"], parts[:-1]):
        out_t, eff_t = part[1]
        kind = op["kind"] if op["op"] == "odd" else op["op"]
        o = pyval.from_tree(out_t)
        if kind == "batch" and o[0] == "ok":
            if o[1] is None:
                oc = "ok N"
            else:
                oc = "iter " + " ; ".join(canon_outcome_model(x) for x in o[1])
        else:
            oc = canon_outcome_model(o)
        ops.append((oc, [sc.canon_effect_model(t, desc) for t in eff_t[1]]))
    hreq, hresp = pyval.from_tree(parts[-1])
    # request texts first, then responses — the same walk as on the real side
    h = ([canon_text_model(t, ids) for t in hreq], [canon_text_model(t, ids) for t in hresp])
    return ops, h


# ------------------------------------------------------------------------------------------------
# the JSON codec laws, tested against the real backend

def check_backend_laws(ctx, values, batches):
    bad = 0
    for raw in (False, True):
        with raw_backend(raw):
            bad += _check_backend_laws(ctx, values, batches)
    return bad


def _check_backend_laws(ctx, values, batches):
    jd, jl = impl.jsonrpclib.jsonrpc.jdumps, impl.jsonrpclib.jsonrpc.jloads
    bad = 0
    for v in values:
        k, t = impl.outcome(jd, v)
        if k != "ok" or not isinstance(t, str) or t == "" or not strict_eq(jl(t), norm_model(v)):
            bad += 1
            ctx.disagree({"law": "roundtrip", "value": repr(v)[:200]}, repr((k, t))[:200], "parse(render v) = normalise v", component="backend-law")
    for vs in batches:
        ts = [jd(v) for v in vs]
        body = "[ {0} ]".format(",".join(ts))
        k, r = impl.outcome(jl, body)
        if k != "ok" or not strict_eq(r, [norm_model(v) for v in vs]):
            bad += 1
            ctx.disagree({"law": "batch", "values": repr(vs)[:200]}, repr((k, r))[:200], "parse('[ a,b ]') = [normalise ..]", component="backend-law")
    return bad


def norm_model(v):
    """`PyVal.normalise` written directly (not through a JSON codec): tuples become lists."""
    if isinstance(v, (list, tuple)):
        return [norm_model(x) for x in v]
    if isinstance(v, dict):
        return dict((k, norm_model(x)) for k, x in v.items())
    return v


# ------------------------------------------------------------------------------------------------

# (server kind, transport, backend): "raw" = non-escaping JSON backend (see raw_backend)
RIGS_QUICK = [("bare", "loop", "std"), ("simple", "tcp", "std"), ("simple", "unix", "raw"), ("pooled", "tcp", "raw")]
RIGS_THOROUGH = [("bare", "loop", "std"), ("bare", "loop", "raw"), ("simple", "loop", "std"), ("pooled", "loop", "std"),
                 ("simple", "tcp", "std"), ("simple", "unix", "std"), ("pooled", "tcp", "std"), ("pooled", "unix", "std"),
                 ("simple", "tcp", "raw"), ("simple", "unix", "raw"), ("pooled", "tcp", "raw"), ("pooled", "unix", "raw")]


def scenario_key(s, rig):
    kinds = []
    for op in s["ops"]:
        if op["op"] == "batch":
            kinds.append("b" + "".join("n" if j["notify"] else "c" for j in op["jobs"]))
        elif op["op"] == "odd":
            kinds.append("odd")
        else:
            style = "p" if op["args"] else ("k" if op["kwargs"] else "0")
            c = s["callables"][op["callee"]]
            dotted = "d" if "." in c["name"] else "s"
            kinds.append(op["op"][0] + style + dotted + c["target"][0] + gen.shape(c["beh"][1] if c["beh"][0] != "raise" else "raise")[:12])
    return (rig, effective_client_version(s), s["sver"], s["cuj"], s["suj"], tuple(kinds))


def run_group(ctx, rig_spec, scenarios, tmpdir, lines, pending):
    """Runs scenarios (grouped by server configuration) on one kind of rig."""
    kind, transport, backend = rig_spec
    label = "%s/%s/%s" % rig_spec
    groups = {}
    for s in scenarios:
        groups.setdefault((s["sver"], s["suj"]), []).append(s)
    for (sver, suj), group in sorted(groups.items()):
        rig = Rig(kind, transport, sver, suj, tmpdir)
        try:
            for s in group:
                with raw_backend(backend == "raw"):
                    records, hist = run_real(rig, s)
                case = {"rig": list(rig_spec), "scenario": s}
                found = monitor(s, records, hist)
                if found:
                    # the replay is the failing call alone whenever it fails on its own
                    case, found = shrink(rig, rig_spec, s, found)
                for msg, key in found:
                    ctx.violate(case, msg, key="%s:%s" % (key, transport if transport != "loop" else "loop"))
                # the model is interpreted: the long payloads (about 100 kB a line) are run through it once per value,
                # on the first rig; on the other rigs they are judged by the monitor alone
                if not s.get("long") or (rig_spec == RIGS_QUICK[0] and s.get("long_model")):
                    lines.append(model_line(s))
                    pending.append((s, rig_spec, project_real(s, records, hist)))
                else:
                    ctx.extra["monitor_only_cases"] = ctx.extra.get("monitor_only_cases", 0) + 1
                ctx.count(case_repr={"rig": label, "versions": [effective_client_version(s), s["sver"]],
                                     "ops": [op["op"] for op in s["ops"]]},
                          nontrivial_key=scenario_key(s, label), kind="scenario/" + label)
                for op in s["ops"]:
                    if op["op"] == "batch":
                        ctx.hist["op/batch/%d" % len(op["jobs"])] += 1
                        if all(j["notify"] for j in op["jobs"]):
                            ctx.hist["op/batch/all-notifications"] += 1
                    elif op["op"] == "odd":
                        ctx.hist["op/odd/" + op["kind"]] += 1
                        if op["kind"] == "batch" and len(op["jobs"]) > 2:
                            ctx.hist["op/odd/batch-mixed-fates"] += 1
                    else:
                        ctx.hist["op/" + op["op"]] += 1
                if s.get("long"):
                    ctx.hist["long-payload/%s/%s" % (transport, s["long"])] += 1
                ctx.hist["versions/c%s-s%s" % (effective_client_version(s), s["sver"])] += 1
                ctx.hist["jsonclass/c%d-s%d" % (s["cuj"], s["suj"])] += 1
        finally:
            rig.close()


def shrink(rig, rig_spec, s, found):
    """Reduces a violating scenario to the single op (and, for a batch, the single job) that still violates."""
    case = {"rig": list(rig_spec), "scenario": s}
    m = re.match(r"op (\d+) ", found[0][0])
    if not m or len(s["ops"]) == 1 and s["ops"][0]["op"] != "batch":
        return case, found
    op = s["ops"][int(m.group(1))]
    candidates = []
    if op["op"] == "batch":
        candidates.extend(dict(s, ops=[dict(op, jobs=[j])]) for j in op["jobs"])
    if len(s["ops"]) > 1:
        candidates.append(dict(s, ops=[op]))
    for cand in candidates:
        try:
            with raw_backend(rig_spec[2] == "raw"):
                records, hist = run_real(rig, cand)
            again = monitor(cand, records, hist)
        except Exception:  # noqa: BLE001 - shrinking is best effort
            continue
        if again:
            return {"rig": list(rig_spec), "scenario": cand}, again
    return case, found


def hand_written():
    """The cases of the property text, one scenario each (all four version pairs are added by the caller)."""
    cs = [
        {"name": "add", "target": "func", "sig": [["a", "b"], 0, False, False], "beh": ["ret", 15]},
        {"name": "ping", "target": "func", "sig": [[], 0, False, False], "beh": ["ret", True]},
        {"name": "ns.sub.echo", "target": "attr", "sig": [[], 0, True, True], "beh": ["rett", [1, [2, {"k": [3]}]]]},
        {"name": "дот.ted", "target": "func", "sig": [[], 0, False, True], "beh": ["ret", -0.0]},
    ]
    falsy = [{"name": "f%d" % i, "target": "func", "sig": [[], 0, True, True], "beh": ["ret", v]} for i, v in enumerate(FALSY)]
    ops = [
        {"op": "call", "callee": 0, "path": ["add"], "args": [5, 10], "kwargs": {}, "tup": False},
        {"op": "call", "callee": 0, "path": ["add"], "args": [], "kwargs": {"a": 2 ** 53, "b": 1e-320}, "tup": False},
        {"op": "call", "callee": 1, "path": ["ping"], "args": [], "kwargs": {}, "tup": False},
        {"op": "call", "callee": 2, "path": ["ns", "sub", "echo"], "args": ["é\u0000\U0001f600", [[], {}]], "kwargs": {}, "tup": True},
        {"op": "notify", "callee": 2, "path": ["ns", "sub", "echo"], "args": [], "kwargs": {"not an identifier": [0]}, "tup": False},
        {"op": "call", "callee": 3, "path": ["дот", "ted"], "args": [], "kwargs": {"é": "é"}, "tup": False},
        {"op": "batch", "jobs": [
            {"notify": False, "callee": 0, "path": ["add"], "args": [1, 2], "kwargs": {}, "tup": False},
            {"notify": True, "callee": 1, "path": ["ping"], "args": [], "kwargs": {}, "tup": False},
            {"notify": False, "callee": 2, "path": ["ns", "sub", "echo"], "args": [], "kwargs": {}, "tup": False},
            {"notify": False, "callee": 3, "path": ["дот.ted"], "args": [], "kwargs": {"k": None}, "tup": False}]},
        {"op": "batch", "jobs": [{"notify": True, "callee": 1, "path": ["ping"], "args": [], "kwargs": {}, "tup": False}]},
    ]
    fops = [{"op": "call", "callee": i, "path": ["f%d" % i], "args": [], "kwargs": {}, "tup": False} for i in range(len(FALSY))]
    fops.append({"op": "batch", "jobs": [{"notify": False, "callee": i, "path": ["f%d" % i], "args": [0], "kwargs": {}, "tup": False}
                                         for i in range(len(FALSY))]})
    out = []
    for cver in (1.0, 2.0):
        for sver in (1.0, 2.0):
            for uj in (False, True):
                base = {"cver": cver, "carg": None, "cuj": uj, "sver": sver, "suj": uj, "mver": cver, "muj": uj}
                out.append(dict(base, callables=cs, ops=ops))
                out.append(dict(base, callables=falsy, ops=fops))
    return out


def _mix(n):
    """A deterministic text of `n` characters whose UTF-8 encodings are 1, 2, 3 and 4 bytes long, in an order that
    puts every residue of a read boundary inside a multi-byte sequence."""
    alphabet = ["a", "é", "€", "\U0001f600", "z", "日", "ü", "本", " ", "\U00010348", "ж", "語", "\\", "\""]
    out, k = [], 0
    for i in range(n):
        k = (k * 7 + i * 3 + 1) % 101
        out.append(alphabet[k % len(alphabet)])
    return "".join(out)


# Payloads longer than one read of the HTTP response (xmlrpc.client.Transport.parse_response reads 1024 bytes at a
# time) and than a socket buffer line: non-ASCII text of every UTF-8 width, unaligned, plus a long ASCII control.
LONG_VALUES = [
    ("euro", "€" * 1500),
    ("cjk", "日本語" * 600),
    ("mix", _mix(3000)),
    ("astral", "x" + "\U0001f600" * 700),
    ("latin", "é" * 1501),
    ("ascii", "plain ASCII " * 300),
    ("nested", ["日本語" * 400, {"kéy": "ü" * 999, "€": ["€" * 400, 1.5, None]}]),
]


def long_payloads():
    """
    Calls whose argument AND result are long texts (single call in positional and keyword style, notification, and
    every MultiCall position), always part of the quick tier on every rig: over a real socket the reply spans several
    reads of the HTTP body, so any per-chunk treatment of the bytes (decoding, length accounting) shows.
    """
    out = []
    small = {"name": "tiny", "target": "func", "sig": [[], 0, True, True], "beh": ["ret", "é"]}
    for n, (label, v) in enumerate(LONG_VALUES):
        other = LONG_VALUES[(n + 1) % len(LONG_VALUES)][1]
        cs = [{"name": "echo_" + label, "target": "func", "sig": [[], 0, True, True], "beh": ["ret", v]},
              {"name": "ns.other", "target": "attr", "sig": [["a"], 1, False, True], "beh": ["ret", other]},
              small]

        def job(callee, notify, args, kwargs):
            return {"notify": notify, "callee": callee, "path": cs[callee]["name"].split("."), "args": args,
                    "kwargs": kwargs, "tup": False}
        ops = [
            {"op": "call", "callee": 0, "path": ["echo_" + label], "args": [v], "kwargs": {}, "tup": False},
            {"op": "call", "callee": 1, "path": ["ns", "other"], "args": [], "kwargs": {"a": other, "ключ": v}, "tup": False},
            {"op": "notify", "callee": 0, "path": ["echo_" + label], "args": [v, v], "kwargs": {}, "tup": False},
            {"op": "batch", "jobs": [job(2, False, [], {}), job(0, False, [v], {}), job(1, True, [other], {}),
                                     job(1, False, [], {"a": v}), job(2, False, [0], {}), job(0, False, [], {"k": v})]},
            {"op": "batch", "jobs": [job(0, False, [v], {})]},
            {"op": "call", "callee": 2, "path": ["tiny"], "args": [], "kwargs": {}, "tup": False},
        ]
        for k, (cver, sver) in enumerate(((2.0, 2.0), (1.0, 1.0)) if n % 2 == 0 else ((1.0, 2.0), (2.0, 1.0))):
            out.append({"cver": cver, "carg": None, "cuj": False, "sver": sver, "suj": False, "mver": cver, "muj": False,
                        "callables": cs, "ops": ops, "long": label, "long_model": k == 0})
    return out


def run(ctx):
    ctx.rule = ("scenarios = (client version argument x client/server configuration version x use_jsonclass flags, a "
                "registry of 1-4 instrumented callables (functions and instance attributes, identifier / dotted / Unicode "
                "names, variadic and fixed signatures, edge-pool and falsy return values, tuples, raising bodies), 1-4 ops "
                "(call / notification / MultiCall batch of 1-6 jobs / out-of-domain op) with positional, keyword or no "
                "arguments), each run on a real ServerProxy with a History against the listed rig; distinct_nontrivial = "
                "distinct (rig, version pair, translation flags, per-op style/target/dotted/return shape)")
    tmpdir = tempfile.mkdtemp(prefix="verif-c01-")
    old_timeout = socket.getdefaulttimeout()
    socket.setdefaulttimeout(WATCHDOG)
    lines, pending = [], []
    try:
        rigs = RIGS_THOROUGH if ctx.thorough or ctx.searching else RIGS_QUICK
        hw = hand_written()
        for n, rig_spec in enumerate(rigs):
            rng = ctx.derive_rng("rig/%s/%s/%s" % rig_spec)
            if rig_spec == ("bare", "loop", "std"):
                count = ctx.budget(900, 10000)
            elif rig_spec[1] == "loop":
                count = ctx.budget(80, 600)
            else:
                count = ctx.budget(80, 800)
            scenarios = [gen_scenario(rng) for _ in range(count)]
            # every rig sees the hand-written cases and the long payloads; non-ASCII payloads over real sockets (replies
            # spanning several reads) are what exposes codec / framing changes
            scenarios = hw + long_payloads() + scenarios
            run_group(ctx, rig_spec, scenarios, tmpdir, lines, pending)
        # the codec laws on everything that was generated
        values, batches = [], []
        for s, _rig, _p in pending[: ctx.budget(600, 4000)]:
            for c in s["callables"]:
                if c["beh"][0] != "raise":
                    values.append(tuplify(c["beh"][1]) if c["beh"][0] == "rett" else c["beh"][1])
            for op in s["ops"]:
                for j in (op.get("jobs") or [op]):
                    a, kw = send_args(j)
                    values.append(tuple(a))
                    values.append(kw)
                if op["op"] == "batch":
                    batches.append([{"jsonrpc": "2.0", "method": ".".join(j["path"]), "params": send_args(j)[0] or send_args(j)[1], "id": "x"}
                                    for j in op["jobs"]])
        law_failures = check_backend_laws(ctx, values, batches)
        ctx.extra["backend_law_values"] = len(values)
        ctx.extra["backend_law_batches"] = len(batches)
        ctx.extra["backend_law_failures"] = law_failures
    finally:
        socket.setdefaulttimeout(old_timeout)
        shutil.rmtree(tmpdir, ignore_errors=True)

    # the version gate the theorems take as hypothesis `Gate20` (Lean cannot evaluate float("2.0") in the kernel)
    gate = ctx.lean(["proxy " + pyval.enc({"jsonrpc": "2.0", "id": "x", "result": 0})])
    if gate != ["ok I0"]:
        ctx.disagree("Gate20", "ok I0", gate[0], component="gate")

    outs = ctx.lean(lines)
    unmodelled = 0
    for (s, rig_spec, real), line in zip(pending, outs):
        model = project_model(s, line)
        if model is None:
            unmodelled += 1
            continue
        if model != real:
            detail_real, detail_model = real, model
            if isinstance(model, tuple) and len(model) == 2 and isinstance(model[0], list):
                for i, (a, b) in enumerate(zip(real[0], model[0])):
                    if a != b:
                        detail_real, detail_model = {"op": i, "real": a}, {"op": i, "model": b}
                        break
                else:
                    detail_real, detail_model = {"history": real[1]}, {"history": model[1]}
            ctx.disagree({"rig": list(rig_spec), "scenario": s}, detail_real, detail_model, component="e2e")
    ctx.traces_validated += len(lines) - unmodelled
    ctx.extra["unmodelled_cases"] = unmodelled
    ctx.assumptions.append(
        "JSON codec laws Backend.roundtrip / Backend.batch (hypotheses of every C01 theorem) tested against "
        "jsonrpclib.jdumps/jloads (CPython json, escaping and non-escaping) on %d generated values and %d MultiCall bodies: %d failures"
        % (ctx.extra["backend_law_values"], ctx.extra["backend_law_batches"], ctx.extra["backend_law_failures"]))
    ctx.assumptions.append(
        "Gate20 (check_for_errors lets a reply with jsonrpc = \"2.0\" through: float(\"2.0\") > 2.0 is false) is a hypothesis "
        "of the theorems for 2.0-form replies; validated by executing the model's `proxy` component on every run")
    ctx.assumptions.append(
        "uuid4 ids are non-empty strings (hypothesis fresh ≠ \"\" of the theorems); HTTP transport = identity on texts "
        "(C17/C19), validated here over real TCP and Unix sockets")


def replay(payload):
    case = payload.get("case") or {}
    s = case.get("scenario")
    rig_spec = tuple(case.get("rig") or ("bare", "loop", "std"))
    if len(rig_spec) == 2:
        rig_spec = rig_spec + ("std",)
    print("replaying scenario on rig %s/%s/%s: %s" % (rig_spec + (json.dumps(s)[:1500],)))
    tmpdir = tempfile.mkdtemp(prefix="verif-c01-")
    socket.setdefaulttimeout(WATCHDOG)
    try:
        rig = Rig(rig_spec[0], rig_spec[1], s["sver"], s["suj"], tmpdir)
        try:
            with raw_backend(rig_spec[2] == "raw"):
                records, hist = run_real(rig, s)
        finally:
            rig.close()
    finally:
        shutil.rmtree(tmpdir, ignore_errors=True)
    for op, rec in zip(s["ops"], records):
        print(" op %s -> %s %r ; calls %r" % (op["op"], rec["outcome"][0], rec["outcome"][1], [(e[2], e[3]) for e in rec["log"]]))
    msgs = monitor(s, records, hist)
    for m, _k in msgs:
        print("VIOLATION reproduced:", m[:600])
    if not msgs:
        print("no violation")
    return 1 if msgs else 0
