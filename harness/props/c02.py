"""
C02 — Every request body gets a well-formed reply and the dispatcher never raises.

Model   : lean/JRV/Model/Server.lean (marshaledDispatch over every parse outcome), lean/JRV/Model/Callable.lean
Theorems: lean/JRV/Properties/C02.lean
Tie     : extracted Fault sites / guards (tools/extractors/server.py) + differential correspondence of the reply
          *structure* (raise / empty / single / array, member names, error typing) between the model and the real
          `_marshaled_dispatch`, on the parse outcome the real `jsonrpclib.loads` produced.
Monitor : a JSON-RPC reply validator written from the property text + "did it raise" + do_POST status/body.
"""
import servercases as sc

REQUIRED_THEOREMS = [
    "C02_no_raise", "C02_wellformed", "C02_form_follows_request", "C02_full_pool_raises",
    "C02_gen_faultSites", "C02_gen_loadsGuarded", "C02_gen_jdumpsGuarded",
]

MONITORS = [("reply-validator", sc.monitor_c02), ("do_POST", sc.monitor_post)]

RULE = ("request bodies: member alphabet (jsonrpc/id/method/params absent or of every JSON type) against seven registries, "
        "batches (sampled from all orders up to length 3, random up to 6), truncations/corruptions of valid texts, noise, "
        "descriptor-bearing bodies with class translation on, notification pools, random registries; both server versions; "
        "thorough: 9^4 member product x 2 versions, every truncation and 3 corruptions per position, all batches <= 3 over 7 "
        "entry kinds; distinct_nontrivial = distinct (generator, version, translation, pool, reply outcome class, parse outcome)")


def run(ctx):
    em = {"single": 1, "batch": 0.6, "damaged": 1.5, "descriptor": 1.2, "noise": 1.5, "pool": 0.4, "randreg": 0.5, "post": 0.25,
          "exhaustive_single": True, "exhaustive_damage": True, "exhaustive_batch": True}
    sc.standard_run(ctx, "C02", MONITORS, sc.proj_shape, em, RULE)


def search(ctx):
    """Search stage: one pass with the thorough budgets and the exhaustive enumerations (ctx.searching is set)."""
    run(ctx)


def replay(payload):
    return sc.replay_case(payload, MONITORS)
