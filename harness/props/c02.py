"""
C02 — Every request body gets a well-formed reply and the dispatcher never raises.

Model   : lean/JRV/Model/Server.lean (marshaledDispatch over every parse outcome), lean/JRV/Model/Callable.lean
Theorems: lean/JRV/Properties/C02.lean (+ C02Gen.lean: companions of the extracted facts)
Tie     : extracted Fault sites / guards (tools/extractors/server.py) + differential correspondence of the reply
          *structure* (raise / empty / single / array, member names, error typing) between the model and the real
          `_marshaled_dispatch`, on the parse outcome the real `jsonrpclib.loads` produced.
Monitor : a JSON-RPC reply validator written from the property text + "did it raise" + do_POST status/body.
"""
import servercases as sc

REQUIRED_THEOREMS = [
    "C02_no_raise", "C02_wellformed", "C02_sent_serialisable", "C02_form_follows_request", "C02_full_pool_raises", "C02_replaced_id",
    # companions of the extracted facts: lean/JRV/Properties/C02Gen.lean (built and audited separately)
    "C02_gen_faultSites", "C02_gen_loadsGuarded", "C02_gen_jdumpsGuarded", "C02_gen_safeJdumpsGuarded", "C02_gen_safeJdumpsIdProbe",
    "C02_gen_handlersOnlyReport",
]

MONITORS = [("reply-validator", sc.monitor_c02), ("do_POST", sc.monitor_post)]

RULE = ("request bodies: member alphabet (jsonrpc/id/method/params absent or of every JSON type) against seven registries, "
        "batches (sampled from all orders up to length 3, random up to 6), truncations/corruptions of valid texts, noise, "
        "descriptor-bearing bodies with class translation on, notification pools, random registries (every ordinary builtin "
        "exception class with no/many/non-JSON arguments and texts up to 5000 characters, raised at frame depth 0/1/2/3, "
        "builtins/partials/callable objects/decorated functions, attributes bound to None), unregistered variants of "
        "registered names, batches of 64/257/1000 entries, escaped lone surrogates in ids/params/method names (also over "
        "do_POST), results the JSON library rejects; values the class translator builds from ~50 builtin / standard-library "
        "types (bytes, bytearray, complex, sets, tuples, range, Decimal, Fraction, date/time types, UUID, deque, an integer "
        "beyond the int/str limit, ...) as id / argument / params / method / jsonrpc / extra member / batch entry / whole body "
        "through every response path (class:translated/...), ids that are arrays / objects (class:structid/...), a sample of the "
        "RFC 8259 productions of harness/servercases_ext.py (class:malformed/..., class:wellformed/...) with the text-layer "
        "correspondence (model verdict = real parser = RFC recogniser on every body); "
        "numbers overflowing a double are run but not judged; both server versions; "
        "thorough: 9^4 member product x 2 versions, every truncation and 3 corruptions per position, all batches <= 3 over 7 "
        "entry kinds; distinct_nontrivial = distinct (generator, version, translation, pool, reply outcome class, parse outcome)")


def run(ctx):
    em = {"names": 0.6, "longbody": 1.0, "translated": 1, "structid": 0.5, "malformed": 0.15, "textlayer": True, "single": 1, "batch": 0.6, "damaged": 1.5, "descriptor": 1.2, "noise": 1.5, "pool": 0.4, "randreg": 0.5, "post": 0.25,
          "exhaustive_single": True, "exhaustive_damage": True, "exhaustive_batch": True}
    sc.standard_run(ctx, "C02", MONITORS, sc.proj_shape, em, RULE)


def search(ctx):
    """Search stage: one pass with the thorough budgets and the exhaustive enumerations (ctx.searching is set)."""
    run(ctx)


def replay(payload):
    return sc.replay_case(payload, MONITORS)
