"""
C03 — Responses echo the request id; batches answer one-to-one and in order.

Model   : lean/JRV/Model/Server.lean (batchLoop, singleDispatch)     Theorems: lean/JRV/Properties/C03.lean
Tie     : extracted facts (the two `except Exception` faults carry the request id) + correspondence of the id
          sequence of the reply (empty / single / array, ids in order) between model and real dispatcher.
Monitor : entry-by-entry id echo and response count, written from the property text (harness/servercases.py
          expect_entry / monitor_c03); no reply at all (the dispatcher raised) for entries that must be answered is a
          violation of "exactly one response per non-notification entry".
"""
import servercases as sc

REQUIRED_THEOREMS = [
    "C03_id_echo",
    "C03_answer_id",
    "C03_unusable_id_never_sent",
    "C03_answered_iff",
    "C03_answer_none_iff",
    "C03_batch_order",
    "C03_one_per_entry",
    "C03_empty_body",
    "C03_never_empty_array",
    "C03_single",
    # companions of the extracted facts: lean/JRV/Properties/C03Gen.lean (built and audited separately)
    "C03_gen_exceptFaultsCarryId",
    "C03_gen_notifIds",
    "C03_gen_batchLoopOverRequest",
    "C03_gen_safeJdumpsGuarded",
    "C03_gen_safeJdumpsIdProbe",
]

MONITORS = [("id-echo", sc.monitor_c03)]

RULE = ("ids over absent/null/''/0/negative/fractional/strings/booleans/arrays/objects; batches of calls, notifications, "
        "methods / dispatch functions raising an exception that is not an instance of Exception (class:baseexc/…: SystemExit, "
        "KeyboardInterrupt, GeneratorExit, …, as calls with an id — alone and at batch positions — and as notifications), "
        "invalid entries, failing calls, unknown methods, bad arguments in sampled orders up to length 3 (thorough: all 399 "
        "orders x 2 versions x 2 registries) and random up to 6; default, instance and custom dispatchers; callables that "
        "return, raise or return a value whose conversion fails or which the JSON library rejects ({(1,2):3}, a set, "
        "10**5000, an instance — alone and next to serialisable results in a batch), ids without JSON value (beans), "
        "ids with escaped lone surrogates, batches of 64/120/257/1000 entries; 17 structured ids (empty / nested arrays and "
        "objects, holding null / false / 0) x 15 response paths x single / every batch position x both forms and versions, with "
        "and without a pool (class:structid/...); ids the class translator builds from builtin / standard-library types "
        "(class:translated/...); a dispatcher that raises instead of replying is a violation (no response for the entries to "
        "answer); distinct_nontrivial as for C02")


def run(ctx):
    em = {"names": 0.6, "longbody": 0.3, "translated": 0.5, "structid": 1, "malformed": 0.05, "single": 1, "batch": 2.5, "damaged": 0.2, "descriptor": 0.8, "noise": 0.3, "pool": 0.6, "randreg": 0.4, "post": 0.02,
          "exhaustive_batch": True, "baseexc": 0.5, "baseexc_calls": 1.0}
    sc.standard_run(ctx, "C03", MONITORS, sc.proj_ids, em, RULE)


def search(ctx):
    """Search stage: one pass with the thorough budgets and the exhaustive enumerations (ctx.searching is set)."""
    run(ctx)


def replay(payload):
    return sc.replay_case(payload, MONITORS)
