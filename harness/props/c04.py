"""
C04 — Notifications are executed exactly once and never answered (server side: inline and enqueue parts).

Model   : lean/JRV/Model/Server.lean (isNotification, singleDispatch, effect log)   Theorems: lean/JRV/Properties/C04.lean
Tie     : extracted notification-id tuple + correspondence of (number of response objects, effect log: calls made
          inline in order with the arguments the callee saw, tasks handed to the pool) between model and real code.
Monitor : notifications never answered; per-callable invocation counters == 1 (0 when the method is unknown or
          the arguments do not bind), read after the real ThreadPool has been drained.  Whether a body holds a well-formed
          notification is not for the parser under test to say: when the library answers a parse failure, the body is read
          by the harness (RFC 8259 recogniser + CPython's json.loads, servercases_ws.reread) and judged all the same.
Text    : the requests of the run wrapped in insignificant white space (harness/servercases_ws.py, ws/…): same monitor +
          "handled exactly as the bare request"; theorem C04_ws_wrapped_body (lean/JRV/Lemmas/JsonTextWs.lean), facts
          stdlibLoadsPlain / loadsParsesWholeBody, text-layer correspondence (component jsontext).
Stage 2 : the pooled path under the deterministic scheduler (harness/poolpaths.py): the real dispatcher with a real
          ThreadPool(max 1..3, min 0..max) as notification pool, 1-2 managed request threads calling `_marshaled_dispatch`
          (notifications alone and in batches, all id shapes, methods that return / raise / do not exist / get bad
          arguments / block on a gate), every interleaving of request threads and pool workers being eligible (random,
          PCT, bounded-preemption DFS in the thorough tier).  Monitor from the property text: no response object for a
          notification, every notification's callable has run exactly once when the pool is drained (zero for unknown
          methods / unbindable arguments), never twice, none lost, no deadlock.
The composition with the thread-pool model is `C04_once_pooled` / `C04_pooled_eventually_runs` (C04.lean), instantiating
C09's theorems (`C09_at_most_once`, `C09_exec_count_phase`, `C09_eventually_begins`) on the task the enqueue creates.
"""
import poolpaths as pp
import servercases as sc

REQUIRED_THEOREMS = [
    "C04_never_answered",
    "C04_never_answered_alone",
    "C04_never_answered_in_batch",
    "C04_batch_effects",
    "C04_once_inline",
    "C04_once_inline_instance",
    "C04_zero_when_unknown",
    "C04_once_custom",
    "C04_once_pooled_enqueue",
    "C04_pool_only_for_notifications",
    "C04_task_runs_callable_once",
    "C04_task_runs_custom_once",
    "C04_once_pooled",
    "C04_once_pooled_custom",
    "C04_pooled_eventually_runs",
    "C04_ws_wrapped_body",
    "C09_at_most_once",
    "C09_exec_count_phase",
    "C09_eventually_begins",
    "C04_gen_notifIds",
    "C04_gen_exceptPathSilencesNotification",
    "C04_gen_poolRetireRule",
    "C04_gen_poolGrowthRule",
    "C04_gen_poolPendingStores",
    "C04_gen_poolUnlockedAccesses",
    "C04_gen_stdlibLoadsPlain",
    "C04_gen_loadsParsesWholeBody",
    "C04_base_exception_contained",
    "C04_base_exception_notification",
    "C04_base_exception_dispatch_fn",
    "C04_base_exception_instance_dispatch",
    "C04_gen_dispatchCallCatchAll",
    "C04_gen_syncCallCatchAll",
    "C04_gen_syncCallHandlerClasses",
]

MONITORS = [("notification", sc.monitor_c04)]

RULE = ("notification shapes (2.0 without id, id null, id '') alone and at sampled batch positions, methods that return, "
        "raise (ordinary exceptions, and — class:baseexc/<path>/<flavour>/<shape> — every flavour of exception that is not an instance of "
        "Exception: SystemExit from sys.exit(), KeyboardInterrupt, GeneratorExit, CancelledError, BaseException, user subclasses, at "
        "frame depth 1-3, from registered functions, instance attributes, partials / callable objects / decorated functions, the "
        "instance's _dispatch and custom dispatch functions), do not exist, get bad arguments; default, instance and custom dispatchers; no pool / real ThreadPool behind "
        "a recording proxy (drained before the counters are read) / full pool; every request of the run that is a JSON text — the three "
        "notification shapes x the four method outcomes and two batches systematically, a seeded share of the rest (five times as many, at most all, in the "
        "thorough tier) — again wrapped in insignificant white space (SP, TAB, LF, CR, CRLF, mixed runs: before, after, both sides, between the "
        "tokens, everywhere; class:ws/<where>/<characters>), over _marshaled_dispatch and do_POST, judged by the same monitor (what the "
        "body is, is read by the harness itself when the library answers a parse failure) and compared with the bare request (same "
        "reply, same invocations); every body also judged by the Lean recogniser JRV.Model.JsonText against the real jloads/loads; "
        "distinct_nontrivial as for C02")


def run(ctx):
    em = {"names": 1.0, "longbody": 0.3, "single": 0.8, "batch": 2.0, "damaged": 0.1, "descriptor": 0.4, "noise": 0.2, "pool": 3.0, "randreg": 0.6, "post": 0.02,
          "exhaustive_batch": True, "ws": 0.2, "ws_focus": "notif", "textlayer": True, "baseexc": 1.0}
    sc.standard_run(ctx, "C04", MONITORS, sc.proj_notif, em, RULE)
    pooled_stage(ctx)


def pooled_stage(ctx):
    """Second stage: the pooled path on the real ThreadPool under harness/sched.py (budget: ~7 s quick)."""
    pp.explore(ctx, "C04", "pooled-notifications", pp.gen_notif_program, pp.small_notif_programs, 650, 10000, 300)
    ctx.rule += ("; stage 2: random request-thread programs (1-2 threads, notifications of every id shape alone and in batches, "
                 "returning / raising / unknown / unbindable / gate-blocked methods, mixed with calls) x notification pools "
                 "max 1..3, min 0..max x schedules (uniform, sticky, PCT depth 1-3; thorough: bounded-preemption DFS over tiny "
                 "programs) on the REAL dispatcher + ThreadPool under harness/sched.py, monitored at the drain")
    ctx.assumptions.append("C04 stage 2: harness/sched.py shims of threading.Event/RLock/Lock/Thread and queue.Queue stand for "
                           "CPython's; time-outs expire only at quiescence; no lockstep with the Lean pool model in this stage "
                           "(that correspondence is C09-C11's, on the same ThreadPool code)")


def search(ctx):
    """Search stage: one pass with the thorough budgets and the exhaustive enumerations (ctx.searching is set)."""
    run(ctx)


def replay(payload):
    if (payload.get("case") or {}).get("stage") in pp.RUNNERS:
        return pp.replay(payload, "C04")
    return sc.replay_case(payload, MONITORS)
