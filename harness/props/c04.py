"""
C04 — Notifications are executed exactly once and never answered (server side: inline and enqueue parts).

Model   : lean/JRV/Model/Server.lean (isNotification, singleDispatch, effect log)   Theorems: lean/JRV/Properties/C04.lean
Tie     : extracted notification-id tuple + correspondence of (number of response objects, effect log: calls made
          inline in order with the arguments the callee saw, tasks handed to the pool) between model and real code.
Monitor : notifications never answered; per-callable invocation counters == 1 (0 when the method is unknown or
          the arguments do not bind), read after the real ThreadPool has been drained.
The composition with the thread-pool model (every enqueued task is executed exactly once) is C09's part.
"""
import servercases as sc

REQUIRED_THEOREMS = [
    "C04_never_answered",
    "C04_never_answered_alone",
    "C04_never_answered_in_batch",
    "C04_batch_effects",
    "C04_once_inline",
    "C04_once_inline_instance",
    "C04_zero_when_unknown",
    "C04_once_custom",
    "C04_once_pooled_enqueue",
    "C04_pool_only_for_notifications",
    "C04_task_runs_callable_once",
    "C04_task_runs_custom_once",
    "C04_gen_notifIds",
    "C04_gen_exceptPathSilencesNotification",
]

MONITORS = [("notification", sc.monitor_c04)]

RULE = ("notification shapes (2.0 without id, id null, id '') alone and at sampled batch positions, methods that return, "
        "raise, do not exist, get bad arguments; default, instance and custom dispatchers; no pool / real ThreadPool behind "
        "a recording proxy (drained before the counters are read) / full pool; distinct_nontrivial as for C02")


def run(ctx):
    em = {"single": 0.8, "batch": 2.0, "damaged": 0.1, "descriptor": 0.4, "noise": 0.2, "pool": 3.0, "randreg": 0.6, "post": 0.02,
          "exhaustive_batch": True}
    sc.standard_run(ctx, "C04", MONITORS, sc.proj_notif, em, RULE)


def search(ctx):
    """Search stage: one pass with the thorough budgets and the exhaustive enumerations (ctx.searching is set)."""
    run(ctx)


def replay(payload):
    return sc.replay_case(payload, MONITORS)
