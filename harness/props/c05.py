"""
C05 — Failures get the standard error codes and rejected requests run nothing.

Model   : lean/JRV/Model/Server.lean (+ Callable.lean: bind, resolveDotted)    Theorems: lean/JRV/Properties/C05.lean
Tie     : extracted Fault(<code>) sites, `tb_next` test, resolve_dotted_attribute(..., True) (tools/extractors/server.py);
          correspondence of (code, canonical message) of every response and of the effect log; separate
          differential tests of `bind` against real generated `def`s and of `resolveDotted` against the real
          `xmlrpc.server.resolve_dotted_attribute`.
Monitor : code table + "-32603 message names class and text" + invocation counters + the exception a real
          ServerProxy raises (ProtocolError carrying the code), all from the property text.  "Malformed" is decided by an
          RFC 8259 recogniser of the harness (servercases_ext.rfc8259_accepts), not by the parser under test.
Text    : lean/JRV/Model/JsonText.lean (RFC 8259 recogniser, driver component `jsontext`), theorems C05_text_*,
          C05_malformed_text; facts stdlibLoadsPlain / loadsEmptyIsNone / loadsParsesWholeBody (tools/extractors/textlayer.py).
          White space around the value and text after it: harness/servercases_ws.py (ws/…, garbage/…), theorems C05_text_ws_wrap,
          C05_text_trailing_garbage (lean/JRV/Lemmas/JsonTextWs.lean, JsonTextGarbage.lean).
Bytes   : harness/bytecases.py — bodies as bytes (BOM prefixes, UTF-16/32, invalid / overlong UTF-8, surrogates, NUL, latin-1) through
          do_POST (fake connection and real TCP / Unix sockets) and the CGI handler (bytes handed straight to _marshaled_dispatch are
          outside the domain — "data: A JSON request string" — run, not judged: out-of-domain/direct-bytes); model
          lean/JRV/Model/ByteBody.lean (driver component `bytebody`), theorems C05_text_first_char, C05_body_*; fact fromBytesCodec
          (tools/extractors/bytelayer.py).
"""
import itertools
import json
import xmlrpc.server

import bytecases
import gen
import impl
import pyval
import servercases as sc

REQUIRED_THEOREMS = [
    "C05_parse",
    "C05_text_string_no_raw_control",
    "C05_text_control_after_plain",
    "C05_text_productions",
    "C05_malformed_text",
    "C05_empty_body",
    "C05_text_empty_malformed",
    "C05_text_ws_wrap",
    "C05_text_trailing_garbage",
    "C05_text_first_char",
    "C05_body_bom_malformed",
    "C05_body_malformed",
    "C05_body_undecodable",
    "C05_invalid",
    "C05_invalid_toplevel",
    "C05_fault_answer",
    "C05_raise_answer",
    "C05_unknown",
    "C05_private_segments",
    "C05_private",
    "C05_none_attribute",
    "C05_noncallable_attribute",
    "C05_instance_dispatch",
    "C05_params",
    "C05_frameless_typeerror",
    "C05_params_iff",
    "C05_params_iff_framed",
    "C05_params_instance",
    "C05_internal",
    "C05_internal_instance",
    "C05_internal_custom",
    "C05_codes_predefined",
    "C05_client",
    "C05_client_v1",
    # companions of the extracted facts: lean/JRV/Properties/C05Gen.lean (built and audited separately)
    "C05_gen_faultSites",
    "C05_gen_dispatchHandlers",
    "C05_gen_tbNextTest",
    "C05_gen_dottedAllowed",
    "C05_gen_loadsGuarded",
    "C05_gen_handlersOnlyReport",
    "C05_gen_methodUnmodified",
    "C05_gen_stdlibLoadsPlain",
    "C05_gen_emptyBodyRejectedInParseTry",
    "C05_gen_loadsParsesWholeBody",
    "C05_gen_fromBytesCodec",
]

MONITORS = [("codes", sc.monitor_c05)]

RULE = ("as C02 with emphasis on method names against registries of functions and instances with public/private/nested "
        "attributes (also bound to None / not callable), unregistered variants of registered names (padded, case-changed, "
        "NUL, NFKC look-alikes), argument lists/maps of every arity against 11 fixed and random signatures, every ordinary "
        "builtin exception class (+3 user classes) built with no / one / many / non-JSON arguments and texts of 0..5000 "
        "characters with braces and percent signs, raised at frame depth 0 (registered builtins, partials) / 1 (the def's own "
        "frame: raise, \"x\"+5, len(5), a nested mis-call) / 2 / 3 and behind a decorator; plus bind() against real "
        "defs, resolveDotted against xmlrpc.server.resolve_dotted_attribute, and the exception raised by a real ServerProxy "
        "looped onto the dispatcher for each of the five codes; malformed bodies: every production of RFC 8259 that the "
        "standard parser enforces (raw control characters U+0000-U+001F in strings, unknown / short / non-hex escapes, leading "
        "zeros, '+', missing digits, other radices, non-ASCII digits, other spellings of the literals, other string syntaxes, "
        "trailing / leading / doubled / missing separators, unquoted / non-string names, comments, unbalanced brackets, white "
        "space other than SP TAB LF CR, BOM, trailing text, blank bodies) applied at every site of 8 + 6 + 5 + 3 request "
        "templates, next to the closest texts the grammar allows (quick: every production at one site + a 35 % sample; "
        "thorough: all x 2 versions; class:malformed/<production>, class:wellformed/<production>); every body of the run is "
        "judged by the RFC recogniser of the harness (monitor) and by the Lean recogniser JRV.Model.JsonText, compared with "
        "the real jloads/loads (textlayer/...); a seeded share of the well-formed requests of the run (five times the share in the thorough tier) again "
        "wrapped in insignificant white space (class:ws/<where>/<characters>: must be handled exactly as the bare request) and again "
        "followed / preceded by text that is not white space (class:garbage/<where>/<what>, 32 kinds: words, second values, brackets, "
        "comments, NUL, BOM, Unicode spaces: -32700, nothing invoked)")


def bind_differential(ctx):
    rng = ctx.derive_rng("bind")
    sigs = list(sc.SIGS) + [sc.random_sig(rng) for _ in range(ctx.budget(40, 600))]
    params = [p for p in sc.PARAMS if p != "absent"] + [{"a": 1, "b": 2, "c": 3, "d": 4}, [1, 2, 3, 4], {"x": 1, "y": 2}, {"y": 0}]
    lines, expect = [], []
    for s, p in itertools.product(sigs, params):
        lines.append("bind %s %s" % (sc.enc_sig(s), sc.enc(p)))
        expect.append("T" if sc.python_binds(s, p) else "F")
    for s in sigs[:20]:
        for _ in range(6):
            p = sc.random_params(rng, s)
            if p == "absent" or not isinstance(p, (list, dict)):
                continue
            lines.append("bind %s %s" % (sc.enc_sig(s), sc.enc(p)))
            expect.append("T" if sc.python_binds(s, p) else "F")
    outs = ctx.lean(lines)
    for ln, o, e in zip(lines, outs, expect):
        if o != e:
            ctx.disagree(ln, e, o, component="bind")
    ctx.traces_validated += len(lines)
    ctx.count(kind="bind-differential", n=len(lines))


def resolve_differential(ctx):
    rng = ctx.derive_rng("resolve")
    trees = [sc.REGISTRIES["inst"]["inst"]["attrs"]]
    for _ in range(ctx.budget(15, 200)):
        d = sc.random_registry(rng)
        if d["inst"] is not None:
            trees.append(d["inst"]["attrs"])
    lines, expect = [], []
    for attrs in trees:
        desc = {"funcs": [], "inst": {"dispatch": None, "attrs": attrs}, "custom": None}
        names = sc.registry_methods(desc) + sc.METHODS["inst"] + ["a.b.c", "..", "m.n.q", "q.m", "n._p.q", "__r", "m.__r"]
        obj = sc._Instance()
        for n, a in attrs:
            setattr(obj, n, sc.make_attr(a, n, []))
        tree_tok = sc.enc([[n, sc._enc_attr(a)] for n, a in attrs])
        for name in names:
            try:
                f = xmlrpc.server.resolve_dotted_attribute(obj, name, True)
                e = "callable" if callable(f) else "value"
            except AttributeError:
                e = "none"
            lines.append("resolve %s %s" % (tree_tok, sc.enc(name)))
            expect.append(e)
    outs = ctx.lean(lines)
    for ln, o, e in zip(lines, outs, expect):
        if o != e:
            ctx.disagree(ln[:400], e, o, component="resolve")
    ctx.traces_validated += len(lines)
    ctx.count(kind="resolve-differential", n=len(lines))


def _drop_method(body):
    d = json.loads(body)
    d.pop("method", None)
    return json.dumps(d)


CLIENT_CASES = [
    # (registry, method, params, tamper, expected code)
    ("both", "add", [1, 2], lambda b: b[:-1], -32700),
    ("both", "add", [1, 2], lambda b: b.replace(":", ";", 1), -32700),
    ("both", "add", [1, 2], _drop_method, -32600),
    ("both", "add", [1, 2], lambda b: json.dumps(dict(json.loads(b), params=5)), -32600),
    ("both", "add", [1, 2], lambda b: "7", -32600),
    ("both", "nosuch", [], None, -32601),
    ("both", "_priv", [], None, -32601),
    ("both", "ns._hidden", [], None, -32601),
    ("both", "pub._hid", [1], None, -32601),
    ("both", "ns.nosuch", [], None, -32601),
    ("inst", "__class__", [], None, -32601),
    ("empty", "add", [1, 2], None, -32601),
    ("both", "add", [1], None, -32602),
    ("both", "add", {"a": 1, "c": 2}, None, -32602),
    ("both", "noargs", [1], None, -32602),
    ("both", "ns.meth", {"b": 1}, None, -32602),
    ("both", "boom", [], None, -32603),
    ("both", "typeerr", [1], None, -32603),
    ("both", "subte", [1], None, -32603),
    ("both", "keyerr", [1], None, -32603),
    ("both", "uni", [], None, -32603),
    ("both", "ns.fail", [], None, -32603),
    ("both", "ns.deep.er", {"k": 1}, None, -32603),
    ("custom", "raise", [1], None, -32603),
    ("custom", "te", [], None, -32603),
    ("instdisp", "raise", [], None, -32603),
    # names that are not the registered name
    ("both", " add", [1, 2], None, -32601),
    ("both", "add ", [1, 2], None, -32601),
    ("both", "ADD", [1, 2], None, -32601),
    ("both", "add\x00", [1, 2], None, -32601),
    ("both", "\uff41\uff44\uff44", [1, 2], None, -32601),
    # TypeErrors of the body at every frame depth, expression errors, decorators, partials, callable objects
    ("depth", "te1", [1], None, -32603),
    ("depth", "te3", [1], None, -32603),
    ("depth", "concat", [7], None, -32603),
    ("depth", "len5", [], None, -32603),
    ("depth", "nonecall", [1], None, -32603),
    ("depth", "decote", [1], None, -32603),
    ("depth", "objte", [1], None, -32603),
    ("depth", "partboom", [1], None, -32603),
    ("depth", "noargs_exc", [], None, -32603),
    ("depth", "longtext", [], None, -32603),
    ("depth", "te1", [], None, -32602),
    ("depth", "part", [1, 2, 3], None, -32602),
    ("depth", "divmod", [1], None, -32602),
    ("customraise", "noargs", [], None, -32603),
    ("instraise", "many", [], None, -32603),
]


def client_monitor(ctx):
    PE = impl.jsonrpclib.jsonrpc.ProtocolError
    AE = impl.jsonrpclib.jsonrpc.AppError
    for regname, method, params, tamper, code in CLIENT_CASES:
        for ver in (1.0, 2.0):
            case = sc.make_case(sc.REGISTRIES[regname], "<client call %s%r>" % (method, params), ver=ver, uj=False, kind="client")
            k, v, real = sc.client_check(case, method, params, tamper)
            m = None
            if k != "err":
                m = "client returned %r, the server had to answer code %d" % (v, code)
            elif not isinstance(v, PE) or isinstance(v, AE):
                m = "client raised %s, expected ProtocolError carrying %d" % (type(v).__name__, code)
            else:
                a = v.args[0] if v.args else None
                if not (isinstance(a, tuple) and len(a) == 2 and a[0] == code and type(a[0]) is int and isinstance(a[1], str)):
                    m = "client raised ProtocolError%r, expected (%d, message)" % (v.args, code)
            if m is None and code in (-32700, -32600, -32601, -32602) and real.log:
                m = "code %d, yet something was invoked: %r" % (code, real.log[:2])
            if m:
                ctx.violate({"client": True, "registry": regname, "method": method, "params": params, "ver": ver,
                             "tampered": tamper is not None, "expected_code": code}, "client: " + m, key="client:%d:%s" % (code, m[:50]))
            ctx.count(kind="client/%d" % code, nontrivial_key=("client", regname, method, ver, code))


def gate_check(ctx):
    """Hypothesis `hgate` of C05_client, by execution: the client model lets a 2.0-form error reply through its
    version gate and raises ProtocolError (code, message) for each of the five codes."""
    lines, expect = [], []
    for code in (-32700, -32600, -32601, -32602, -32603):
        for reply in ({"jsonrpc": "2.0", "id": 1, "error": {"code": code, "message": "m"}},
                      {"result": None, "id": 1, "error": {"code": code, "message": "m"}}):
            lines.append("cfe " + pyval.enc(reply))
            expect.append("err ProtocolError " + pyval.enc((code, "m"), canon=True))
    outs = ctx.lean(lines)
    for ln, o, e in zip(lines, outs, expect):
        if impl.canon_model_line(o) != e:
            ctx.disagree(ln, e, o, component="cfe-gate")
    ctx.traces_validated += len(lines)


EMPTY_BODIES = [("str", ""), ("bytes", b""), ("bytearray", bytearray())]


def _empty_body_verdict(kind, reg, ver, custom_ok=True):
    """The empty body handed to the real `_marshaled_dispatch` as str / bytes / bytearray, and through do_POST with
    Content-Length 0: a single -32700 error object, nothing invoked.  Returns (message or None, details)."""
    data = dict(EMPTY_BODIES)[kind]
    real = sc.Real(sc.REGISTRIES[reg], ver, False, "absent")
    k, v = impl.outcome(real.disp._marshaled_dispatch, data, real.custom)
    if k == "err":
        return "the dispatcher raised %s: %s on the empty %s body" % (type(v).__name__, str(v)[:120], kind), repr(v)
    m = None
    try:
        d = json.loads(v)
    except (ValueError, TypeError):
        d = None
    code = d.get("error", {}).get("code") if isinstance(d, dict) and isinstance(d.get("error"), dict) else None
    if code != -32700:
        m = "the empty %s body is rejected by RFC 8259: it must be answered with a single -32700 error object, the reply is %r" % (kind, v[:200] if isinstance(v, str) else v)
    elif real.log:
        m = "empty %s body, yet something was invoked: %r" % (kind, real.log[:2])
    if m is None and kind == "str":
        real2 = sc.Real(sc.REGISTRIES[reg], ver, False, "absent")
        try:
            status, body, _h = real2.post("")
            dd = json.loads(body.decode("utf-8")) if body else None
            c2 = dd.get("error", {}).get("code") if isinstance(dd, dict) and isinstance(dd.get("error"), dict) else None
            if c2 != -32700 or real2.log:
                m = "do_POST with an empty body (Content-Length 0): status %r, body %r, invoked %r" % (status, body[:200], real2.log[:2])
        except Exception as ex:  # noqa: BLE001
            m = "do_POST raised %s on an empty body" % type(ex).__name__
    return m, v


def empty_body_check(ctx):
    for kind, _data in EMPTY_BODIES:
        for reg in ("funcs", "custom", "instdisp", "empty"):
            for ver in (1.0, 2.0):
                m, _v = _empty_body_verdict(kind, reg, ver)
                if m:
                    ctx.violate({"empty_body": kind, "body": "" if kind == "str" else repr(dict(EMPTY_BODIES)[kind]), "registry": reg, "ver": ver},
                                "codes: " + m, key="empty-body:%s:%s" % (kind, m[:40]))
                ctx.count(kind="empty-body/" + kind, nontrivial_key=("empty-body", kind, reg, ver))


def run(ctx):
    em = {"names": 0.6, "longbody": 0.3, "translated": 0.3, "structid": 0.3, "malformed": 0.35, "textlayer": True, "single": 1.6, "batch": 0.8, "damaged": 0.6, "descriptor": 0.8, "noise": 0.5, "pool": 0.4, "randreg": 2.5, "post": 0.02,
          "exhaustive_single": True, "ws": 0.06, "garbage": 0.05}
    sc.standard_run(ctx, "C05", MONITORS, sc.proj_codes, em, RULE)
    bind_differential(ctx)
    resolve_differential(ctx)
    client_monitor(ctx)
    gate_check(ctx)
    empty_body_check(ctx)
    bytecases.stage(ctx, "C05")


def search(ctx):
    """Search stage: one pass with the thorough budgets and the exhaustive enumerations (ctx.searching is set)."""
    run(ctx)


def replay(payload):
    case = payload.get("case") or {}
    if case.get("bytes_case"):
        return bytecases.replay(case)
    if case.get("empty_body"):
        m, v = _empty_body_verdict(case["empty_body"], case["registry"], case["ver"])
        print("empty %s body -> %r" % (case["empty_body"], v))
        print(("VIOLATION reproduced: " + m) if m else "no violation on this input")
        return 1 if m else 0
    if case.get("client"):
        c = sc.make_case(sc.REGISTRIES[case["registry"]], "", ver=case["ver"], uj=False)
        tamper = None
        if case.get("tampered"):
            print("(tampered request: replaying the untampered call; see expected_code)")
        k, v, real = sc.client_check(c, case["method"], case["params"], tamper)
        print("client call %s%r ->" % (case["method"], case["params"]), k, repr(v), "expected code", case["expected_code"])
        ok = (k == "err" and type(v).__name__ == "ProtocolError" and v.args and isinstance(v.args[0], tuple)
              and v.args[0][0] == case["expected_code"])
        print("VIOLATION reproduced" if not ok else "no violation on this input")
        return 0 if ok else 1
    return sc.replay_case(payload, MONITORS)
