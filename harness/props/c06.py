"""
C06 — The client never swallows or mistypes a server-reported error.

Model   : lean/JRV/Model/Client.lean (checkForErrors, proxyResult, proxyNotify, multicallGet, multicallIter/List/Unpack)
Theorems: lean/JRV/Properties/C06.lean (+ C06Gen.lean for the extracted facts)
Tie     : extracted range/raised classes/call-site shapes (tools/extractors/client.py) + differential correspondence of
          check_for_errors, ServerProxy._request, ServerProxy._request_notify and every way of reading a MultiCall
          result (index, iteration, list(), unpacking) on the same reply objects, under a proxy with use_jsonclass
          off and on.
          The same access paths are also fed THROUGH THE REAL TRANSPORT (harness/clientwire.py; model
          lean/JRV/Model/ClientWire.lean): replies of 1 KiB and more as raw-UTF-8 JSON bodies whose multi-byte characters sit
          at every alignment around the multiples of the 1024-byte read size of Transport.parse_response, delivered by
          http.client over an in-memory socket and over real TCP / Unix sockets, with a Content-Length, gzip-encoded, in
          chunked transfer encoding and closed by the peer - error replies, results, MultiCall arrays, notifications.
Monitor : written from the property statement (independent of the model).
"""
import itertools
import json
import shutil
import socket
import tempfile

import clientwire
import core
import gen
import impl
import pyval

REQUIRED_THEOREMS = [
    "C06_error_raises", "C06_error_class", "C06_coded", "C06_message", "C06_range_int", "C06_range_nonnumeric",
    "C06_raw", "C06_single_entry", "C06_result_unchanged", "C06_multicall", "C06_appdata",
    "C06_batch_single_error", "C06_batch_array",
    "C06_proxy_error", "C06_notify_error", "C06_notify_none", "C06_iter_first_error", "C06_iter_all", "C06_list",
    "C06_unpack_error", "C06_full_statement_false",
    "C06_wire_text", "C06_wire_run", "C06_wire_error", "C06_wire_result", "C06_wire_multicall",
    "C06_wire_piecewise_decoding_differs",
    "C06_gen_protoRange", "C06_gen_errorClasses", "C06_gen_clientCallSites", "C06_gen_replyDecodedOnce",
]

LO, HI = -32700, -32000

CODES = [LO - 1, LO, LO + 1, LO + 0.5, LO - 0.5, float(LO), -32600, -32601, -32603, HI - 1, HI, HI + 1, HI + 0.5,
         float(HI), 0, 1, -1, True, False, "x", "-32600", None, [1], {"a": 1}, 2 ** 53, -(2 ** 53)]

MESSAGES = [("message", "m"), ("message", ""), ("message", None), ("trace", "t"), None, ("message+trace", None)]
DATAS = ["absent", None, 0, "d", [1, 2], {"k": "v"}]


def error_alphabet():
    """Error values that are not coded objects."""
    return [
        {"reason": "x"}, {"reason": None}, {"": ""}, {"message": "only message"}, {"message": "m", "data": 1},
        {"a": 1, "b": 2}, {"trace": "t"},
        "error", "error code here", "code", "x",
        5, -32600, 1.5, True,
        ["code"], ["x", "code"], [1, 2], [{"code": 1}],
    ]


FALSY_ERRORS = ["absent", None, 0, 0.0, "", [], {}, False]
RESULTS = ["absent", None, 0, 0.0, -0.0, False, True, "", "r", [], {}, [0], {"a": None}, 2 ** 53, 1e-320, "é"]
ENVELOPES = ["1.0", "2.0s", "2i", "2.0f"]


def envelope(kind, rid, result="absent", error="absent"):
    d = {}
    if kind == "2.0s":
        d["jsonrpc"] = "2.0"
    elif kind == "2i":
        d["jsonrpc"] = 2
    elif kind == "2.0f":
        d["jsonrpc"] = 2.0
    d["id"] = rid
    if kind == "1.0":
        # 1.0 envelopes carry all three members
        d["result"] = None if result == "absent" else result
        d["error"] = None if error == "absent" else error
    else:
        if result != "absent":
            d["result"] = result
        if error != "absent":
            d["error"] = error
    return d


def coded_error(code, msg, data):
    e = {"code": code}
    if msg is not None:
        if msg[0] == "message+trace":
            e["message"] = "m"
            e["trace"] = "t"
        else:
            e[msg[0]] = msg[1]
    if data != "absent":
        e["data"] = data
    return e


def systematic_cases():
    for env in ENVELOPES:
        for code, msg, data in itertools.product(CODES, MESSAGES, DATAS):
            yield ("coded", env, envelope(env, 1, error=coded_error(code, msg, data)))
        for e in error_alphabet():
            yield ("raw", env, envelope(env, "id", error=e))
            yield ("raw+result", env, envelope(env, 0, result=5, error=e))
        for r, fe in itertools.product(RESULTS, FALSY_ERRORS):
            yield ("result", env, envelope(env, 3, result=r, error=fe))


def odd_cases():
    """Outside the property's domain but inside the model: the correspondence still has to agree."""
    for j in ["3.0", 3, 2.5, "2.1", "1.0", 1, "abc", None, [], "2", "02.0", "2.", ".5", True]:
        yield ("odd-version", "odd", {"jsonrpc": j, "id": 1, "result": 1})
        yield ("odd-version", "odd", {"jsonrpc": j, "id": 1, "error": {"code": -32600, "message": "m"}})
    for v in [None, 0, "", [], {}, [1], "text", 7, True, {"id": 1}, {"jsonrpc": "2.0"}, {"jsonrpc": "2.0", "id": 1}]:
        yield ("odd-reply", "odd", v)


def random_case(rng):
    env = rng.choice(ENVELOPES)
    r = rng.random()
    if r < 0.35:
        code = rng.choice(CODES) if rng.random() < 0.5 else rng.randint(LO - 50, HI + 50)
        if rng.random() < 0.15:
            code = float(code) if isinstance(code, int) and not isinstance(code, bool) else code
        e = coded_error(code, rng.choice(MESSAGES), rng.choice(DATAS))
        for _ in range(rng.randint(0, 2)):
            e[rng.choice(gen.KEYS)] = gen.json_value(rng, 3, 2)
        return ("coded", env, envelope(env, gen.json_scalar(rng), error=e))
    if r < 0.6:
        e = gen.json_value(rng, 4, 3)
        res = rng.choice(RESULTS)
        return ("raw", env, envelope(env, gen.json_scalar(rng), result=res, error=e))
    res = gen.json_value(rng, 5, 3)
    return ("result", env, envelope(env, gen.json_scalar(rng), result=res, error=rng.choice(FALSY_ERRORS)))


def in_domain(reply):
    """1.0- and 2.0-form envelopes (the quantifier of the property; `envelopeOk` in the theorems)."""
    if not isinstance(reply, dict):
        return False
    if "jsonrpc" in reply:
        j = reply["jsonrpc"]
        if isinstance(j, bool) or not (j == "2.0" or (isinstance(j, (int, float)) and j == 2)):
            return False
    return True


def has_error(reply):
    """"a reply whose error member is non-empty": bound to a truthy value."""
    return "error" in reply and bool(reply["error"])


def is_clean(reply):
    """"a reply with a null or absent error and a result member" — nothing is said (and nothing demanded here)
    about falsy non-null error values (0, False, "", [], {})."""
    return reply.get("error") is None and "result" in reply


def same(val, exp):
    return type(val) is type(exp) and json.dumps(val, sort_keys=True) == json.dumps(exp, sort_keys=True)


def monitor_raised(err, val, where):
    """The exception `val` raised for the non-empty error value `err`, against the statement."""
    if not isinstance(val, jsonrpclib_ProtocolError()):
        return "%s raised %s (not a ProtocolError) for error %r" % (where, type(val).__name__, err)
    if isinstance(err, dict) and "code" in err:
        code = err["code"]
        numeric = isinstance(code, (int, float))
        in_range = numeric and LO <= code <= HI
        msg = err["message"] if "message" in err else err.get("trace", "<no error message>")
        if in_range:
            if type(val).__name__ != "ProtocolError" or val.args[0] != (code, msg):
                return "%s: in-range code %r raised %s%r" % (where, code, type(val).__name__, val.args)
        else:
            if type(val).__name__ != "AppError" or val.args[0] != (code, msg, err.get("data")):
                return "%s: code %r outside the range raised %s%r" % (where, code, type(val).__name__, val.args)
            if val.data() != err.get("data"):
                return "%s: AppError.data() = %r, expected %r" % (where, val.data(), err.get("data"))
    return None


def monitor(reply, kind, val, where, returns_result=True):
    """The property statement, checked directly on the real outcome.  Returns a message or None.
    `returns_result` is False for the access paths that hand out no result by design (check_for_errors returns
    its argument, a notification call returns None): only "does not raise" is demanded of them."""
    if not in_domain(reply):
        return None
    if has_error(reply):
        if kind != "err":
            return "%s returned %r for a reply with error %r" % (where, val, reply["error"])
        return monitor_raised(reply["error"], val, where)
    if is_clean(reply):
        if kind != "ok":
            return "%s raised %s for a reply with result %r and no error" % (where, type(val).__name__, reply["result"])
        if returns_result and not same(val, reply["result"]):
            return "%s returned %r instead of %r" % (where, val, reply["result"])
    return None


def monitor_iteration(batch, got, exc, where):
    """Reading a MultiCall result by iteration.  `got` = the values handed out, `exc` = the exception that ended
    the iteration or None.  Judged when every entry up to the first error entry is in the domain and clean."""
    if not all(isinstance(r, dict) and in_domain(r) for r in batch):
        return None
    first = next((i for i, r in enumerate(batch) if has_error(r)), None)
    upto = batch if first is None else batch[:first]
    if not all(is_clean(r) for r in upto):
        return None
    exp = [r["result"] for r in upto]
    if first is None:
        if exc is not None:
            return "%s raised %s over a batch reply without error entries" % (where, type(exc).__name__)
    else:
        if exc is None:
            return "%s returned %r although entry %d carries the error %r" % (where, got, first, batch[first]["error"])
        m = monitor_raised(batch[first]["error"], exc, where)
        if m:
            return m
    if got is not None and (len(got) != len(exp) or not all(same(a, b) for a, b in zip(got, exp))):
        return "%s handed out %r, expected the results %r in order" % (where, got, exp)
    return None


def jsonrpclib_ProtocolError():
    return impl.jsonrpclib.jsonrpc.ProtocolError


# ----------------------------------------------------------------------------------------------------------------
# access paths of the real client


def _mk_unpackers(nmax):
    out = {}
    for n in range(1, nmax + 1):
        names = ", ".join("a%d" % i for i in range(n))
        ns = {}
        exec("def u(it):\n    %s%s = it\n    return [%s]\n" % (names, "," if n == 1 else "", names), ns)
        out[n] = ns["u"]
    return out


UNPACK = _mk_unpackers(8)


def iterate(results):
    got = []
    try:
        for r in results:
            got.append(r)
    except Exception as ex:  # noqa: BLE001
        return got, ex
    return got, None


def plain(v):
    """No `__jsonclass__` key anywhere: the payloads the use_jsonclass=True proxy is exercised with."""
    if isinstance(v, dict):
        return "__jsonclass__" not in v and all(plain(x) for x in v.values())
    if isinstance(v, list):
        return all(plain(x) for x in v)
    return True


class Client(object):
    """One configuration of the real client over a loopback transport."""

    def __init__(self, tag, cfg):
        self.tag = tag
        self.cfg = cfg
        self.J = impl.jsonrpclib.jsonrpc

    def proxy(self, text):
        tr = impl.LoopTransport(lambda body, t=text: t)
        return self.J.ServerProxy("http://localhost/", transport=tr, config=self.cfg)

    def call(self, text):
        return impl.outcome(self.proxy(text).some.method, 1, 2)

    def notify(self, text):
        return impl.outcome(self.proxy(text)._notify.some.method, 1, 2)

    def multicall(self, text, njobs):
        mc = self.J.MultiCall(self.proxy(text), config=self.cfg)
        for _i in range(max(1, njobs)):
            mc.m()
        return impl.outcome(mc)


def clients():
    C = impl.jsonrpclib.config.Config
    return [Client("jc-off", C(version=2.0, use_jsonclass=False)), Client("jc-on", C(version=2.0, use_jsonclass=True))]


def canon_iter(got, exc):
    try:
        g = "ok " + pyval.enc(got, canon=True)
    except pyval.Unencodable:
        g = "ok ?"
    return g + " | " + ("done" if exc is None else impl.canon_outcome("err", exc))


def canon_model_iter(line):
    return " | ".join(impl.canon_model_line(part) for part in line.split(" | "))


def drive_reply(ctx, cl, reply, text, enc, lines, impl_out, with_cfe, comps=("proxy", "notify"), prefix="", extra=None):
    """One reply object through check_for_errors, a proxy call and a notification call.
    `comps`/`prefix`: the model components the two calls are compared with and what precedes the reply on their lines
    (the wire path: `wcall`/`wnotify` and `<read size> <hex body> `); `extra`: members added to the case of a violation."""
    via = lambda w: "%s [%s]" % (w, cl.tag)  # noqa: E731
    extra = extra or {}
    k = v = None
    if with_cfe:
        k, v = impl.outcome(cl.J.check_for_errors, json.loads(text))
        m = monitor(reply, k, v, "check_for_errors", returns_result=False)
        if m:
            ctx.violate({"reply": reply, "via": "check_for_errors"}, m, key="check_for_errors:" + m[:60])
        lines.append("cfe " + enc)
        impl_out.append(impl.canon_outcome(k, v))
    k2, v2 = cl.call(text)
    m = monitor(reply, k2, v2, via("ServerProxy call"))
    if m:
        ctx.violate(dict({"reply": reply, "via": "ServerProxy", "config": cl.tag}, **extra), m, key="proxy:" + m[:60])
    lines.append(comps[0] + " " + prefix + enc)
    impl_out.append(impl.canon_outcome(k2, v2))
    k5, v5 = cl.notify(text)
    m = monitor(reply, k5, v5, via("ServerProxy._notify call"), returns_result=False)
    if m is None and k5 == "ok" and v5 is not None and in_domain(reply):
        m = "%s returned %r (a notification call returns nothing)" % (via("ServerProxy._notify call"), v5)
    if m:
        ctx.violate(dict({"reply": reply, "via": "ServerProxy._notify", "config": cl.tag}, **extra), m, key="notify:" + m[:60])
    lines.append(comps[1] + " " + prefix + enc)
    impl_out.append(impl.canon_outcome(k5, v5))
    return k, v


def drive_batch(ctx, cl, batch, lines, impl_out, positions=None, btext=None, extra=None):
    """An array reply read by index, by iteration, by list() and by unpacking."""
    extra = extra or {}
    if btext is None:
        btext = json.dumps(batch)
    benc = pyval.enc(batch)
    k, results = cl.multicall(btext, len(batch))
    if k != "ok":
        ctx.violate(dict({"batch": batch, "via": "MultiCall()", "config": cl.tag}, **extra),
                    "the batch call raised %s over an array reply" % type(results).__name__, key="mc-call-raises")
        return
    tag = cl.tag
    for pos in (range(len(batch)) if positions is None else positions):
        k3, v3 = impl.outcome(lambda: results[pos])
        if isinstance(batch[pos], dict):
            m = monitor(batch[pos], k3, v3, "MultiCall[%d] [%s]" % (pos, tag))
            if m:
                ctx.violate(dict({"batch": batch, "via": "MultiCall-index", "position": pos, "config": tag}, **extra), m,
                            key="multicall:" + m[:60])
        lines.append("mcget %d %s" % (pos, benc))
        impl_out.append(impl.canon_outcome(k3, v3))
    got, exc = iterate(results)
    m = monitor_iteration(batch, got, exc, "for r in MultiCall() [%s]" % tag)
    if m:
        ctx.violate(dict({"batch": batch, "via": "MultiCall-iteration", "config": tag}, **extra), m, key="mciter:" + m[:60])
    lines.append("mciter " + benc)
    impl_out.append(canon_iter(got, exc))
    k6, v6 = impl.outcome(lambda: list(results))
    m = monitor_iteration(batch, v6 if k6 == "ok" else None, None if k6 == "ok" else v6, "list(MultiCall()) [%s]" % tag)
    if m:
        ctx.violate(dict({"batch": batch, "via": "MultiCall-list", "config": tag}, **extra), m, key="mclist:" + m[:60])
    lines.append("mclist " + benc)
    impl_out.append(impl.canon_outcome(k6, v6))
    n = len(batch)
    if 1 <= n <= len(UNPACK):
        k7, v7 = impl.outcome(UNPACK[n], results)
        m = monitor_iteration(batch, v7 if k7 == "ok" else None, None if k7 == "ok" else v7,
                              "a1..a%d = MultiCall() [%s]" % (n, tag))
        if m:
            ctx.violate(dict({"batch": batch, "via": "MultiCall-unpack", "config": tag}, **extra), m, key="mcunpack:" + m[:60])
        lines.append("mcunpack %d %s" % (n, benc))
        impl_out.append(impl.canon_outcome(k7, v7))


# ----------------------------------------------------------------------------------------------------------------
# the same access paths through the real transport: the reply is the body of an HTTP response


def _env2(error="absent", result="absent", rid=1):
    return envelope("2.0s", rid, result=result, error=error)


WIRE_TEMPLATES = [
    ("pre-message", lambda t: _env2(error={"code": -32601, "message": t})),
    ("app-message-data", lambda t: _env2(error={"code": 1234, "message": t, "data": [1, 2]})),
    ("app-data", lambda t: _env2(error={"code": 7, "message": "m", "data": {"k": [t]}})),
    ("pre-trace", lambda t: _env2(error={"code": -32000, "trace": t})),
    ("app-key", lambda t: _env2(error={"code": "E1", "message": "m", t: 1})),
    ("raw-string", lambda t: _env2(error=t)),
    ("raw-single-entry", lambda t: _env2(error={"reason": t})),
    ("raw-list", lambda t: _env2(error=[t, "code"])),
    ("v1-error", lambda t: {"id": 1, "result": None, "error": {"code": -32700, "message": t}}),
    ("result-string", lambda t: _env2(result=t)),
    ("result-nested", lambda t: _env2(result={"a": [t, None]}, error=None)),
    ("id-string-error", lambda t: _env2(error={"code": -32600, "message": "Invalid Request"}, rid=t)),
]
WIRE_TEMPLATE = dict(WIRE_TEMPLATES)


def _ok(i):
    return {"jsonrpc": "2.0", "id": i, "result": i}


def wire_batch(name, pos, n=3):
    """An array reply of n entries whose entry `pos` is the template `name`."""
    def build(t):
        return [WIRE_TEMPLATE[name](t) if i == pos else _ok(i) for i in range(n)]
    return build


class WireClient(Client):
    """The real client over the real transport: `text` is the body the peer answers with."""

    def __init__(self, tag, cfg, via, framing, peers):
        Client.__init__(self, tag, cfg)
        self.via = via          # "mem" | "tcp" | "unix"
        self.framing = framing  # clientwire.FRAMINGS
        self.peers = peers

    def proxy(self, text):
        body = text.encode("utf-8")
        if self.via == "mem":
            tr = clientwire.mem_transport(self.J, self.cfg, body, self.framing)
            return self.J.ServerProxy("http://localhost/", transport=tr, config=self.cfg)
        return self.peers.proxy(self.via, self.tag, self.cfg, body, self.framing)


class WirePeers(object):
    """The socket peers (created on first use) and one ServerProxy per (peer, configuration): connections are kept
    alive across cases, as in a long-lived client."""

    def __init__(self):
        self.tmpdir = None
        self.peers = {}
        self.proxies = {}
        self.old_timeout = socket.getdefaulttimeout()

    def proxy(self, via, tag, cfg, body, framing):
        if via not in self.peers:
            if self.tmpdir is None:
                self.tmpdir = tempfile.mkdtemp(prefix="jrv-c06-")
                socket.setdefaulttimeout(30)
            self.peers[via] = clientwire.ReplyPeer(via, self.tmpdir)
        peer = self.peers[via]
        peer.serve(body, framing)
        if (via, tag) not in self.proxies:
            self.proxies[(via, tag)] = impl.jsonrpclib.jsonrpc.ServerProxy(peer.url(), config=cfg)
        return self.proxies[(via, tag)]

    def close(self):
        for pr in self.proxies.values():
            try:
                pr("close")()
            except Exception:  # noqa: BLE001
                pass
        for p in self.peers.values():
            p.stop()
        if self.tmpdir is not None:
            shutil.rmtree(self.tmpdir, ignore_errors=True)
            socket.setdefaulttimeout(self.old_timeout)


def wire_cases(ctx):
    """(label, build function, character or None, byte offset of the character or None, compact separators)."""
    rng = ctx.derive_rng("wire")
    cuts = [1024, 2048] if not ctx.thorough else [1024, 2048, 3072, 5120, 10240]
    names = [n for n, _ in WIRE_TEMPLATES]
    out = []
    # every alignment of every character length around every cut, every template
    for ch, L in clientwire.CHARS:
        for k in range(0, L + 1):
            for cut in cuts:
                for name in names:
                    out.append(("align", name, WIRE_TEMPLATE[name], ch, cut - k, False))
    # array replies (MultiCall): the entry with the character at each position
    bi = 0
    for ch, L in clientwire.CHARS:
        for k in range(0, L + 1):
            for cut in cuts[:2]:
                for _ in range(2 if not ctx.thorough else len(names)):
                    name = names[bi % len(names)]
                    pos = bi % 3
                    bi += 1
                    out.append(("batch", "batch:%s@%d" % (name, pos), wire_batch(name, pos), ch, cut - k, bi % 2 == 0))
    # texts made of multi-byte characters only: every cut falls inside or between characters, by the shift
    for ch, L in clientwire.CHARS:
        for shift in range(L):
            name = names[(shift + L) % len(names)]
            text = "a" * shift + ch * (2600 // L)
            out.append(("dense", name, (lambda t, n=name, x=text: WIRE_TEMPLATE[n](x)), None, None, False))
            out.append(("dense", "batch:%s@1" % name, (lambda t, n=name, x=text: wire_batch(n, 1)(x)), None, None, True))
    # controls: long ASCII-only, short non-ASCII, bodies of exactly 1023 / 1024 / 1025 / 2048 bytes
    for name in ("pre-message", "app-message-data", "raw-string", "result-string"):
        out.append(("ascii-long", name, (lambda t, n=name: WIRE_TEMPLATE[n]("y" * 1500)), None, None, False))
        out.append(("short", name, (lambda t, n=name: WIRE_TEMPLATE[n]("é€\U0001F600")), None, None, False))
        base = len(clientwire.dumps(WIRE_TEMPLATE[name]("")).encode("utf-8"))
        for size in (1023, 1024, 1025, 2048):
            out.append(("size-%d" % size, name, (lambda t, n=name, m=size - base - 2: WIRE_TEMPLATE[n]("z" * m + "é")), None, None, False))
    # random: template, character, offset, separators
    for _ in range(ctx.budget(150, 4000)):
        ch, L = rng.choice(clientwire.CHARS)
        name = rng.choice(names)
        if rng.random() < 0.5:
            cut = 1024 * rng.randint(1, 6)
            start = cut - rng.randint(0, L)
        else:
            start = rng.randint(200, 7000)
        if rng.random() < 0.3:
            pos = rng.randint(0, 3)
            out.append(("random", "batch:%s@%d" % (name, pos), wire_batch(name, pos, 4), ch, start, rng.random() < 0.5))
        else:
            out.append(("random", name, WIRE_TEMPLATE[name], ch, start, rng.random() < 0.5))
    return out


def run_wire(ctx, cls, lines, impl_out):
    """Replies delivered by the real transport.  Every case: over the in-memory connection with a Content-Length; over a
    real socket (TCP / Unix alternating); a part of them gzip-encoded, in chunked transfer encoding, closed by the peer."""
    peers = WirePeers()
    n_cases = 0
    straddling = 0
    try:
        for idx, (label, name, build, ch, start, compact) in enumerate(wire_cases(ctx)):
            if ch is not None:
                made = clientwire.padded(build, ch, start, compact)
                if made is None:
                    continue
                reply, body = made
            else:
                reply = build("")
                body = clientwire.dumps(reply, compact).encode("utf-8")
            text = body.decode("utf-8")
            if json.loads(text) != reply:
                raise core.InfraError("wire case %r: the body does not parse back to the reply" % (name,))
            st = clientwire.straddles(body)
            n_cases += 1
            straddling += 1 if st else 0
            for (L, before, cut) in st[:4]:
                ctx.hist["wire/straddle/%d-byte-char/%d-before-cut" % (L, before)] += 1
            if not st:
                ctx.hist["wire/no-character-across-a-cut"] += 1
            ctx.hist["wire/class/" + label] += 1
            ctx.hist["wire/body-bytes/%s" % ("<1024" if len(body) < 1024 else "1024-2047" if len(body) < 2048 else ">=2048")] += 1
            enc = pyval.enc(reply)
            prefix = "%d %s " % (clientwire.READ, body.hex() or "-")
            sock_via = ("tcp", "unix")[idx % 2]
            routes = [("mem", "id"), (sock_via, "id")]
            if idx % 3 == 0 or ctx.thorough:
                fr = clientwire.FRAMINGS[1 + (idx // 3) % 3]
                routes.append(("mem", fr))
                if idx % 6 == 0 or ctx.thorough:
                    routes.append((("unix", "tcp")[(idx // 6) % 2], fr))
            for ri, (via, framing) in enumerate(routes):
                cfg_i = (idx + ri) % 2 if plain(reply) else 0
                base = cls[cfg_i]
                cl = WireClient(base.tag, base.cfg, via, framing, peers)
                extra = {"wire": {"via": via, "framing": framing, "body_hex": body.hex(), "read_size": clientwire.READ}}
                ctx.hist["wire/route/%s/%s" % (via, framing)] += 1
                if isinstance(reply, dict):
                    ctx.hist["wire/path/call+notify"] += 1
                    drive_reply(ctx, cl, reply, text, enc, lines, impl_out, False, comps=("wcall", "wnotify"), prefix=prefix, extra=extra)
                    k, v = impl.outcome(cl.proxy(text)._run_request, '{"jsonrpc": "2.0", "method": "m", "id": 1}')
                    lines.append("wrun " + prefix + enc)
                    impl_out.append(impl.canon_outcome(k, v))
                else:
                    ctx.hist["wire/path/multicall"] += 1
                    drive_batch(ctx, cl, reply, lines, impl_out, btext=text, extra=extra)
                    mc = cl.J.MultiCall(cl.proxy(text), config=cl.cfg)
                    for _i in range(len(reply)):
                        mc.m()
                    k, v = impl.outcome(lambda: list(mc().results))
                    lines.append("wmc " + prefix + enc)
                    impl_out.append(impl.canon_outcome(k, v))
            err = reply.get("error") if isinstance(reply, dict) else None
            ctx.count(case_repr={"kind": "wire/" + label, "template": name, "body_bytes": len(body), "straddles": st[:3]},
                      nontrivial_key=("wire", label, name, tuple(st[:2]), len(body) // 1024) if (st and (err or not isinstance(reply, dict))) else None,
                      kind="wire/%s/%s" % (label, "array" if isinstance(reply, list) else ("raise" if err else "return")))
    finally:
        peers.close()
    ctx.extra["wire_cases"] = n_cases
    ctx.extra["wire_cases_with_a_character_across_a_read_boundary"] = straddling


def run(ctx):
    cls = clients()
    off = cls[0]
    J = off.J
    ctx.rule = ("systematic cross product of envelope form x error alphabet x code boundary values x message/trace/data "
                "variants x falsy errors x result values, plus random replies; each reply goes through check_for_errors, "
                "ServerProxy._request and ServerProxy._request_notify (loopback transport; proxies with use_jsonclass off and on), "
                "sits at a random position of an array reply read by index, iteration, list() and unpacking, and is mixed "
                "with other drawn replies (several error entries) in a second array reply; "
                "WIRE: replies as raw-UTF-8 JSON bodies of up to several KiB (12 templates: coded / raw / 1.0 errors, results, array "
                "replies for MultiCall) with a 2-, 3- or 4-byte character at every alignment (0..L bytes before the cut) around "
                "each multiple of the 1024-byte read size, texts of multi-byte characters only, ASCII and short controls, bodies of "
                "1023/1024/1025/2048 bytes, random offsets; each through the library's Transport over an in-memory connection and "
                "over a real TCP / Unix socket (kept alive), a part gzip-encoded, in chunked transfer encoding (HTTP chunks that cut "
                "through characters) and delimited by the peer closing; proxy call, notification call, _run_request, MultiCall "
                "read in every way; "
                "distinct_nontrivial = distinct (kind, envelope, error shape, code class, outcome class) among replies that raise")
    cases = []
    sysc = list(systematic_cases()) + list(odd_cases())
    if ctx.thorough:
        cases.extend(sysc)
        ctx.exhaustive = not ctx.searching
    else:
        cases.extend(list(odd_cases()))
        pick = ctx.rng.sample(range(len(sysc)), min(len(sysc), 900))
        cases.extend(sysc[i] for i in sorted(pick))
        # boundary codes always
        for env in ENVELOPES:
            for code in (LO - 1, LO, HI, HI + 1, LO - 0.5, HI + 0.5, "x", None, True):
                cases.append(("coded", env, envelope(env, 1, error=coded_error(code, ("message", "m"), "absent"))))
            for e in error_alphabet():
                cases.append(("raw", env, envelope(env, 1, error=e)))
    for _ in range(ctx.budget(600, 20000)):
        cases.append(random_case(ctx.rng))
    pool = [c[2] for c in cases if isinstance(c[2], dict)]

    lines = []
    impl_out = []
    falsy_nonnull = 0
    jc_on = 0
    for idx, (kind, env, reply) in enumerate(cases):
        text = json.dumps(reply)
        enc = pyval.enc(reply)
        n0 = len(impl_out)
        # 1/2/5. check_for_errors, proxy call, notification call
        k, v = drive_reply(ctx, off, reply, text, enc, lines, impl_out, True)
        cfe_line = impl_out[n0]
        use_on = plain(reply) and (ctx.thorough or idx % 2 == 0)
        if use_on:
            jc_on += 1
            drive_reply(ctx, cls[1], reply, text, enc, lines, impl_out, False)
        if isinstance(reply, dict):
            if in_domain(reply) and "error" in reply and reply["error"] is not None and not reply["error"]:
                falsy_nonnull += 1
            # 3. at a batch position of a MultiCall, read in every way
            pos = ctx.rng.randint(0, 2)
            others = [{"jsonrpc": "2.0", "id": i, "result": i} for i in range(3)]
            batch = others[:pos] + [reply] + others[pos:]
            drive_batch(ctx, off, batch, lines, impl_out, positions=[pos])
            # 3b. mixed with other drawn replies: several error entries, results after errors
            if ctx.thorough or idx % 3 == 0:
                nb = ctx.rng.randint(1, 4)
                mixed = [ctx.rng.choice(pool) for _ in range(nb)]
                mixed.insert(ctx.rng.randint(0, nb), reply)
                cl = cls[1] if (use_on and all(plain(r) for r in mixed) and ctx.rng.random() < 0.5) else off
                drive_batch(ctx, cl, mixed, lines, impl_out)
            # 4. the same object as the server's answer to a WHOLE batch (e.g. its parse error)
            mc = J.MultiCall(off.proxy(text), config=off.cfg)
            mc.m()
            mc.n()
            k4, v4 = impl.outcome(lambda: list(mc()))
            if in_domain(reply) and has_error(reply):
                m = monitor(reply, k4, v4, "MultiCall (single object for the batch)")
                if m:
                    ctx.violate({"reply": reply, "via": "MultiCall-batch-object"}, m, key="batchobject:" + m[:50])
            lines.append("mcrun " + enc)
            if k4 == "ok":
                # the results are the objects' "result" members; the model returns the reply objects
                impl_out.append("ok-len %d" % len(v4))
            else:
                impl_out.append(impl.canon_outcome(k4, v4))
        err = reply.get("error") if isinstance(reply, dict) else None
        code = err.get("code") if isinstance(err, dict) else None
        cclass = ("none" if not isinstance(err, dict) or "code" not in err else
                  type(code).__name__ + (":in" if isinstance(code, (int, float)) and LO <= code <= HI else ":out"))
        key = (kind, env, gen.shape(err), cclass, cfe_line.split(" ")[:2][-1]) if k == "err" else None
        ctx.count(case_repr={"kind": kind, "reply": reply, "check_for_errors": cfe_line},
                  nontrivial_key=key, kind="%s/%s/%s" % (kind, env, "raise" if k == "err" else "return"))

    run_wire(ctx, cls, lines, impl_out)

    uniq = list(dict.fromkeys(lines))  # the same reply travels several routes: one model evaluation each
    by_line = dict(zip(uniq, ctx.lean(uniq)))
    outs = [by_line[ln] for ln in lines]
    unmodelled = 0
    per_component = {}
    for ln, mo, io in zip(lines, outs, impl_out):
        comp = ln.split(" ", 1)[0]
        if "err Unmodelled" in mo:
            unmodelled += 1
            continue
        per_component[comp] = per_component.get(comp, 0) + 1
        cm = canon_model_iter(mo) if comp == "mciter" else impl.canon_model_line(mo)
        if comp in ("mclist", "mcunpack") and cm.startswith("ok ") and io.startswith("ok "):
            pass
        if comp == "mcrun" and cm.startswith("ok ") and io.startswith("ok-len "):
            cm = "ok-len %d" % len(pyval.parse(cm[3:])[1])
        elif comp == "mcrun" and io.startswith("err") and cm.startswith("ok "):
            # iterating the single kept object raised in the result access (no "result" member etc.): the batch call
            # itself succeeded in the model; compare through the per-object component instead
            continue
        if cm != io:
            ctx.disagree(ln, io, cm, component=comp)
    ctx.traces_validated += len(lines) - unmodelled
    ctx.extra["unmodelled_cases"] = unmodelled
    ctx.extra["lines_per_component"] = per_component
    ctx.extra["replies_under_use_jsonclass_proxy"] = jc_on
    ctx.extra["falsy_non_null_error_replies_not_judged"] = falsy_nonnull
    ctx.assumptions.append("float(str) on the jsonrpc member is modelled for plain decimal literals only; other strings are declined by the model (counted as unmodelled_cases)")
    ctx.assumptions.append("domain of C06: 1.0-/2.0-form envelopes (no jsonrpc member or one equal to 2.0); replies whose jsonrpc member is above 2.0, "
                           "non-numeric or null raise NotImplementedError/ValueError/TypeError before the error member is read "
                           "(listed in C06_full_statement, refuted as stated by C06_full_statement_false)")
    ctx.assumptions.append("falsy non-null error values (0, False, \"\", [], {}) are neither 'non-empty' nor 'null or absent': the monitor "
                           "demands nothing for them (the model, which follows the code, returns the result; correspondence still compared)")
    ctx.assumptions.append("wire path: the JSON parser is a parameter of the model (lean/JRV/Model/ClientWire.lean); the driver instantiates it "
                           "with the one-point function body text -> the value CPython's json.loads gives for the whole body; "
                           "bodies that are not UTF-8 are declined by the model and not generated here (C17 owns them)")
    ctx.assumptions.append("the use_jsonclass=True proxy is exercised with replies that contain no __jsonclass__ key (C15/C16 own bean loading)")


def search(ctx):
    """An obligation broke or model and implementation differ, and no monitor fired: one exhaustive pass (the systematic
    product is seed-independent; the random part runs with its thorough budget) instead of three."""
    run(ctx)


def replay(payload):
    cls = {c.tag: c for c in clients()}
    case = payload.get("case") or {}
    cl = cls.get(case.get("config") or "jc-off", cls["jc-off"])
    via = case.get("via")
    rc = 0

    class _Ctx(object):
        def __init__(self):
            self.hits = []

        def violate(self, case, detail, key=None):
            self.hits.append((case.get("via"), detail))

    c = _Ctx()
    wire = case.get("wire")
    peers = None
    text = None
    kw = {}
    if wire:
        # the reply travels as the body of an HTTP response through the real transport
        body = bytes.fromhex(wire["body_hex"])
        text = body.decode("utf-8")
        peers = WirePeers()
        cl = WireClient(cl.tag, cl.cfg, wire["via"], wire["framing"], peers)
        print("reply body: %d bytes (raw UTF-8 JSON), delivered via %s, framing %s, read in pieces of %d bytes; multi-byte "
              "characters across a read boundary (char length, bytes before the cut, cut): %r"
              % (len(body), wire["via"], wire["framing"], wire.get("read_size", clientwire.READ), clientwire.straddles(body)[:5]))
        kw = {"extra": {"wire": wire}}
    try:
        if "batch" in case:
            print("replaying array reply %s via %s [%s]" % (_short(case["batch"]), via, cl.tag))
            drive_batch(c, cl, case["batch"], [], [], btext=text, **kw)
        else:
            reply = case.get("reply")
            print("replaying reply %s via %s [%s]" % (_short(reply), via, cl.tag))
            drive_reply(c, cl, reply, text if wire else json.dumps(reply), pyval.enc(reply), [], [], not wire, **kw)
            if isinstance(reply, dict) and via == "MultiCall-batch-object":
                mc = cl.J.MultiCall(cl.proxy(json.dumps(reply)), config=cl.cfg)
                mc.m()
                k4, v4 = impl.outcome(lambda: list(mc()))
                m = monitor(reply, k4, v4, "MultiCall (single object for the batch)")
                if m:
                    c.hits.append((via, m))
    finally:
        if peers is not None:
            peers.close()
    for v, m in c.hits:
        print("VIOLATION reproduced (%s): %s" % (v, m))
        rc = 1
    if not rc:
        print("no violation reproduced")
    return rc


def _short(v, limit=400):
    r = repr(v)
    return r if len(r) <= limit else r[:limit // 2] + " ... " + r[-limit // 2:]
