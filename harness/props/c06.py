"""
C06 — The client never swallows or mistypes a server-reported error.

Model   : lean/JRV/Model/Client.lean (checkForErrors, proxyResult, multicallGet)
Theorems: lean/JRV/Properties/C06.lean
Tie     : extracted range/raised classes (tools/extractors/client.py) + differential correspondence of
          check_for_errors, ServerProxy._request and MultiCall result access on the same reply objects.
Monitor : written from the property statement (independent of the model).
"""
import itertools
import json

import gen
import impl
import pyval

REQUIRED_THEOREMS = [
    "C06_error_raises", "C06_error_class", "C06_coded", "C06_message", "C06_range_int", "C06_range_nonnumeric",
    "C06_raw", "C06_single_entry", "C06_result_unchanged", "C06_multicall", "C06_appdata",
    "C06_batch_single_error", "C06_batch_array",
    "C06_gen_protoRange", "C06_gen_errorClasses",
]

LO, HI = -32700, -32000

CODES = [LO - 1, LO, LO + 1, LO + 0.5, LO - 0.5, float(LO), -32600, -32601, -32603, HI - 1, HI, HI + 1, HI + 0.5,
         float(HI), 0, 1, -1, True, False, "x", "-32600", None, [1], {"a": 1}, 2 ** 53, -(2 ** 53)]

MESSAGES = [("message", "m"), ("message", ""), ("message", None), ("trace", "t"), None, ("message+trace", None)]
DATAS = ["absent", None, 0, "d", [1, 2], {"k": "v"}]


def error_alphabet():
    """Error values that are not coded objects."""
    return [
        {"reason": "x"}, {"reason": None}, {"": ""}, {"message": "only message"}, {"message": "m", "data": 1},
        {"a": 1, "b": 2}, {"trace": "t"},
        "error", "error code here", "code", "x",
        5, -32600, 1.5, True,
        ["code"], ["x", "code"], [1, 2], [{"code": 1}],
    ]


FALSY_ERRORS = ["absent", None, 0, 0.0, "", [], {}, False]
RESULTS = ["absent", None, 0, 0.0, -0.0, False, True, "", "r", [], {}, [0], {"a": None}, 2 ** 53, 1e-320, "é"]
ENVELOPES = ["1.0", "2.0s", "2i", "2.0f"]


def envelope(kind, rid, result="absent", error="absent"):
    d = {}
    if kind == "2.0s":
        d["jsonrpc"] = "2.0"
    elif kind == "2i":
        d["jsonrpc"] = 2
    elif kind == "2.0f":
        d["jsonrpc"] = 2.0
    d["id"] = rid
    if kind == "1.0":
        # 1.0 envelopes carry all three members
        d["result"] = None if result == "absent" else result
        d["error"] = None if error == "absent" else error
    else:
        if result != "absent":
            d["result"] = result
        if error != "absent":
            d["error"] = error
    return d


def coded_error(code, msg, data):
    e = {"code": code}
    if msg is not None:
        if msg[0] == "message+trace":
            e["message"] = "m"
            e["trace"] = "t"
        else:
            e[msg[0]] = msg[1]
    if data != "absent":
        e["data"] = data
    return e


def systematic_cases():
    for env in ENVELOPES:
        for code, msg, data in itertools.product(CODES, MESSAGES, DATAS):
            yield ("coded", env, envelope(env, 1, error=coded_error(code, msg, data)))
        for e in error_alphabet():
            yield ("raw", env, envelope(env, "id", error=e))
            yield ("raw+result", env, envelope(env, 0, result=5, error=e))
        for r, fe in itertools.product(RESULTS, FALSY_ERRORS):
            yield ("result", env, envelope(env, 3, result=r, error=fe))


def odd_cases():
    """Outside the property's domain but inside the model: the correspondence still has to agree."""
    for j in ["3.0", 3, 2.5, "2.1", "1.0", 1, "abc", None, [], "2", "02.0", "2.", ".5", True]:
        yield ("odd-version", "odd", {"jsonrpc": j, "id": 1, "result": 1})
        yield ("odd-version", "odd", {"jsonrpc": j, "id": 1, "error": {"code": -32600, "message": "m"}})
    for v in [None, 0, "", [], {}, [1], "text", 7, True, {"id": 1}, {"jsonrpc": "2.0"}, {"jsonrpc": "2.0", "id": 1}]:
        yield ("odd-reply", "odd", v)


def random_case(rng):
    env = rng.choice(ENVELOPES)
    r = rng.random()
    if r < 0.35:
        code = rng.choice(CODES) if rng.random() < 0.5 else rng.randint(LO - 50, HI + 50)
        if rng.random() < 0.15:
            code = float(code) if isinstance(code, int) and not isinstance(code, bool) else code
        e = coded_error(code, rng.choice(MESSAGES), rng.choice(DATAS))
        for _ in range(rng.randint(0, 2)):
            e[rng.choice(gen.KEYS)] = gen.json_value(rng, 3, 2)
        return ("coded", env, envelope(env, gen.json_scalar(rng), error=e))
    if r < 0.6:
        e = gen.json_value(rng, 4, 3)
        res = rng.choice(RESULTS)
        return ("raw", env, envelope(env, gen.json_scalar(rng), result=res, error=e))
    res = gen.json_value(rng, 5, 3)
    return ("result", env, envelope(env, gen.json_scalar(rng), result=res, error=rng.choice(FALSY_ERRORS)))


def in_domain(reply):
    if not isinstance(reply, dict):
        return False
    if "jsonrpc" in reply:
        j = reply["jsonrpc"]
        if isinstance(j, bool) or not (j == "2.0" or (isinstance(j, (int, float)) and j == 2)):
            return False
    return True


def truthy(v):
    return bool(v)


def monitor(reply, kind, val, where):
    """The property statement, checked directly on the real outcome.  Returns a message or None."""
    if not in_domain(reply):
        return None
    err = reply.get("error")
    if "error" in reply and truthy(err):
        if kind != "err":
            return "%s returned %r for a reply with error %r" % (where, val, err)
        if not isinstance(val, jsonrpclib_ProtocolError()):
            return "%s raised %s (not a ProtocolError) for error %r" % (where, type(val).__name__, err)
        if isinstance(err, dict) and "code" in err:
            code = err["code"]
            numeric = isinstance(code, (int, float))
            in_range = numeric and LO <= code <= HI
            msg = err["message"] if "message" in err else err.get("trace", "<no error message>")
            if in_range:
                if type(val).__name__ != "ProtocolError" or val.args[0] != (code, msg):
                    return "%s: in-range code %r raised %s%r" % (where, code, type(val).__name__, val.args)
            else:
                if type(val).__name__ != "AppError" or val.args[0] != (code, msg, err.get("data")):
                    return "%s: code %r outside the range raised %s%r" % (where, code, type(val).__name__, val.args)
                if val.data() != err.get("data"):
                    return "%s: AppError.data() = %r, expected %r" % (where, val.data(), err.get("data"))
        return None
    if "result" in reply and where != "check_for_errors":
        if kind != "ok":
            return "%s raised %s for a reply with result %r and no error" % (where, type(val).__name__, reply["result"])
        exp = reply["result"]
        if type(val) is not type(exp) or json.dumps(val, sort_keys=True) != json.dumps(exp, sort_keys=True):
            return "%s returned %r instead of %r" % (where, val, exp)
    return None


def jsonrpclib_ProtocolError():
    return impl.jsonrpclib.jsonrpc.ProtocolError


def run(ctx):
    J = impl.jsonrpclib.jsonrpc
    cfg = impl.jsonrpclib.config.Config(version=2.0, use_jsonclass=False)
    ctx.rule = ("systematic cross product of envelope form x error alphabet x code boundary values x message/trace/data "
                "variants x falsy errors x result values, plus random replies; each reply goes through check_for_errors, "
                "ServerProxy._request (loopback transport) and MultiCall result access at a random batch position; "
                "distinct_nontrivial = distinct (kind, envelope, error shape, code class, outcome class) among replies that raise")
    cases = []
    sysc = list(systematic_cases()) + list(odd_cases())
    if ctx.thorough:
        cases.extend(sysc)
        ctx.exhaustive = not ctx.searching
    else:
        cases.extend(list(odd_cases()))
        pick = ctx.rng.sample(range(len(sysc)), min(len(sysc), 900))
        cases.extend(sysc[i] for i in sorted(pick))
        # boundary codes always
        for env in ENVELOPES:
            for code in (LO - 1, LO, HI, HI + 1, LO - 0.5, HI + 0.5, "x", None, True):
                cases.append(("coded", env, envelope(env, 1, error=coded_error(code, ("message", "m"), "absent"))))
            for e in error_alphabet():
                cases.append(("raw", env, envelope(env, 1, error=e)))
    for _ in range(ctx.budget(600, 20000)):
        cases.append(random_case(ctx.rng))

    lines = []
    impl_out = []
    for kind, env, reply in cases:
        text = json.dumps(reply)
        enc = pyval.enc(reply)
        # 1. check_for_errors
        k, v = impl.outcome(J.check_for_errors, json.loads(text))
        m = monitor(reply, k, v, "check_for_errors")
        if m:
            ctx.violate({"reply": reply, "via": "check_for_errors"}, m, key="check_for_errors:" + m[:60])
        lines.append("cfe " + enc)
        impl_out.append(impl.canon_outcome(k, v))
        # 2. through a real ServerProxy call
        tr = impl.LoopTransport(lambda body, t=text: t)
        proxy = J.ServerProxy("http://localhost/", transport=tr, config=cfg)
        k2, v2 = impl.outcome(proxy.some.method, 1, 2)
        m = monitor(reply, k2, v2, "ServerProxy call")
        if m:
            ctx.violate({"reply": reply, "via": "ServerProxy"}, m, key="proxy:" + m[:60])
        lines.append("proxy " + enc)
        impl_out.append(impl.canon_outcome(k2, v2))
        # 3. at a batch position of a MultiCall
        if isinstance(reply, dict):
            pos = ctx.rng.randint(0, 2)
            others = [{"jsonrpc": "2.0", "id": i, "result": i} for i in range(3)]
            batch = others[:pos] + [reply] + others[pos:]
            btext = json.dumps(batch)
            tr = impl.LoopTransport(lambda body, t=btext: t)
            proxy = J.ServerProxy("http://localhost/", transport=tr, config=cfg)
            mc = J.MultiCall(proxy, config=cfg)
            for _i in range(len(batch)):
                mc.m()
            results = mc()
            k3, v3 = impl.outcome(lambda: results[pos])
            m = monitor(reply, k3, v3, "MultiCall[%d]" % pos)
            if m:
                ctx.violate({"reply": reply, "via": "MultiCall", "position": pos}, m, key="multicall:" + m[:60])
            lines.append("mcget %d %s" % (pos, pyval.enc(batch)))
            impl_out.append(impl.canon_outcome(k3, v3))
        # 4. the same object as the server's answer to a WHOLE batch (e.g. its parse error)
        if isinstance(reply, dict):
            tr = impl.LoopTransport(lambda body, t=text: t)
            proxy = J.ServerProxy("http://localhost/", transport=tr, config=cfg)
            mc = J.MultiCall(proxy, config=cfg)
            mc.m()
            mc.n()
            k4, v4 = impl.outcome(lambda: list(mc()))
            if in_domain(reply) and "error" in reply and truthy(reply["error"]):
                m = monitor(reply, k4, v4, "MultiCall (single object for the batch)")
                if m:
                    ctx.violate({"reply": reply, "via": "MultiCall-batch-object"}, m, key="batchobject:" + m[:50])
            lines.append("mcrun " + enc)
            if k4 == "ok":
                # the results are the objects' "result" members; the model returns the reply objects
                impl_out.append("ok-len %d" % len(v4))
            else:
                impl_out.append(impl.canon_outcome(k4, v4))
        err = reply.get("error") if isinstance(reply, dict) else None
        code = err.get("code") if isinstance(err, dict) else None
        cclass = ("none" if not isinstance(err, dict) or "code" not in err else
                  type(code).__name__ + (":in" if isinstance(code, (int, float)) and LO <= code <= HI else ":out"))
        key = (kind, env, gen.shape(err), cclass, impl_out[-1].split(" ")[:2][-1]) if k == "err" else None
        ctx.count(case_repr={"kind": kind, "reply": reply, "check_for_errors": impl_out[-3 if isinstance(reply, dict) else -2]},
                  nontrivial_key=key, kind="%s/%s/%s" % (kind, env, "raise" if k == "err" else "return"))

    outs = ctx.lean(lines)
    unmodelled = 0
    for ln, mo, io in zip(lines, outs, impl_out):
        if mo.startswith("err Unmodelled"):
            unmodelled += 1
            continue
        cm = impl.canon_model_line(mo)
        if ln.startswith("mcrun ") and cm.startswith("ok ") and io.startswith("ok-len "):
            cm = "ok-len %d" % len(pyval.parse(cm[3:])[1])
        elif ln.startswith("mcrun ") and io.startswith("err") and cm.startswith("ok "):
            # iterating the single kept object raised in the result access (no "result" member etc.): the batch call
            # itself succeeded in the model; compare through the per-object component instead
            continue
        if cm != io:
            ctx.disagree(ln, io, cm, component=ln.split(" ")[0])
    ctx.traces_validated += len(lines) - unmodelled
    ctx.extra["unmodelled_cases"] = unmodelled
    ctx.assumptions.append("float(str) on the jsonrpc member is modelled for plain decimal literals only; other strings are declined by the model (counted as unmodelled_cases)")


def replay(payload):
    J = impl.jsonrpclib.jsonrpc
    case = payload.get("case") or {}
    reply = case.get("reply")
    print("replaying reply %r via %s" % (reply, case.get("via")))
    k, v = impl.outcome(J.check_for_errors, reply)
    m = monitor(reply, k, v, "check_for_errors")
    print("check_for_errors ->", k, repr(v))
    if m:
        print("VIOLATION reproduced:", m)
        return 1
    print("no violation through check_for_errors (see 'via' for the original path)")
    return 0
