"""
C07 — Objects survive dump/load wherever they occur, for every supported class shape.

Model   : lean/JRV/Model/JsonClass.lean (class environments, findFields, dump, load)
Theorems: lean/JRV/Properties/C07.lean
Tie     : extracted facts (recursive load call sites forwarding `classes`, `_slots_finder` shape, type tables)
          + differential correspondence of jsonclass.dump / jsonclass.load on generated "programs": class
          definitions built with exec/enum from the same description that is sent to the Lean driver as a
          class environment (harness/jcenv.py), instances with random supported values at random positions.
          A second stream varies ignore lists, handler tables and the configured names (the parts of the model
          that C20 is stated on).
Monitor : from the property statement: load(dump(obj)) has the same class and equal fields up to container
          normalisation — directly, and through a real ServerProxy <-> SimpleJSONRPCDispatcher exchange as a
          parameter and as a result, for both protocol versions: a positional call, a keyword call, a notification
          (parameter only) and a MultiCall batch (parameters and results, also a batched notification), with separate
          client and server configurations.  Locally registered classes (module `__main__`) are resolvable through
          Config.classes only (jcenv.Env.install does not make them attributes of the running `__main__`), and the name
          dump emits for them must be dot-free.
Classes : every flavour of enumeration (Enum, Flag, IntEnum, StrEnum, IntFlag; aliases, auto() values, unhashable values, flag
          combinations, the empty flag, named combinations) and every notation `str` of a Decimal can produce (infinities, quiet
          and signalling NaNs with payloads, negative zero, exponents), at the top level and nested in beans and containers;
          members of enumerations derived from a primitive type are "transmitted as that primitive" (judged by the monitor only,
          the model has no such class).  ADVERSARIAL enumerations (jcenv.gen_adversarial_enum_spec, histogram keys
          `enum-adversarial/<pattern>/<collision>`): plain Enums whose values are names of other members or of their aliases,
          `str`/`repr` of other members, positions of other members (ints, digits), attribute names of the class, numbers equal
          across types, and containers holding such things — the only correct reading of the transmitted `[value]` is "the member
          with this value"; each direction (dump→load, parameter, result) is judged on its own, a double swap cannot hide.  The class table in force is built by a *program* on a real LocalClasses object
          (jcenv.registry_program: stale definitions and other classes registered under the name first, re-registrations,
          removals, aliases, clear(), explicit / empty / omitted names, direct stores), compared with `LocalClasses.run`
          (component `jcregistry`), handed to jsonclass.load as `classes=` and installed in Config.classes of both peers.
          Run-time ties that no extractor is involved in: `utils.ITERABLE_TYPES` / `PRIMITIVE_TYPES` / `jsonclass.SUPPORTED_TYPES`
          of the code under test against the model's tables (`jctables`); `utils.is_enum` / `utils.is_decimal` /
          `isinstance(·, PRIMITIVE_TYPES)` on instances of every class of every environment against the kind the model is told;
          `str(Decimal(s)) == s` against `canonDecimal` on a battery of literals (`jccanondec`).
Domain  : the remote-call clause is checked for values whose enum members have plain JSON values and whose objects with
          a serialisation method have plain JSON constructor arguments (jcenv.plain_json_args): dump emits an enum
          value and what a serialisation method returns as they are, so JSON turns a tuple into a list (not a value of
          the enumeration any more) and refuses a set or a Decimal.  Such values are generated, go through the direct
          round trip, and their RPC outcome is recorded in the histogram (`rpc-outside-domain/...`), not judged.
"""
import copy
import decimal
import enum
import json

import gen
import impl
import jcenv
import pyval

import jsonrpclib.jsonclass as JC
from jsonrpclib.SimpleJSONRPCServer import SimpleJSONRPCDispatcher

REQUIRED_THEOREMS = [
    "C07_roundtrip", "C07_local_classes", "C07_local_resolves", "C07_rpc_param", "C07_rpc_result",
    "C07_gen_loadCalls", "C07_gen_slotsFinder", "C07_gen_typeTables", "C07_gen_useJsonclassGates",
    "C07_gen_configCallSites",
    "C07_registry_lookup", "C07_registry_last_registration_wins", "C07_registered_roundtrip",
]


def string_keys_deep(v, env, seen=None):
    if isinstance(v, dict):
        return all(type(k) is str for k in v) and all(string_keys_deep(x, env) for x in v.values())
    if isinstance(v, (list, tuple, set, frozenset)):
        return all(string_keys_deep(x, env) for x in v)
    if type(v) in env.ids and env.by_id[env.ids[type(v)]]["kind"] in ("bean", "serial"):
        return all(string_keys_deep(x, env) for _n, x in env.stored(v))
    return True


def has_obj(v, env):
    if isinstance(v, dict):
        return any(has_obj(x, env) for x in v.values())
    if isinstance(v, (list, tuple, set, frozenset)):
        return any(has_obj(x, env) for x in v)
    return env.hook(v) is not None


def has_multiset(v, env):
    if isinstance(v, (set, frozenset)):
        return len(v) > 1 or any(has_multiset(x, env) for x in v)
    if isinstance(v, (list, tuple)):
        return any(has_multiset(x, env) for x in v)
    if isinstance(v, dict):
        return any(has_multiset(x, env) for x in v.values())
    if type(v) in env.ids and env.by_id[env.ids[type(v)]]["kind"] in ("bean", "serial"):
        return any(has_multiset(x, env) for _n, x in env.stored(v))
    return False


def sort_lists(tr):
    tag = tr[0]
    if tag in ("L", "U", "E", "Z"):
        return ("L", sorted((sort_lists(x) for x in tr[1]), key=lambda t: pyval.emit(t, True)))
    if tag == "M":
        return ("M", [(k, sort_lists(x)) for k, x in tr[1]])
    if tag == "O":
        return ("O", tr[1], [(n, sort_lists(x)) for n, x in tr[2]])
    return tr


def loose(line):
    if line.startswith("ok "):
        return "ok " + pyval.emit(sort_lists(pyval.parse(line[3:])), True)
    return line


def describe(v, env, depth=0):
    """Coarse description of where instances sit (for the distinct-case count)."""
    if isinstance(v, dict):
        return "{" + ",".join(sorted(set(describe(x, env, depth + 1) for x in v.values()))) + "}"
    if isinstance(v, (list, tuple, set, frozenset)):
        return type(v).__name__[0] + "(" + ",".join(sorted(set(describe(x, env, depth + 1) for x in v))) + ")"
    h = env.hook(v)
    if h is None:
        return "p"
    s = env.by_id[h[0]]
    kind = s["kind"] if s["kind"] != "enum" else "enum:%s:%s" % (s.get("flavour", "Enum"), jcenv.enum_member_class(v))
    if s.get("pattern"):
        kind = "enum:adversarial:%s:%s" % (s["pattern"], jcenv.adversarial_member_class(v))
    if s["kind"] == "decimal":
        kind = "decimal:" + jcenv.decimal_class(v)
    shape = "%s/%s/d%d/%s" % (kind, "slots" if s["slots"] is not None else "dict", len(s["bases"]),
                              "local" if s["module"] == "__main__" else "mod")
    if s["kind"] in ("bean", "serial") and depth < 2:
        inner = sorted(set(describe(x, env, depth + 1) for _n, x in env.stored(v)))
        return shape + "[" + ",".join(i for i in inner if i != "p") + "]"
    return shape


def registry_targets(env, mode):
    """The classes to register in Config.classes.  mode 'locals': every __main__ class; 'all': every user class."""
    return [s["id"] for s in env.specs if s["kind"] != "decimal" and (s["module"] == "__main__" or mode == "all")]


def walk(v, env, depth=0):
    """Every node of the object graph (containers, stored attributes of bean / serial instances)."""
    yield v
    if depth > 8:
        return
    if isinstance(v, dict):
        kids = list(v.values())
    elif isinstance(v, (list, tuple, set, frozenset)):
        kids = list(v)
    elif type(v) in env.ids and env.by_id[env.ids[type(v)]]["kind"] in ("bean", "serial"):
        kids = [x for _n, x in env.stored(v)]
    else:
        kids = []
    for x in kids:
        for y in walk(x, env, depth + 1):
            yield y


def has_prim_member(v, env):
    """Does the value hold a member of an enumeration derived from a primitive type (outside the model's class universe)?"""
    return any(env.prim_base(n) is not None for n in walk(v, env))


def note_specials(ctx, v, env):
    """Distribution of the scalar-like classes the translator singles out."""
    for n in walk(v, env):
        if type(n) is decimal.Decimal:
            ctx.hist["decimal/" + jcenv.decimal_class(n)] += 1
        elif isinstance(n, enum.Enum) and type(n) in env.ids:
            ctx.hist["enum/%s/%s" % (env.by_id[env.ids[type(n)]].get("flavour", "Enum"), jcenv.enum_member_class(n))] += 1
            pattern = env.by_id[env.ids[type(n)]].get("pattern")
            if pattern:
                ctx.hist["enum-adversarial/%s/%s" % (pattern, jcenv.adversarial_member_class(n))] += 1


# ---- run-time ties in which no extractor is involved ----------------------------------------------------------------------

def real_type_tables():
    """The type tables of the code under test, as sorted lists of type names (the order inside an isinstance tuple is
    immaterial)."""
    U = impl.jsonrpclib.utils

    def names(ts):
        return sorted(t.__name__ for t in ts)

    return [names(U.ITERABLE_TYPES), names(U.PRIMITIVE_TYPES), names(JC.SUPPORTED_TYPES)]


def check_type_tables(ctx, model_line):
    try:
        model = [sorted(x) for x in pyval.from_tree(pyval.parse(model_line))]
    except Exception:  # noqa: BLE001
        model = model_line
    real = real_type_tables()
    U = impl.jsonrpclib.utils
    single = [U.DictType.__name__, U.ListType.__name__, U.TupleType.__name__, sorted(t.__name__ for t in U.STRING_TYPES),
              sorted(t.__name__ for t in U.NUMERIC_TYPES), sorted(t.__name__ for t in U.VALUE_TYPES)]
    # what the model's `load` / `dump` match on: dict, list, tuple; str+bytes, int+float, bool+None
    single_model = ["dict", "list", "tuple", ["bytes", "str"], ["float", "int"], ["NoneType", "bool"]]
    if model != real or single != single_model:
        ctx.disagree("jctables: utils.ITERABLE_TYPES / PRIMITIVE_TYPES / jsonclass.SUPPORTED_TYPES; DictType, ListType, TupleType, "
                     "STRING_TYPES, NUMERIC_TYPES, VALUE_TYPES", repr([real, single]), repr([model, single_model]),
                     component="type-tables")
    ctx.traces_validated += 1
    ctx.hist["tie/type-tables"] += 1


DECIMAL_LITERALS = jcenv.DECIMALS + [
    "1.00E+2", "10E+1", "0.0000001", "0.0000000", "0.000000", "+1", "1e5", "1E5", "1E+05", "1E+5", "Inf", "infinity", "nan",
    "NaN0", "NaN007", "sNaN0", "sNaN12", " 1", "1 ", "1_0", "\u0661", "1.", ".5", "-", "", "1E+0", "1E-6", "1E-7", "1.0E-7",
    "1.0E-6", "0E-6", "0E-7", "00", "01.5", "1.5E+1", "1.5E+2", "1.50E+2", "1.50E+3", "12E+3", "0.1E+3", "--1", "NaN-1", "1E+1",
    "0E+0", "0E+1", "0E-1", "0.0", "-0.0", "0.10", "100.00", "1E+", "E+1", "1.E+5", "1.5E+", "1.5E-07", "Infinity1", "-Inf",
    "NaNx", "sNaN-", "1.5E-7x", "1E+10000", "9E-7", "0.00001", "0.000001", "0.0000012", "0.00000120", "1.20E-6",
]


def decimal_literals(rng, n):
    """Literals near the boundary between what `str` of a Decimal writes and what it does not."""
    out = list(DECIMAL_LITERALS)
    for _ in range(n):
        digits = "".join(rng.choice("0123456789") for _ in range(rng.randint(1, 6)))
        exp = rng.choice([0, 0, -1, -2, -5, -6, -7, -8, -9, 1, 2, 5, 30, -30]) + rng.randint(-2, 2)
        try:
            d = decimal.Decimal((rng.randint(0, 1), tuple(int(c) for c in digits), exp))
        except decimal.InvalidOperation:
            continue
        out.append(str(d))  # canonical by construction
        # and a near miss: another spelling of the same number
        out.append(rng.choice(["%sE%+d" % (digits, exp), "%s.0E%+d" % (digits, exp), "0" + str(d), str(d).replace("E+", "E"),
                               str(d).lower(), str(d) + "0" if "." in str(d) and "E" not in str(d) else str(d) + "E+0"]))
    return out


def python_canonical(s):
    try:
        return str(decimal.Decimal(s)) == s
    except (decimal.InvalidOperation, ValueError, TypeError):
        return False


def check_predicates(ctx, env, rng):
    """utils.is_enum / utils.is_decimal / isinstance(·, PRIMITIVE_TYPES) of the code under test on instances of every class
    of the environment, against the kind the model is told for that class (jcenv.Env.lean_classes)."""
    U = impl.jsonrpclib.utils
    vg = jcenv.ValueGen(rng, gen, env)
    for s in env.specs:
        c = env.cls[s["id"]]
        if s["kind"] == "decimal":
            samples = [decimal.Decimal(x) for x in jcenv.DECIMALS]
        elif s["kind"] == "enum":
            samples = [c[n] for n, _v in s["members"]] + [vg.enum_member(s["id"]) for _ in range(4)]
        elif s["kind"] in ("bean", "serial"):
            samples = [vg.instance(0, s["id"])]
        else:
            continue
        want = (s["kind"] == "enum", s["kind"] == "decimal", s.get("flavour") in jcenv.PRIM_FLAVOURS)
        for x in samples:
            got = (bool(U.is_enum(x)), bool(U.is_decimal(x)), isinstance(x, U.PRIMITIVE_TYPES))
            if got != want:
                ctx.disagree("utils.is_enum / utils.is_decimal / isinstance(PRIMITIVE_TYPES) on %r (class %s, %s%s)"
                             % (x, s["name"], s["kind"], ":" + s["flavour"] if s.get("flavour") else ""),
                             repr(got), repr(want), component="predicates")
            ctx.traces_validated += 1
        ctx.hist["tie/predicates/%s" % (s["kind"] if s["kind"] != "enum" else "enum:" + s.get("flavour", "Enum"))] += len(samples)


RPC_MODES = ["positional", "keyword", "notify", "multicall"]


def rpc_roundtrip(env, ops, version, v, mode="positional", server_version=None):
    """Sends v to an echo method of a real dispatcher through a real ServerProxy (separate client and server
    configurations, each with the class table built by the registry program `ops` on its own Config.classes) and gets it
    back.  -> ((kind, exception | None), received parameters [..], results [..])"""
    J = impl.jsonrpclib.jsonrpc
    cfg_c = impl.jsonrpclib.config.Config(version=version)
    cfg_s = impl.jsonrpclib.config.Config(version=server_version or version)
    jcenv.registry_apply(env, cfg_c.classes, ops)
    jcenv.registry_apply(env, cfg_s.classes, ops)
    disp = SimpleJSONRPCDispatcher(config=cfg_s)
    received = []

    def echo(*args, **kwargs):
        x = kwargs["x"] if kwargs else args[0]
        received.append(x)
        return x

    disp.register_function(echo, "echo")
    tr = impl.LoopTransport(lambda body: disp._marshaled_dispatch(body))
    proxy = J.ServerProxy("http://localhost/", transport=tr, config=cfg_c, version=version)
    results = []

    def go():
        if mode == "positional":
            results.append(proxy.echo(v))
        elif mode == "keyword":
            results.append(proxy.echo(x=v))
        elif mode == "notify":
            proxy._notify.echo(v)
        else:
            mc = J.MultiCall(proxy, config=cfg_c)
            mc.echo(v)
            mc._notify.echo(v)
            mc.echo(x=v)
            results.extend(list(mc()))

    k, res = impl.outcome(go)
    return (k, res), received, results


def rpc_expected(mode):
    """(number of parameters the method must have received, number of results the caller must get)"""
    return {"positional": (1, 1), "keyword": (1, 1), "notify": (1, 0), "multicall": (3, 2)}[mode]


def rpc_verdict(env, v, outcome, received, results, mode):
    """None or a description of the first difference (from the statement: identically as a parameter and as a result)."""
    k, res = outcome
    if k == "err":
        return "raised %s: %s" % (type(res).__name__, res)
    n_recv, n_res = rpc_expected(mode)
    if len(received) != n_recv:
        return "the remote method received %d parameter(s) instead of %d" % (len(received), n_recv)
    if len(results) != n_res:
        return "the caller got %d result(s) instead of %d" % (len(results), n_res)
    for i, x in enumerate(received):
        m = jcenv.same(v, x, env, "parameter#%d" % i)
        if m:
            return m
    for i, x in enumerate(results):
        m = jcenv.same(v, x, env, "result#%d" % i)
        if m:
            return m
    return None


def local_names_dotfree(d, env, acc=None):
    """Names dump wrote for classes of `__main__` (locally registered ones) that contain a dot."""
    acc = [] if acc is None else acc
    local = set(s["name"] for s in env.specs if s["module"] == "__main__")
    if isinstance(d, dict):
        j = d.get("__jsonclass__")
        if isinstance(j, list) and j and isinstance(j[0], str) and "." in j[0] and j[0].rsplit(".", 1)[1] in local \
                and j[0].rsplit(".", 1)[0] == "__main__":
            acc.append(j[0])
        for x in d.values():
            local_names_dotfree(x, env, acc)
    elif isinstance(d, (list, tuple)):
        for x in d:
            local_names_dotfree(x, env, acc)
    return acc


def run(ctx):
    ctx.rule = ("programs = random class hierarchies (3-7 classes + an enum + Decimal; slots/dict mixed, depth 0-3, "
                "public/protected/name-mangled names, serialisation methods with list or dict constructor arguments, module-"
                "qualified or locally registered) x instances with random supported values at random positions; each goes "
                "through dump, load(dump) and (string-keyed ones) a ServerProxy<->dispatcher echo in both protocol versions; "
                "distinct_nontrivial = distinct (placement of class shapes in the value, outcome class)")
    n_envs = ctx.budget(60, 240)
    per_env = ctx.budget(45, 130)
    lines = []
    expect = []
    rpc_runs = 0
    # run-time ties (no extractor involved): the type tables, and the fixed points of str(Decimal(.))
    lines.append("jctables")
    expect.append(("tables", False, None))
    for lit in decimal_literals(ctx.derive_rng("decimal-literals"), ctx.budget(150, 1500)):
        lines.append("jccanondec " + pyval.enc(lit))
        expect.append(("canondec", False, lit))
    for e in range(n_envs):
        tag = "e%d" % e
        custom = (e % 3 == 2)  # every third environment exercises ignore lists / handlers / configured names
        names = ctx.rng.choice([("_serialize", "_ignore"), ("to_json", "_skip")]) if custom else ("_serialize", "_ignore")
        method = names[0] if ctx.rng.random() < 0.8 else "_serialize"
        specs = jcenv.gen_specs(ctx.rng, gen, tag, ignore_attr=names[1], method=method,
                                with_ignore=0.5 if custom else 0.0,
                                local_ratio=ctx.rng.choice([0.0, 0.35, 0.35, 1.0]), flavours=True, adversarial=0.8)
        env = jcenv.Env(specs).install()
        try:
            _run_env(ctx, env, custom, names, per_env, lines, expect)
        finally:
            env.uninstall()
    outs = ctx.lean(lines)
    unmodelled = 0
    for ln, mo, (what, loose_cmp, exp) in zip(lines, outs, expect):
        if "err Unmodelled" in mo:
            unmodelled += 1
            continue
        if what == "tables":
            check_type_tables(ctx, mo)
        elif what == "canondec":
            real = python_canonical(exp)
            if mo not in ("T", "F") or (mo == "T") != real:
                ctx.disagree("jccanondec %r" % exp, "str(Decimal(s)) == s is %r" % real, mo, component="jccanondec")
            ctx.hist["tie/decimal-literal/%s" % ("fixed-point" if real else "other")] += 1
        elif what == "registry":
            if pyval.canon(mo) != pyval.canon(exp) or mo.split() != exp.split():
                ctx.disagree(ln[-700:], exp[:500], mo[:500], component="jcregistry")
        elif what == "dump":
            cm = impl.canon_model_line(mo, keep_arg=())
            if loose_cmp:
                cm, exp = loose(cm), loose(exp)
            if exp == "err *" and cm.startswith("err "):
                cm = exp
            if cm != exp:
                ctx.disagree(ln[-700:], exp[:500], cm[:500], component="jcdump")
        else:
            parts = mo.split(" | ")
            if len(parts) != 3:
                ctx.disagree(ln[-700:], exp[:500], mo[:500], component="jcload")
                continue
            cm = impl.canon_model_line(parts[0], keep_arg=())
            if cm != exp:
                ctx.disagree(ln[-700:], exp[:500], cm[:500], component="jcload")
    ctx.traces_validated += len(lines) - unmodelled
    ctx.extra["unmodelled_cases"] = unmodelled
    ctx.assumptions.append("Python's attribute model (__dict__, __slots__, name mangling), __import__/getattr and "
                           "inspect.getmodule are represented by the class environment handed to the model; the real classes "
                           "are generated from the same description (harness/jcenv.py)")
    ctx.assumptions.append("C07_rpc_param / C07_rpc_result are stated on the request / response dictionaries (Payload.dump, "
                           "Payload.load with the class translator); the JSON text in between, MultiCall, keyword calls and "
                           "notifications are covered by the monitor (ServerProxy <-> SimpleJSONRPCDispatcher, both versions)")
    ctx.assumptions.append("declared restriction of the domain (shapeOk in C07.lean, jcenv.plain_json_args for the remote-call "
                           "monitor): enum member values and the constructor arguments / attributes returned by a serialisation "
                           "method are plain JSON values — dump emits them as they are, so a tuple-valued enum member or a set / "
                           "Decimal constructor argument survives load(dump()) but not the JSON encoding of a remote call "
                           "(%d generated values outside this restriction; their RPC outcomes are in the histogram)"
                           % ctx.extra.get("rpc_outside_domain", 0))
    ctx.assumptions.append("classes of module __main__ are resolvable through Config.classes only (the running __main__ does not "
                           "define them), as in a receiving process with its own __main__")
    ctx.assumptions.append("scope decision: 'classes registered in the configuration's local class table' means registered by the "
                           "program through LocalClasses.add / item assignment, the last registration under a name being the one in "
                           "force (C07_registry_lookup); an object whose class was displaced from its name by a later registration of "
                           "another class is outside the domain (%d generated cases, not judged)" % ctx.extra.get("registry_displaced", 0))
    ctx.assumptions.append("members of enumerations derived from a primitive type (IntEnum, StrEnum, IntFlag) are outside the class "
                           "universe of the model (the property excludes them: 'transmitted as that primitive'); values holding one "
                           "(%d) are judged by the monitor alone: the member itself comes back from load(dump()), the plain int / str "
                           "with its value from a remote call" % ctx.extra.get("prim_enum_monitor_only", 0))


def _run_env(ctx, env, custom, names, per_env, lines, expect):
    rng = ctx.rng
    world = env.enc(env.world())
    lean_env = env.enc(env.lean_classes())
    has_local = any(s["module"] == "__main__" for s in env.specs)
    specs_text = jcenv.specs_enc(env.specs)
    check_predicates(ctx, env, rng)
    LocalClasses = impl.jsonrpclib.config.LocalClasses
    for i in range(per_env):
        vg = jcenv.ValueGen(rng, gen, env)
        top = rng.random()
        if top < 0.45:
            v = vg.instance(3)
        elif top < 0.9:
            v = vg.value(3)
        else:
            v = [vg.instance(2), {"k": vg.instance(1)}, (vg.instance(1),)]
        mode = "all" if rng.random() < 0.15 else "locals"
        # the class table in force: built by a program on a real LocalClasses object
        targets = registry_targets(env, mode)
        plain = rng.random() < 0.35
        ops = jcenv.registry_program(rng, env, targets, plain)
        table = jcenv.registry_apply(env, LocalClasses(), ops)
        displaced = jcenv.registry_displaced(env, ops, targets)
        ctx.hist["registry/%s" % ("plain" if plain else ("displaced" if displaced else "program"))] += 1
        lines.append("jcregistry L0 " + pyval.enc(jcenv.registry_lean(env, ops)))
        expect.append(("registry", False, pyval.enc(jcenv.registry_view(env, table))))
        in_domain = vg.in_domain and (has_obj(v, env))
        if displaced:
            # a later registration gave the name of a class to another class: objects of the displaced class are not
            # "registered in the local class table" any more
            in_domain = False
            ctx.extra["registry_displaced"] = ctx.extra.get("registry_displaced", 0) + 1
        prim = has_prim_member(v, env)
        if prim:
            ctx.extra["prim_enum_monitor_only"] = ctx.extra.get("prim_enum_monitor_only", 0) + 1
        note_specials(ctx, v, env)
        handlers = []
        sm_arg = ia_arg = ig_arg = None
        cfg = impl.jsonrpclib.config.Config()
        if custom:
            in_domain = False
            cfg = impl.jsonrpclib.config.Config(serialize_method=names[0], ignore_attribute=names[1])
            hf = jcenv.handler_functions(env)
            if rng.random() < 0.6:
                tags = list(jcenv.BUILTIN_TYPES) + [s["id"] for s in env.specs]
                for t in rng.sample(tags, rng.randint(1, 3)):
                    hid = rng.choice([0, 1, 1, 2, 3, None])
                    handlers.append((t, hid))
                    pytype = jcenv.BUILTIN_TYPES.get(t) or env.cls[t]
                    cfg.serialize_handlers[pytype] = None if hid is None else hf[hid]
            if rng.random() < 0.3:
                sm_arg = rng.choice(["", "_serialize", "to_json", "other_m"])
            if rng.random() < 0.3:
                ia_arg = rng.choice(["", "_ignore", "_skip"])
            if rng.random() < 0.5:
                pool = ["pub", "_prot", "x", "_y", "data", 1, None, True, 2.5, "", (1, 2), "extra_0"]
                ig_arg = rng.sample(pool, rng.randint(0, 4))
                if rng.random() < 0.05:
                    ig_arg.append([1])  # unhashable entry
            # an instance-level ignore list now and then
            if rng.random() < 0.2 and type(v) in env.ids and hasattr(v, "__dict__") and \
                    env.by_id[env.ids[type(v)]]["kind"] == "bean":
                pool_i = [n for n, _x in env.stored(v)] + ["zz"]
                setattr(v, names[1], rng.sample(pool_i, rng.randint(0, min(2, len(pool_i)))))
        try:
            vtext = env.enc(v)
        except pyval.Unencodable:
            continue
        before = env.enc(v, canon=True)
        vrepr = repr(v)[:300]
        k, d = impl.outcome(JC.dump, v, sm_arg, ia_arg, copy.deepcopy(ig_arg) if ig_arg is not None else None, cfg)
        case = {"env": [s["id"] + ":" + s["kind"] for s in env.specs],
                "value_enc": vtext, "value": vrepr, "classes": sorted(table), "specs_enc": specs_text, "registry": ops}
        if env.enc(v, canon=True) != before:
            ctx.violate(case, "dump modified its argument", key="dump-mutates")
        try:
            dexp = impl.canon_outcome(k, d, env.hook, keep_arg=())
        except pyval.Unencodable:
            continue
        if not prim:
            lines.append("jcdump %s %s %s %s" % (pyval.enc(jcenv.lean_cfg(cfg.serialize_method, cfg.ignore_attribute, handlers)),
                                                 lean_env, pyval.enc([sm_arg, ia_arg, ig_arg]), vtext))
            # a raising handler and an unset slot in the same value: which one is met first depends on the iteration
            # order of a Python set (the field names); only "raises" is compared then
            multi_raise = any(h == 2 for _t, h in handlers)
            expect.append(("dump", has_multiset(v, env), dexp if not (multi_raise and k == "err") else "err *"))
        outcome = "dump:" + (type(d).__name__ if k == "err" else "ok")
        if k == "err":
            if in_domain:
                ctx.violate(case, "dump raised %s: %s" % (type(d).__name__, d), key="dump-raises:" + type(d).__name__)
        else:
            try:
                dtext = env.enc(d)
            except pyval.Unencodable:
                dtext = None
            k2, r = impl.outcome(JC.load, copy.deepcopy(d), table)
            outcome = "load:" + (type(r).__name__ if k2 == "err" else "ok")
            if dtext is not None and not prim:
                try:
                    lexp = impl.canon_outcome(k2, r, env.hook, keep_arg=())
                    ctab = pyval.enc(jcenv.registry_view(env, table))
                    lines.append("jcload %s %s %s" % (ctab, world, dtext))
                    expect.append(("load", False, lexp))
                except pyval.Unencodable:
                    pass
            if in_domain:
                if k2 == "err":
                    ctx.violate(dict(case, via="direct"), "load(dump(obj)) raised %s: %s" % (type(r).__name__, r),
                                key="load-raises:" + type(r).__name__)
                else:
                    m = jcenv.same(v, r, env)
                    if m:
                        ctx.violate(dict(case, via="direct"), "load(dump(obj)) differs: " + m, key="roundtrip-differs")
            if in_domain and table:
                bad = local_names_dotfree(d, env)
                if bad:
                    ctx.violate(dict(case, via="direct"), "dump names the locally registered class %r with a module path: the local "
                                "class table cannot resolve it" % bad[0], key="local-class-qualified")
            # through a remote call, as a parameter and as a result
            if in_domain and string_keys_deep(v, env) and (i % 2 == 0 or ctx.thorough):
                judged = jcenv.plain_json_args(v, env)
                if not judged:
                    ctx.extra["rpc_outside_domain"] = ctx.extra.get("rpc_outside_domain", 0) + 1
                extra_mode = RPC_MODES[1 + (i // 2) % 3]
                for version in (1.0, 2.0):
                    for mode in ("positional", extra_mode):
                        sv = version if (i // 2) % 4 else (3.0 - version)  # now and then the server speaks the other version
                        outcome3, received, results = rpc_roundtrip(env, ops, version, v, mode, sv)
                        via = "rpc %.1f %s" % (version, mode)
                        m = rpc_verdict(env, v, outcome3, received, results, mode)
                        if not judged:
                            ctx.hist["rpc-outside-domain/%s/%s" % (mode, "ok" if m is None else m.split(":")[0][:40])] += 1
                            continue
                        if m:
                            ctx.violate(dict(case, via=via, version=version, mode=mode, server_version=sv),
                                        "remote %s call: %s" % (mode, m),
                                        key=("rpc-raises:" + type(outcome3[1]).__name__) if outcome3[0] == "err" else "rpc-differs:" + mode)
                        ctx.count(kind="rpc/%s/%s/%s" % (version, mode, outcome3[0]))
        ctx.count(case_repr={"value": vrepr, "dump": repr(d)[:300]} if i < 2 else None,
                  nontrivial_key=(describe(v, env), outcome) if has_obj(v, env) else None,
                  kind="%s/%s/%s" % ("custom" if custom else ("in-domain" if in_domain else "out-of-domain"),
                                     type(v).__name__ if env.hook(v) is None else env.by_id[env.hook(v)[0]]["kind"], outcome))


def replay(payload):
    case = payload.get("case") or {}
    print("replaying: value %s\nclasses table %s via %s" % (case.get("value"), case.get("classes"), case.get("via")))
    if not case.get("specs_enc"):
        return 0
    specs = jcenv.specs_dec(case["specs_enc"])
    env = jcenv.Env(specs).install()
    try:
        def mk(cls, fields):
            s = env.by_id[cls]
            c = env.cls[cls]
            fd = dict(fields)
            if s["kind"] == "decimal":
                return c(fd["str"])
            if s["kind"] == "enum":
                try:
                    return c[fd["name"]]
                except KeyError:
                    return c(fd["value"])  # a combination of flags, the empty flag
            inst = c.__new__(c)
            for n, x in fields:
                setattr(inst, n, x)
            return inst

        v = pyval.from_tree(pyval.parse(case["value_enc"]), mk)
        ops = case.get("registry")
        if ops is None:
            ops = [["add", s["id"], None] for s in env.specs if s["name"] in (case.get("classes") or [])]
        print("registry program:", ops)
        table = jcenv.registry_apply(env, impl.jsonrpclib.config.LocalClasses(), ops)
        print("Config.classes ->", jcenv.registry_view(env, table))
        via = case.get("via", "direct")
        if via.startswith("rpc"):
            mode = case.get("mode", "positional")
            outcome3, received, results = rpc_roundtrip(env, ops, case.get("version", 2.0), v, mode, case.get("server_version"))
            print("remote %s call ->" % mode, outcome3[0], repr(outcome3[1])[:300], "received", repr(received)[:300],
                  "results", repr(results)[:300])
            m = rpc_verdict(env, v, outcome3, received, results, mode)
        else:
            k, d = impl.outcome(JC.dump, v)
            print("dump ->", k, repr(d)[:400])
            if k == "err":
                m = "dump raised"
            else:
                k2, r = impl.outcome(JC.load, d, table)
                print("load ->", k2, repr(r)[:300])
                m = "load raised" if k2 == "err" else (jcenv.same(v, r, env) or
                                                        ("local class named %r" % local_names_dotfree(d, env)[0]
                                                         if table and local_names_dotfree(d, env) else None))
        if m:
            print("VIOLATION reproduced:", m)
            return 1
        print("no violation")
        return 0
    finally:
        env.uninstall()
