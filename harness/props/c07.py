"""
C07 — Objects survive dump/load wherever they occur, for every supported class shape.

Model   : lean/JRV/Model/JsonClass.lean (class environments, findFields, dump, load)
Theorems: lean/JRV/Properties/C07.lean
Tie     : extracted facts (recursive load call sites forwarding `classes`, `_slots_finder` shape, type tables)
          + differential correspondence of jsonclass.dump / jsonclass.load on generated "programs": class
          definitions built with exec/enum from the same description that is sent to the Lean driver as a
          class environment (harness/jcenv.py), instances with random supported values at random positions.
          A second stream varies ignore lists, handler tables and the configured names (the parts of the model
          that C20 is stated on).
Monitor : from the property statement: load(dump(obj)) has the same class and equal fields up to container
          normalisation — directly, and through a real ServerProxy <-> SimpleJSONRPCDispatcher exchange as a
          parameter and as a result, for both protocol versions: a positional call, a keyword call, a notification
          (parameter only) and a MultiCall batch (parameters and results, also a batched notification), with separate
          client and server configurations.  Locally registered classes (module `__main__`) are resolvable through
          Config.classes only (jcenv.Env.install does not make them attributes of the running `__main__`), and the name
          dump emits for them must be dot-free.
Domain  : the remote-call clause is checked for values whose enum members have plain JSON values and whose objects with
          a serialisation method have plain JSON constructor arguments (jcenv.plain_json_args): dump emits an enum
          value and what a serialisation method returns as they are, so JSON turns a tuple into a list (not a value of
          the enumeration any more) and refuses a set or a Decimal.  Such values are generated, go through the direct
          round trip, and their RPC outcome is recorded in the histogram (`rpc-outside-domain/...`), not judged.
"""
import copy
import json

import gen
import impl
import jcenv
import pyval

import jsonrpclib.jsonclass as JC
from jsonrpclib.SimpleJSONRPCServer import SimpleJSONRPCDispatcher

REQUIRED_THEOREMS = [
    "C07_roundtrip", "C07_local_classes", "C07_local_resolves", "C07_rpc_param", "C07_rpc_result",
    "C07_gen_loadCalls", "C07_gen_slotsFinder", "C07_gen_typeTables", "C07_gen_useJsonclassGates",
    "C07_gen_configCallSites",
]


def string_keys_deep(v, env, seen=None):
    if isinstance(v, dict):
        return all(type(k) is str for k in v) and all(string_keys_deep(x, env) for x in v.values())
    if isinstance(v, (list, tuple, set, frozenset)):
        return all(string_keys_deep(x, env) for x in v)
    if type(v) in env.ids and env.by_id[env.ids[type(v)]]["kind"] in ("bean", "serial"):
        return all(string_keys_deep(x, env) for _n, x in env.stored(v))
    return True


def has_obj(v, env):
    if isinstance(v, dict):
        return any(has_obj(x, env) for x in v.values())
    if isinstance(v, (list, tuple, set, frozenset)):
        return any(has_obj(x, env) for x in v)
    return env.hook(v) is not None


def has_multiset(v, env):
    if isinstance(v, (set, frozenset)):
        return len(v) > 1 or any(has_multiset(x, env) for x in v)
    if isinstance(v, (list, tuple)):
        return any(has_multiset(x, env) for x in v)
    if isinstance(v, dict):
        return any(has_multiset(x, env) for x in v.values())
    if type(v) in env.ids and env.by_id[env.ids[type(v)]]["kind"] in ("bean", "serial"):
        return any(has_multiset(x, env) for _n, x in env.stored(v))
    return False


def sort_lists(tr):
    tag = tr[0]
    if tag in ("L", "U", "E", "Z"):
        return ("L", sorted((sort_lists(x) for x in tr[1]), key=lambda t: pyval.emit(t, True)))
    if tag == "M":
        return ("M", [(k, sort_lists(x)) for k, x in tr[1]])
    if tag == "O":
        return ("O", tr[1], [(n, sort_lists(x)) for n, x in tr[2]])
    return tr


def loose(line):
    if line.startswith("ok "):
        return "ok " + pyval.emit(sort_lists(pyval.parse(line[3:])), True)
    return line


def describe(v, env, depth=0):
    """Coarse description of where instances sit (for the distinct-case count)."""
    if isinstance(v, dict):
        return "{" + ",".join(sorted(set(describe(x, env, depth + 1) for x in v.values()))) + "}"
    if isinstance(v, (list, tuple, set, frozenset)):
        return type(v).__name__[0] + "(" + ",".join(sorted(set(describe(x, env, depth + 1) for x in v))) + ")"
    h = env.hook(v)
    if h is None:
        return "p"
    s = env.by_id[h[0]]
    shape = "%s/%s/d%d/%s" % (s["kind"], "slots" if s["slots"] is not None else "dict", len(s["bases"]),
                              "local" if s["module"] == "__main__" else "mod")
    if s["kind"] in ("bean", "serial") and depth < 2:
        inner = sorted(set(describe(x, env, depth + 1) for _n, x in env.stored(v)))
        return shape + "[" + ",".join(i for i in inner if i != "p") + "]"
    return shape


def class_table(env, rng, mode):
    """Config.classes content: name -> class.  mode 'locals': every __main__ class; 'all': every user class."""
    tab = {}
    for s in env.specs:
        if s["kind"] == "decimal":
            continue
        if s["module"] == "__main__" or mode == "all":
            tab[s["name"]] = env.cls[s["id"]]
    return tab


RPC_MODES = ["positional", "keyword", "notify", "multicall"]


def rpc_roundtrip(env, table, version, v, mode="positional", server_version=None):
    """Sends v to an echo method of a real dispatcher through a real ServerProxy (separate client and server
    configurations, each with the class table) and gets it back.
    -> ((kind, exception | None), received parameters [..], results [..])"""
    J = impl.jsonrpclib.jsonrpc
    cfg_c = impl.jsonrpclib.config.Config(version=version)
    cfg_s = impl.jsonrpclib.config.Config(version=server_version or version)
    for n, c in table.items():
        cfg_c.classes.add(c, n)
        cfg_s.classes.add(c, n)
    disp = SimpleJSONRPCDispatcher(config=cfg_s)
    received = []

    def echo(*args, **kwargs):
        x = kwargs["x"] if kwargs else args[0]
        received.append(x)
        return x

    disp.register_function(echo, "echo")
    tr = impl.LoopTransport(lambda body: disp._marshaled_dispatch(body))
    proxy = J.ServerProxy("http://localhost/", transport=tr, config=cfg_c, version=version)
    results = []

    def go():
        if mode == "positional":
            results.append(proxy.echo(v))
        elif mode == "keyword":
            results.append(proxy.echo(x=v))
        elif mode == "notify":
            proxy._notify.echo(v)
        else:
            mc = J.MultiCall(proxy, config=cfg_c)
            mc.echo(v)
            mc._notify.echo(v)
            mc.echo(x=v)
            results.extend(list(mc()))

    k, res = impl.outcome(go)
    return (k, res), received, results


def rpc_expected(mode):
    """(number of parameters the method must have received, number of results the caller must get)"""
    return {"positional": (1, 1), "keyword": (1, 1), "notify": (1, 0), "multicall": (3, 2)}[mode]


def rpc_verdict(env, v, outcome, received, results, mode):
    """None or a description of the first difference (from the statement: identically as a parameter and as a result)."""
    k, res = outcome
    if k == "err":
        return "raised %s: %s" % (type(res).__name__, res)
    n_recv, n_res = rpc_expected(mode)
    if len(received) != n_recv:
        return "the remote method received %d parameter(s) instead of %d" % (len(received), n_recv)
    if len(results) != n_res:
        return "the caller got %d result(s) instead of %d" % (len(results), n_res)
    for i, x in enumerate(received):
        m = jcenv.same(v, x, env, "parameter#%d" % i)
        if m:
            return m
    for i, x in enumerate(results):
        m = jcenv.same(v, x, env, "result#%d" % i)
        if m:
            return m
    return None


def local_names_dotfree(d, env, acc=None):
    """Names dump wrote for classes of `__main__` (locally registered ones) that contain a dot."""
    acc = [] if acc is None else acc
    local = set(s["name"] for s in env.specs if s["module"] == "__main__")
    if isinstance(d, dict):
        j = d.get("__jsonclass__")
        if isinstance(j, list) and j and isinstance(j[0], str) and "." in j[0] and j[0].rsplit(".", 1)[1] in local \
                and j[0].rsplit(".", 1)[0] == "__main__":
            acc.append(j[0])
        for x in d.values():
            local_names_dotfree(x, env, acc)
    elif isinstance(d, (list, tuple)):
        for x in d:
            local_names_dotfree(x, env, acc)
    return acc


def run(ctx):
    ctx.rule = ("programs = random class hierarchies (3-7 classes + an enum + Decimal; slots/dict mixed, depth 0-3, "
                "public/protected/name-mangled names, serialisation methods with list or dict constructor arguments, module-"
                "qualified or locally registered) x instances with random supported values at random positions; each goes "
                "through dump, load(dump) and (string-keyed ones) a ServerProxy<->dispatcher echo in both protocol versions; "
                "distinct_nontrivial = distinct (placement of class shapes in the value, outcome class)")
    n_envs = ctx.budget(60, 240)
    per_env = ctx.budget(45, 130)
    lines = []
    expect = []
    rpc_runs = 0
    for e in range(n_envs):
        tag = "e%d" % e
        custom = (e % 3 == 2)  # every third environment exercises ignore lists / handlers / configured names
        names = ctx.rng.choice([("_serialize", "_ignore"), ("to_json", "_skip")]) if custom else ("_serialize", "_ignore")
        method = names[0] if ctx.rng.random() < 0.8 else "_serialize"
        specs = jcenv.gen_specs(ctx.rng, gen, tag, ignore_attr=names[1], method=method,
                                with_ignore=0.5 if custom else 0.0,
                                local_ratio=ctx.rng.choice([0.0, 0.35, 0.35, 1.0]))
        env = jcenv.Env(specs).install()
        try:
            _run_env(ctx, env, custom, names, per_env, lines, expect)
        finally:
            env.uninstall()
    outs = ctx.lean(lines)
    unmodelled = 0
    for ln, mo, (what, loose_cmp, exp) in zip(lines, outs, expect):
        if "err Unmodelled" in mo:
            unmodelled += 1
            continue
        if what == "dump":
            cm = impl.canon_model_line(mo, keep_arg=())
            if loose_cmp:
                cm, exp = loose(cm), loose(exp)
            if exp == "err *" and cm.startswith("err "):
                cm = exp
            if cm != exp:
                ctx.disagree(ln[-700:], exp[:500], cm[:500], component="jcdump")
        else:
            parts = mo.split(" | ")
            if len(parts) != 3:
                ctx.disagree(ln[-700:], exp[:500], mo[:500], component="jcload")
                continue
            cm = impl.canon_model_line(parts[0], keep_arg=())
            if cm != exp:
                ctx.disagree(ln[-700:], exp[:500], cm[:500], component="jcload")
    ctx.traces_validated += len(lines) - unmodelled
    ctx.extra["unmodelled_cases"] = unmodelled
    ctx.assumptions.append("Python's attribute model (__dict__, __slots__, name mangling), __import__/getattr and "
                           "inspect.getmodule are represented by the class environment handed to the model; the real classes "
                           "are generated from the same description (harness/jcenv.py)")
    ctx.assumptions.append("C07_rpc_param / C07_rpc_result are stated on the request / response dictionaries (Payload.dump, "
                           "Payload.load with the class translator); the JSON text in between, MultiCall, keyword calls and "
                           "notifications are covered by the monitor (ServerProxy <-> SimpleJSONRPCDispatcher, both versions)")
    ctx.assumptions.append("declared restriction of the domain (shapeOk in C07.lean, jcenv.plain_json_args for the remote-call "
                           "monitor): enum member values and the constructor arguments / attributes returned by a serialisation "
                           "method are plain JSON values — dump emits them as they are, so a tuple-valued enum member or a set / "
                           "Decimal constructor argument survives load(dump()) but not the JSON encoding of a remote call "
                           "(%d generated values outside this restriction; their RPC outcomes are in the histogram)"
                           % ctx.extra.get("rpc_outside_domain", 0))
    ctx.assumptions.append("classes of module __main__ are resolvable through Config.classes only (the running __main__ does not "
                           "define them), as in a receiving process with its own __main__")


def _run_env(ctx, env, custom, names, per_env, lines, expect):
    rng = ctx.rng
    world = env.enc(env.world())
    lean_env = env.enc(env.lean_classes())
    has_local = any(s["module"] == "__main__" for s in env.specs)
    specs_text = jcenv.specs_enc(env.specs)
    for i in range(per_env):
        vg = jcenv.ValueGen(rng, gen, env)
        top = rng.random()
        if top < 0.45:
            v = vg.instance(3)
        elif top < 0.9:
            v = vg.value(3)
        else:
            v = [vg.instance(2), {"k": vg.instance(1)}, (vg.instance(1),)]
        mode = "all" if rng.random() < 0.15 else "locals"
        table = class_table(env, rng, mode)
        in_domain = vg.in_domain and (has_obj(v, env))
        handlers = []
        sm_arg = ia_arg = ig_arg = None
        cfg = impl.jsonrpclib.config.Config()
        if custom:
            in_domain = False
            cfg = impl.jsonrpclib.config.Config(serialize_method=names[0], ignore_attribute=names[1])
            hf = jcenv.handler_functions(env)
            if rng.random() < 0.6:
                tags = list(jcenv.BUILTIN_TYPES) + [s["id"] for s in env.specs]
                for t in rng.sample(tags, rng.randint(1, 3)):
                    hid = rng.choice([0, 1, 1, 2, 3, None])
                    handlers.append((t, hid))
                    pytype = jcenv.BUILTIN_TYPES.get(t) or env.cls[t]
                    cfg.serialize_handlers[pytype] = None if hid is None else hf[hid]
            if rng.random() < 0.3:
                sm_arg = rng.choice(["", "_serialize", "to_json", "other_m"])
            if rng.random() < 0.3:
                ia_arg = rng.choice(["", "_ignore", "_skip"])
            if rng.random() < 0.5:
                pool = ["pub", "_prot", "x", "_y", "data", 1, None, True, 2.5, "", (1, 2), "extra_0"]
                ig_arg = rng.sample(pool, rng.randint(0, 4))
                if rng.random() < 0.05:
                    ig_arg.append([1])  # unhashable entry
            # an instance-level ignore list now and then
            if rng.random() < 0.2 and type(v) in env.ids and hasattr(v, "__dict__") and \
                    env.by_id[env.ids[type(v)]]["kind"] == "bean":
                pool_i = [n for n, _x in env.stored(v)] + ["zz"]
                setattr(v, names[1], rng.sample(pool_i, rng.randint(0, min(2, len(pool_i)))))
        try:
            vtext = env.enc(v)
        except pyval.Unencodable:
            continue
        before = env.enc(v, canon=True)
        vrepr = repr(v)[:300]
        k, d = impl.outcome(JC.dump, v, sm_arg, ia_arg, copy.deepcopy(ig_arg) if ig_arg is not None else None, cfg)
        case = {"env": [s["id"] + ":" + s["kind"] for s in env.specs],
                "value_enc": vtext, "value": vrepr, "classes": sorted(table), "specs_enc": specs_text}
        if env.enc(v, canon=True) != before:
            ctx.violate(case, "dump modified its argument", key="dump-mutates")
        try:
            dexp = impl.canon_outcome(k, d, env.hook, keep_arg=())
        except pyval.Unencodable:
            continue
        lines.append("jcdump %s %s %s %s" % (pyval.enc(jcenv.lean_cfg(cfg.serialize_method, cfg.ignore_attribute, handlers)),
                                             lean_env, pyval.enc([sm_arg, ia_arg, ig_arg]), vtext))
        # a raising handler and an unset slot in the same value: which one is met first depends on the iteration
        # order of a Python set (the field names); only "raises" is compared then
        multi_raise = any(h == 2 for _t, h in handlers)
        expect.append(("dump", has_multiset(v, env), dexp if not (multi_raise and k == "err") else "err *"))
        outcome = "dump:" + (type(d).__name__ if k == "err" else "ok")
        if k == "err":
            if in_domain:
                ctx.violate(case, "dump raised %s: %s" % (type(d).__name__, d), key="dump-raises:" + type(d).__name__)
        else:
            try:
                dtext = env.enc(d)
            except pyval.Unencodable:
                dtext = None
            k2, r = impl.outcome(JC.load, copy.deepcopy(d), table)
            outcome = "load:" + (type(r).__name__ if k2 == "err" else "ok")
            if dtext is not None:
                try:
                    lexp = impl.canon_outcome(k2, r, env.hook, keep_arg=())
                    ctab = pyval.enc([[n, env.ids[c]] for n, c in table.items()])
                    lines.append("jcload %s %s %s" % (ctab, world, dtext))
                    expect.append(("load", False, lexp))
                except pyval.Unencodable:
                    pass
            if in_domain:
                if k2 == "err":
                    ctx.violate(dict(case, via="direct"), "load(dump(obj)) raised %s: %s" % (type(r).__name__, r),
                                key="load-raises:" + type(r).__name__)
                else:
                    m = jcenv.same(v, r, env)
                    if m:
                        ctx.violate(dict(case, via="direct"), "load(dump(obj)) differs: " + m, key="roundtrip-differs")
            if in_domain and table:
                bad = local_names_dotfree(d, env)
                if bad:
                    ctx.violate(dict(case, via="direct"), "dump names the locally registered class %r with a module path: the local "
                                "class table cannot resolve it" % bad[0], key="local-class-qualified")
            # through a remote call, as a parameter and as a result
            if in_domain and string_keys_deep(v, env) and (i % 2 == 0 or ctx.thorough):
                judged = jcenv.plain_json_args(v, env)
                if not judged:
                    ctx.extra["rpc_outside_domain"] = ctx.extra.get("rpc_outside_domain", 0) + 1
                extra_mode = RPC_MODES[1 + (i // 2) % 3]
                for version in (1.0, 2.0):
                    for mode in ("positional", extra_mode):
                        sv = version if (i // 2) % 4 else (3.0 - version)  # now and then the server speaks the other version
                        outcome3, received, results = rpc_roundtrip(env, table, version, v, mode, sv)
                        via = "rpc %.1f %s" % (version, mode)
                        m = rpc_verdict(env, v, outcome3, received, results, mode)
                        if not judged:
                            ctx.hist["rpc-outside-domain/%s/%s" % (mode, "ok" if m is None else m.split(":")[0][:40])] += 1
                            continue
                        if m:
                            ctx.violate(dict(case, via=via, version=version, mode=mode, server_version=sv),
                                        "remote %s call: %s" % (mode, m),
                                        key=("rpc-raises:" + type(outcome3[1]).__name__) if outcome3[0] == "err" else "rpc-differs:" + mode)
                        ctx.count(kind="rpc/%s/%s/%s" % (version, mode, outcome3[0]))
        ctx.count(case_repr={"value": vrepr, "dump": repr(d)[:300]} if i < 2 else None,
                  nontrivial_key=(describe(v, env), outcome) if has_obj(v, env) else None,
                  kind="%s/%s/%s" % ("custom" if custom else ("in-domain" if in_domain else "out-of-domain"),
                                     type(v).__name__ if env.hook(v) is None else env.by_id[env.hook(v)[0]]["kind"], outcome))


def replay(payload):
    case = payload.get("case") or {}
    print("replaying: value %s\nclasses table %s via %s" % (case.get("value"), case.get("classes"), case.get("via")))
    if not case.get("specs_enc"):
        return 0
    specs = jcenv.specs_dec(case["specs_enc"])
    env = jcenv.Env(specs).install()
    try:
        def mk(cls, fields):
            s = env.by_id[cls]
            c = env.cls[cls]
            fd = dict(fields)
            if s["kind"] == "decimal":
                return c(fd["str"])
            if s["kind"] == "enum":
                return c[fd["name"]]
            inst = c.__new__(c)
            for n, x in fields:
                setattr(inst, n, x)
            return inst

        v = pyval.from_tree(pyval.parse(case["value_enc"]), mk)
        table = dict((s["name"], env.cls[s["id"]]) for s in env.specs if s["name"] in (case.get("classes") or []))
        via = case.get("via", "direct")
        if via.startswith("rpc"):
            mode = case.get("mode", "positional")
            outcome3, received, results = rpc_roundtrip(env, table, case.get("version", 2.0), v, mode, case.get("server_version"))
            print("remote %s call ->" % mode, outcome3[0], repr(outcome3[1])[:300], "received", repr(received)[:300],
                  "results", repr(results)[:300])
            m = rpc_verdict(env, v, outcome3, received, results, mode)
        else:
            k, d = impl.outcome(JC.dump, v)
            print("dump ->", k, repr(d)[:400])
            if k == "err":
                m = "dump raised"
            else:
                k2, r = impl.outcome(JC.load, d, table)
                print("load ->", k2, repr(r)[:300])
                m = "load raised" if k2 == "err" else (jcenv.same(v, r, env) or
                                                        ("local class named %r" % local_names_dotfree(d, env)[0]
                                                         if table and local_names_dotfree(d, env) else None))
        if m:
            print("VIOLATION reproduced:", m)
            return 1
        print("no violation")
        return 0
    finally:
        env.uninstall()
