"""
C08 — Class translation is inert when disabled and validates names before importing.

Model   : lean/JRV/Model/JsonClass.lean (load with effect log), lean/JRV/Model/JsonClassGate.lean (rpcLoad: the
          use_jsonclass gate + translator, serverParse), lean/JRV/Model/Payload.lean, lean/JRV/Model/Server.lean
Theorems: lean/JRV/Properties/C08.lean
Tie     : extracted facts (INVALID_MODULE_CHARS ranges, validation before __import__, both use_jsonclass gates,
          loads -> load, loads guarded by try/except in _marshaled_dispatch with Fault(-32700))
          + differential correspondence of the decoding paths against the driver component `rpcload`
          (result / exception class, sequence of __import__ calls made by the translator, parsed|parseError).
          + every public entry point constructed with a Config (harness/jcentries.py: dispatcher, CGI handler, TCP / pooled /
          Unix-socket servers, keyword and positional construction; ServerProxy / Server over loop and real transports;
          MultiCall; jsonrpc.load/loads/dump/dumps) built with a non-default configuration, flag on and off (`_entry_points`);
          extracted facts `configSinks` (each constructor keeps the configuration it is given, directly or through the base
          constructor it forwards it to) and `configPassing`.
Text    : every request / reply the generators build is also sent in the other SPELLINGS RFC 8259 allows for the same payload
          (harness/jsonspell.py: member names and strings with \\uXXXX escapes — all, some, exactly one character of
          "__jsonclass__" —, surrogate pairs, escaped solidus and short escapes, raw non-ASCII, white space, repeated member names
          of which the last wins, and mixtures) through jsonrpclib.loads, the dispatcher, the HTTP / Unix-socket servers and the
          reply path of the clients; the payload a text denotes is `json.loads(text)`, checked against the intended value
          (component `jsonspell`); histogram keys `text/<side>/<style>/<is the member name visible in the raw text>`.
          Extracted fact `loadsReturns` (every way out of jsonrpc.loads: `None` for the empty text, `load(jloads(data), config)`
          otherwise, the raw text being read by nothing else).
Bounds  : descriptors (invalid names, malformed, valid) at the BOUNDARY DEPTHS 0…10, 31, 32, 33, 64, 100, 257 below lists, dicts and fields
          of valid descriptors (alternating and mixed too) and in WIDE containers (1, 10, 1000 members; first / middle / last; scalar
          and bean siblings), batches of 1 / 10 / 1000 requests, bodies nested 40 … 900 levels with an invalid name at the bottom, class
          names of the lengths 7 … 4096 (65536 in the thorough tier) with the bad character first / in the middle / last
          (`_depth_width`, `_deep_bodies`, `long_names`; histogram keys `bounds/…`, `names/len-…`, `server/…/deep-nesting/…`): every
          side (direct, loads, reply through a proxy, request body), flag on and off, compared with the model (`rpcload`).
Chars   : invalid, valid, malformed descriptors and plain values whose strings hold a LONE SURROGATE (written \\udXXX in the text; no UTF-8
          form), astral characters, NUL, control characters, U+2028, U+FEFF / U+FFFF, through every server-side entry point —
          dispatcher, CGI handler (bytes on stdout), do_POST over TCP / pooled / Unix sockets — flag on and off (`_entry_text_classes`,
          histogram keys `text-class/…`) and as replies to every client-side entry point: the request must be ANSWERED (a reply
          text without UTF-8 form is no answer: monitors `reply-not-encodable`, `entry-raises`, `entry-no-answer`), with -32700
          whenever the translator rejects it (`rejected-not-32700`).
Monitor : from the property statement.  Observation of one decoding (`observe`): a process-wide audit hook
          collecting `import` events raised while jsonclass.load is on the stack, a wrapper of builtins.__import__
          recording the *dynamic* imports made by jsonrpclib.jsonclass (`__import__(name, …)` calls — a static
          `import x` statement of an already loaded module whose name has nothing to do with the payload is not an
          effect of decoding and is ignored), the modules that appear in sys.modules during the call, and a **canary
          module** (a file in a mktemp directory on sys.path that appends to a file when imported, with a class that
          appends when constructed).
          * flag off: the decoded value equals json.loads of the text (client: jsonrpclib.loads and a real
            ServerProxy over a LoopTransport; server: what the registered method receives), nothing is imported
            or constructed; jsonrpc.dump leaves the parameters untouched (no handler, no class translation);
          * flag on: every import observed is explained by a descriptor of the payload whose class name is
            non-empty and made of [a-zA-Z0-9_.] only (so a descriptor with an invalid name causes none, at any
            depth); a payload whose only descriptor has an invalid name raises TranslationError (when otherwise
            well-formed) / raises (malformed); a payload that holds such a descriptor among others (`_any_bad`: under
            lists, dicts, fields of valid descriptors) is never decoded successfully; whatever the translator rejects is answered by the server with a
            single -32700 error object and no registered method runs.
"""
import builtins
import copy
import json
import os
import shutil
import sys
import tempfile

import gen
import impl
import jcentries
import jcenv
import jsonspell
import pyval

import jsonrpclib.jsonclass as JC
from jsonrpclib.SimpleJSONRPCServer import SimpleJSONRPCDispatcher

REQUIRED_THEOREMS = [
    "C08_inert", "C08_inert_effects", "C08_rpcLoad_res", "C08_inert_loads", "C08_inert_dump", "C08_allowed_iff",
    "C08_validName_iff", "C08_nameAccepted_iff", "C08_reject_before_import",
    "C08_reject_before_import_list", "C08_malformed", "C08_failure_at_depth", "C08_reject_at_depth",
    "C08_malformed_at_depth", "C08_imports_validated", "C08_server_32700", "C08_server_32700_malformed_json",
    "C08_server_rejects_bad_descriptor", "C08_gen_moduleCharClass", "C08_gen_allowed", "C08_gen_validationPrecedesImport",
    "C08_gen_useJsonclassGates", "C08_gen_loadsCallsLoad", "C08_gen_loadsGuarded", "C08_gen_configCallSites",
    "C08_gen_configSinks", "C08_gen_configPassing",
    "C08_loads_spelling_independent", "C08_loads_rejects_whatever_the_spelling", "C08_text_spelling_denotes",
    "C08_text_jsonclass_key_spellings", "C08_text_escaped_key_not_in_text", "C08_gen_loadsReturns",
]

ALPHABET = ["a", "Z", "0", "_", ".", "-", " ", "\n", "é", "ａ"]
VALID = set("abcdefghijklmnopqrstuvwxyzABCDEFGHIJKLMNOPQRSTUVWXYZ0123456789_.")
LOOKALIKES = ["é", "ａ", "а", "Α", "․", "．", "١", "µ", "\x00", "​", "K", "ſ",
              "퟿", "\U0001d41a", "\t", "/", "\\", ":", "$", "%", "(", ";", "'", "\"", "*", "+", ",", "\x7f", "\xa0"]

CANARY = "jrv_canary_mod"
_STATE = {"dir": None, "file": None}
_AUDIT = {"on": False, "events": []}


def _audit_hook(event, args):
    if _AUDIT["on"] and event == "import":
        f = sys._getframe(1)
        while f is not None:
            if f.f_code.co_name == "load" and f.f_globals.get("__name__") == "jsonrpclib.jsonclass":
                _AUDIT["events"].append(args[0])
                return
            f = f.f_back


sys.addaudithook(_audit_hook)  # once per process (a hook cannot be removed); gated by _AUDIT["on"]


def canary_setup():
    d = tempfile.mkdtemp(prefix="jrv_c08_")
    path = os.path.join(d, "canary.log")
    with open(os.path.join(d, CANARY + ".py"), "w") as fh:
        fh.write("_P = %r\nwith open(_P, 'a') as _fh:\n    _fh.write('imported\\n')\n\n\n"
                 "class Boom(object):\n    def __init__(self, *a, **k):\n        with open(_P, 'a') as fh:\n"
                 "            fh.write('constructed\\n')\n" % path)
    open(path, "w").close()
    sys.path.insert(0, d)
    _STATE["dir"] = d
    _STATE["file"] = path


def canary_teardown():
    d = _STATE["dir"]
    if d:
        if d in sys.path:
            sys.path.remove(d)
        sys.modules.pop(CANARY, None)
        shutil.rmtree(d, ignore_errors=True)
    _STATE["dir"] = _STATE["file"] = None


def canary_size():
    try:
        return os.path.getsize(_STATE["file"])
    except (OSError, TypeError):
        return 0


class Obs(object):
    pass


def payload_strings(v, acc=None):
    """Every string of a payload (keys included)."""
    acc = set() if acc is None else acc
    if isinstance(v, str):
        acc.add(v)
    elif isinstance(v, dict):
        for k, x in v.items():
            payload_strings(k, acc)
            payload_strings(x, acc)
    elif isinstance(v, (list, tuple)):
        for x in v:
            payload_strings(x, acc)
    return acc


def derived_from(module, strings):
    """Is the module name taken from the payload: a string of it, or a dotted prefix of one?"""
    return bool(module) and any(s == module or s.startswith(module + ".") for s in strings)


def observe(fn, *args, **kwargs):
    """Runs fn and reports: outcome (BaseException included: a constructor may call sys.exit), the imports made by
    jsonrpclib.jsonclass — `dynamic` ones (`__import__(name, …)`: no globals) and `static` ones (import statements) —
    the audit `import` events raised under jsonclass.load, the modules that appeared in sys.modules, whether the
    canary module was imported / its class constructed."""
    payload = kwargs.pop("_payload", None)
    sys.modules.pop(CANARY, None)
    size0 = canary_size()
    dynamic = []
    static = []
    orig = builtins.__import__

    def recording_import(name, globals=None, locals=None, fromlist=(), level=0):
        if sys._getframe(1).f_globals.get("__name__") == "jsonrpclib.jsonclass":
            (dynamic if globals is None else static).append(name)
        return orig(name, globals, locals, fromlist, level)

    _AUDIT["events"] = []
    before = set(sys.modules)
    builtins.__import__ = recording_import
    _AUDIT["on"] = True
    try:
        try:
            k, v = impl.outcome(fn, *args, **kwargs)
        except BaseException as ex:  # noqa: BLE001  (SystemExit / KeyboardInterrupt raised by a constructor)
            k, v = "err", ex
    finally:
        _AUDIT["on"] = False
        builtins.__import__ = orig
    o = Obs()
    o.kind, o.value = k, v
    o.new_modules = sorted(m for m in set(sys.modules) - before if m != CANARY)
    strings = payload_strings(payload) if payload is not None else set()
    # a static import counts when it loaded something new or when its name comes from the payload
    o.calls = dynamic + [m for m in static if m not in before or derived_from(m, strings)]
    o.static_ignored = [m for m in static if m in before and not derived_from(m, strings)]
    o.events = list(_AUDIT["events"])
    o.canary = ""
    if canary_size() != size0:
        with open(_STATE["file"]) as fh:
            fh.seek(size0)
            o.canary = fh.read().replace("\n", ",")
    return o


# ---- what the property allows ------------------------------------------------------------------------------------

def name_ok(s):
    return isinstance(s, str) and s != "" and all(ch in VALID for ch in s)


def descriptors(v, acc=None):
    """Every dict of the payload that has a "__jsonclass__" member (any depth), in document order."""
    if acc is None:
        acc = []
    if isinstance(v, dict):
        if "__jsonclass__" in v:
            acc.append(v)
        for x in v.values():
            descriptors(x, acc)
    elif isinstance(v, list):
        for x in v:
            descriptors(x, acc)
    return acc


def descriptor_name(j):
    """(well-shaped?, class name) of a "__jsonclass__" member as `member[0]`, `member[1]` evaluate."""
    if isinstance(j, (list, tuple)) and len(j) >= 2 and isinstance(j[0], str):
        return True, j[0]
    if isinstance(j, str) and len(j) >= 2:
        return True, j[0]  # Python indexes strings too: name = j[0]
    if isinstance(j, dict) and 0 in j and 1 in j and isinstance(j[0], str):
        return True, j[0]  # keys 0 and 1: only through a direct call (JSON keys are strings)
    return False, None


def shape(d):
    """'valid' | 'invalid-name' (well-formed, name empty or with a character outside [a-zA-Z0-9_.]) | 'malformed'"""
    ok, name = descriptor_name(d["__jsonclass__"])
    if not ok:
        return "malformed"
    return "valid" if name_ok(name) else "invalid-name"


def allowed_imports(payload):
    """Module names whose import a valid descriptor of the payload may cause (with parent packages)."""
    out = set()
    for d in descriptors(payload):
        if shape(d) != "valid":
            continue
        name = descriptor_name(d["__jsonclass__"])[1]
        tree = ".".join(name.split(".")[:-1])
        out.add(tree)
        out.add(name)  # __import__(tree, fromlist=[cls]) also looks for a submodule called like the class
        while tree:
            tree = tree.rpartition(".")[0]
            out.add(tree)
    return out


def check_imports(ctx, case, o, payload, flag, where, new_modules=True):
    allowed = allowed_imports(payload) if flag else set()
    # with no valid descriptor in the payload (or with the flag off) no module at all may get loaded (over a real socket
    # the standard library loads codecs on first use: there only the translator's own imports and the canary count)
    bad = [m for m in o.calls + o.events + ([] if allowed or not new_modules else o.new_modules) if m not in allowed]
    if bad:
        ctx.violate(case, "%s: module(s) %r imported although no descriptor with a valid class name names them "
                          "(use_jsonclass=%s; __import__ calls %r, audit events %r)" % (where, bad, flag, o.calls, o.events),
                    key="import-not-allowed:%s:%s" % (where, "on" if flag else "off"))
    if o.canary and CANARY not in allowed:
        ctx.violate(case, "%s: the canary module was touched (%s) although no valid descriptor names it (use_jsonclass=%s)"
                    % (where, o.canary, flag), key="canary:%s:%s" % (where, "on" if flag else "off"))


def strict_equal(a, b):
    """Same value with the same types at every level."""
    try:
        return pyval.enc(a, canon=True) == pyval.enc(b, canon=True)
    except pyval.Unencodable:
        return False
    except UnicodeEncodeError:  # a lone surrogate somewhere: compare structurally
        return json.dumps(a, sort_keys=True) == json.dumps(b, sort_keys=True) and repr(a) == repr(b)


# ---- the text a payload travels as --------------------------------------------------------------------------------------

_SPELL = {"rng": None}
SPELL_STYLES = [st for st in jsonspell.STYLES if st != "plain"]


def pick_style(rng, p_plain=0.45):
    return "plain" if rng.random() < p_plain else rng.choice(SPELL_STYLES)


def spelled(ctx, side, style, payload, envelope_of=None, seed=None):
    """The document `envelope_of(payload)` as a text in the given style.  -> (text, the payload the text denotes)
    The payload is what the JSON decoder makes of its part of the text (for the styles that repeat member names: the last
    occurrence); for every other style it must be the intended one (a difference is reported as a disagreement, component
    `jsonspell`: the speller is the harness' reading of RFC 8259)."""
    import random
    rng = random.Random(seed) if seed is not None else (_SPELL["rng"] or random.Random(0))
    envelope_of = envelope_of or (lambda x: x)
    try:
        intended = json.loads(json.dumps(payload))
    except (TypeError, ValueError):
        intended = payload
    text, ptext, changed = jsonspell.spell_in_envelope(rng, style, intended, envelope_of)
    denoted = json.loads(ptext)
    if not changed and not jsonspell.same_payload(denoted, intended) and ctx is not None:
        ctx.disagree({"style": style, "text": ptext[:400]}, "json.loads of the text: %r" % (denoted,), "intended payload: %r" % (intended,),
                     component="jsonspell")
    if ctx is not None:
        ctx.hist["text/%s/%s/%s" % (side, style, jsonspell.text_class(ptext, denoted))] += 1
    return text, denoted


MALFORMED_BODIES = ["\n", "a\tb", "\x00", "\x1f", '"', 'a"b', "\\", "\\x41", "\\a", "\\'", "\\u", "\\u0", "\\u00e", "\\u00g0", "\\uD83D",
                    "\\ud83d\\u0041", "\\ude00", "\\ude00\\ud83d", "\\ud83dx", "\\U0041", "\\u+041", "\\u 041", "\\u0x41", "\\u00_1", "x\\",
                    "\\ud83d\\ud83d\\ude00", "\x7f", "\\u005F_\\u005f", "\\/\\b\\f\\n\\r\\t\\\\\\\"", "\\ud800\\udc00", "\\udbff\\udfff", "\\uffff",
                    "\\ud7ff\\ue000", "\\uDBFF\\uDC00"]


def _string_literals(ctx):
    """Bodies of string literals (the text between the quotation marks): every spelling the speller writes for the member name,
    for class names of the generators and for random Unicode strings — plus bodies no decoder may accept and unpaired surrogate
    escapes.  Compared with what the JSON backend of the package makes of `"<body>"` (component `jsonstring`)."""
    rng = ctx.derive_rng("string-literals")
    out = list(MALFORMED_BODIES)
    strings = ["__jsonclass__", "__jsonclass__", CANARY + ".Boom", "os.path/x", "a\"b\\c", "\t\n\r\b\f/", "é\u00e9ａ", "\U0001f600\U00010000\U0010ffff",
               "", "\x7f\x80\uffff"]
    strings += [random_unicode(rng) for _ in range(ctx.budget(60, 600))]
    for st in strings:
        if any(0xD800 <= ord(ch) <= 0xDFFF for ch in st):
            st = "".join(ch for ch in st if not 0xD800 <= ord(ch) <= 0xDFFF)
        for mode in ("none", "all", "partial", "short", "one"):
            sp = jsonspell.Speller(rng, rng.choice(["mixed", "raw-unicode", "escape-all"]))
            lit = sp.string(st, mode, 0.4, one_at=rng.randrange(len(st)) if st else None)
            out.append(lit[1:-1])
    # near misses: a correct body with one character damaged
    for _ in range(ctx.budget(40, 400)):
        b = rng.choice(out[len(MALFORMED_BODIES):])
        if not b:
            continue
        i = rng.randrange(len(b))
        out.append(b[:i] + rng.choice(["\\", '"', "\n", "\\u", "\\ud800", "g", ""]) + b[i + 1:])
    return out


def _check_string_literals(ctx, literals, outs):
    declined = 0
    for body, mo in zip(literals, outs):
        k, v = impl.outcome(impl.jsonrpclib.jsonrpc.jloads, '"' + body + '"')
        if k == "ok" and not isinstance(v, str):
            k = "err"  # `"a" "b"`-like accidents of a damaged body: not one string literal
        if k == "ok" and any(0xD800 <= ord(ch) <= 0xDFFF for ch in v):
            # an unpaired surrogate escape: Python keeps a lone surrogate, the model (Lean's Char) declines
            if mo != "none":
                ctx.disagree({"body": body}, "jloads: a string with a lone surrogate", mo, component="jsonstring")
            declined += 1
            ctx.hist["text/string-literal/lone-surrogate"] += 1
            continue
        want = "none" if k == "err" else "ok " + pyval.enc(v)
        if mo != want or (k == "ok" and '"' in body.replace('\\"', "").replace("\\\\", "")):
            if mo != want:
                ctx.disagree({"body": body[:300]}, want[:300], mo[:300], component="jsonstring")
        ctx.hist["text/string-literal/%s" % ("accepted" if k == "ok" else "rejected")] += 1
        ctx.count(nontrivial_key=("literal", k, body[:12]) if "\\" in body else None, kind="string-literal/" + k)
    ctx.traces_validated += len(literals)
    ctx.extra["string_literals_declined_lone_surrogate"] = declined


# ---- generators ---------------------------------------------------------------------------------------------------

def short_names(thorough, rng):
    out = [""]
    for a in ALPHABET:
        out.append(a)
        for b in ALPHABET:
            out.append(a + b)
    l3 = [a + b + c for a in ALPHABET for b in ALPHABET for c in ALPHABET]
    out.extend(l3 if thorough else rng.sample(l3, 160))
    return out


def mutate_name(rng, base):
    """An invalid name close to a valid one: a bad character inserted / appended / prepended, or a look-alike swapped in."""
    ch = rng.choice(LOOKALIKES + ALPHABET[5:])
    r = rng.random()
    if r < 0.35:
        return base + ch + rng.choice(["", "x", ".X"])
    if r < 0.55:
        return ch + base
    i = rng.randint(0, len(base))
    if r < 0.85:
        return base[:i] + ch + base[i:]
    return base[:i] + ch + base[i + 1:]


def random_unicode(rng):
    n = rng.randint(1, 6)
    out = []
    for _ in range(n):
        r = rng.random()
        if r < 0.4:
            out.append(rng.choice("abzAZ09_."))
        elif r < 0.7:
            out.append(rng.choice(LOOKALIKES))
        else:
            cp = rng.choice([rng.randint(0, 0x7f), rng.randint(0x80, 0x7ff), rng.randint(0x800, 0xd7ff),
                             rng.randint(0xe000, 0xffff), rng.randint(0x10000, 0x10ffff),
                             rng.randint(0xd800, 0xdfff)])  # a lone surrogate: a str Python accepts, no UTF-8 form
            out.append(chr(cp))
    return "".join(out)


def model_enc(v):
    """pyval.enc, or None for a value the codec cannot carry (a string with a lone surrogate has no UTF-8 form;
    the Lean `Char` type excludes surrogates too): such cases are decided by the monitor alone and counted."""
    try:
        return pyval.enc(v)
    except (pyval.Unencodable, UnicodeEncodeError):
        return None


MALFORMED = [None, True, False, 0, 5, 1.5, "", "a", [], {}, {"0": "a"}, {"a": 1}, {"0": "os.getcwd", "1": []},
             {"0": CANARY + ".Boom", "1": [], "2": None}]
INVALID_REGISTERED = ["my class", "Loc\n", "é", "a-b", "x y.z", " ", "ａ"]
RAISING = ["ZeroDivisionError", "RuntimeError", "OSError", "JrvCustomError", "KeyError", "TypeError", "AssertionError",
           "StopIteration", "ImportError", "AttributeError"]
LIBRARY_RAISING = [["fractions.Fraction", [1, 0]], ["decimal.Decimal", ["abc"]], ["fractions.Fraction", ["x/y"]],
                   ["collections.OrderedDict", [1]], ["datetime.date", [0, 0, 0]], ["array.array", ["?"]]]
FIRST = [None, 0, 5, True, False, 1.5, [], ["a"], {}, {"a": 1}, "", "é.X", "os.path x"]
SECOND = [[], {}, None, 5, "s", [1], {"k": 1}]


def malformed_descriptors(env_names):
    out = [dict([("__jsonclass__", m)]) for m in MALFORMED]
    for f in FIRST + env_names[:2] + ["nosuchmod_jrv.Cls", CANARY + ".Nope"]:
        out.append({"__jsonclass__": [f]})
        for s in SECOND:
            out.append({"__jsonclass__": [f, s]})
            out.append({"__jsonclass__": [f, s, "extra"]})
    return out


class PayloadGen(object):
    def __init__(self, rng, env):
        self.rng = rng
        self.env = env
        self.beans = [s for s in env.specs if s["kind"] == "bean" and not s.get("registered_as")
                      and not any(x.startswith("unset_") for x in (s["slots"] or []))]
        self.raising = [s for s in env.specs if s["kind"] == "raising"]
        self.invalid_registered = [n for s in env.specs for n in s.get("registered_as", [])]
        self.monitor_only = False  # set when a descriptor the class environment of the model does not describe is generated

    def emit_name(self, s):
        return s["name"] if s["module"] in ("", "__main__") else "%s.%s" % (s["module"], s["name"])

    def valid_names(self):
        return [self.emit_name(s) for s in self.beans]

    def descriptor(self, depth=1):
        """-> (dict, kind)"""
        rng = self.rng
        r = rng.random()
        if r < 0.22 and self.beans:
            s = rng.choice(self.beans)
            d = {"__jsonclass__": [self.emit_name(s), []]}
            inst = self.env.cls[s["id"]]()
            for n, _x in self.env.stored(inst)[:2]:
                if not n.startswith("__") and rng.random() < 0.6:
                    d[n] = self.value(depth - 1) if depth > 0 else gen.json_scalar(rng)
            return d, "valid-existing"
        if r < 0.27:
            return {"__jsonclass__": [rng.choice(["nosuchmod_jrv.Cls", "nosuchpkg_jrv.sub.Cls", "os.NoSuchThing", "json.Missing",
                                                  "Unregistered", "a.b.c"]), rng.choice([[], {}, [1]])]}, "valid-missing"
        if r < 0.30 and self.raising:
            # a constructor that raises something else than TypeError: the translator "rejects" the payload all the same
            s = rng.choice(self.raising)
            if rng.random() < 0.25:
                self.monitor_only = True
                return {"__jsonclass__": copy.deepcopy(rng.choice(LIBRARY_RAISING))}, "valid-library-raising"
            return {"__jsonclass__": [self.emit_name(s), rng.choice([[], {}, [1], {"k": 1}])], "a": 1}, "valid-raising"
        if r < 0.36:
            return {"__jsonclass__": [CANARY + ".Nope", []]}, "valid-canary"
        if r < 0.62:
            base = rng.choice(self.valid_names() + [CANARY + ".Boom", CANARY + ".Boom", "os.getcwd", "os.path.join", "decimal.Decimal"])
            return {"__jsonclass__": [mutate_name(rng, base), rng.choice([[], {}, ["id"]])], "a": 1}, "invalid-mutated"
        if r < 0.72:
            return {"__jsonclass__": [random_unicode(rng), []]}, "random-unicode"
        if r < 0.74 and self.invalid_registered:
            # a class registered in Config.classes under an invalid name: the name is rejected all the same
            return {"__jsonclass__": [rng.choice(self.invalid_registered), rng.choice([[], {}])]}, "invalid-registered"
        if r < 0.78:
            return {"__jsonclass__": ["", rng.choice([[], {}])]}, "invalid-empty"
        if r < 0.88:
            return {"__jsonclass__": [rng.choice(ALPHABET[4:]) .join(rng.sample(["a", "Z", "0", "_"], 2)), []]}, "invalid-short"
        m = rng.choice(malformed_descriptors(self.valid_names()))
        return copy.deepcopy(m), "malformed"

    def value(self, depth):
        rng = self.rng
        r = rng.random()
        if depth <= 0 or r < 0.3:
            return gen.json_scalar(rng)
        if r < 0.5:
            return self.descriptor(depth - 1)[0]
        n = rng.randint(0, 3)
        if r < 0.75:
            return [self.value(depth - 1) for _ in range(n)]
        return dict((rng.choice(gen.KEYS[:6]), self.value(depth - 1)) for _ in range(n))

    def nest(self, d, depth):
        """Puts the descriptor dict at some depth of lists / dicts / attributes of a valid descriptor, with siblings."""
        rng = self.rng
        v = d
        path = []
        for _ in range(depth):
            r = rng.random()
            sib = [self.value(1) for _ in range(rng.randint(0, 2))]
            if r < 0.4:
                i = rng.randint(0, len(sib))
                v = sib[:i] + [v] + sib[i:]
                path.append("list")
            elif r < 0.8 or not self.beans:
                keys = rng.sample(gen.KEYS[:6], min(len(sib) + 1, 6))
                items = list(zip(keys[1:], sib))
                i = rng.randint(0, len(items))
                items.insert(i, (keys[0], v))
                v = dict(items)
                path.append("dict")
            else:
                s = rng.choice(self.beans)
                inst = self.env.cls[s["id"]]()
                names = [n for n, _x in self.env.stored(inst) if not n.startswith("__")] or ["extra_attr"]
                v = {"__jsonclass__": [self.emit_name(s), []], rng.choice(names): v}
                path.append("attr")
        return v, "/".join(path) or "top"


# ---- boundary depths and widths -------------------------------------------------------------------------------------------

DEPTHS = list(range(0, 11)) + [31, 32, 33, 64, 100, 257]  # container levels above the descriptor (the real code recurses: < ~900)
WIDTHS = [1, 10, 1000]  # members of the container that holds the descriptor
WRAPS = ["list", "dict", "attr", "alternating", "mixed"]
NAME_LENGTHS = [7, 8, 63, 64, 65, 255, 256, 257, 1000, 4096]


def _bean_fields(pg):
    """(emitted class name, a field the class takes) of the beans of the environment."""
    out = []
    for s in pg.beans:
        inst = pg.env.cls[s["id"]]()
        names = [n for n, _x in pg.env.stored(inst) if not n.startswith("__")] or ["extra_attr"]
        out.append((pg.emit_name(s), names))
    return out


def wrap_at_depth(rng, d, depth, how, fields, width=1, pos=0, bean_siblings=False):
    """The value d under exactly `depth` levels of lists / dicts / fields of valid descriptors; the container directly above it has
    `width` members, d being the pos-th."""
    v = d
    for level in range(depth):
        kind = how
        if how == "alternating":
            kind = ("list", "dict", "attr")[level % 3]
        elif how == "mixed":
            kind = rng.choice(["list", "dict", "attr"])
        if kind == "attr" and not fields:
            kind = "dict"
        n = width if level == 0 else 1
        i = min(pos, n - 1) if level == 0 else 0
        if bean_siblings and fields and level == 0:
            sib = [{"__jsonclass__": [rng.choice(fields)[0], []]} for _ in range(n - 1)]
        else:
            sib = list(range(n - 1))
        if kind == "list":
            v = sib[:i] + [v] + sib[i:]
        elif kind == "dict":
            items = [("k%d" % j, x) for j, x in enumerate(sib)]
            items.insert(i, ("k", v))
            v = dict(items)
        else:
            name, names = rng.choice(fields)
            items = [("f%d" % j, x) for j, x in enumerate(sib)]
            items.insert(i, (rng.choice(names), v))
            v = dict([("__jsonclass__", [name, []])] + items)
    return v


def _bounded_descriptor(pg, kind):
    rng = pg.rng
    if kind == "invalid-name":
        base = rng.choice(pg.valid_names() + [CANARY + ".Boom", "os.getcwd"])
        return {"__jsonclass__": [mutate_name(rng, base), rng.choice([[], {}])]}
    if kind == "malformed":
        return copy.deepcopy(rng.choice(malformed_descriptors(pg.valid_names())))
    if kind == "valid-canary":
        return {"__jsonclass__": [CANARY + ".Nope", []]}
    if kind == "valid-existing" and pg.beans:
        return {"__jsonclass__": [pg.emit_name(rng.choice(pg.beans)), []]}
    return {"__jsonclass__": ["nosuchmod_jrv.Cls", []]}


def _side_direct(ctx, env, payload, kind, path, pending):
    """jsonclass.load called with the payload itself (no text)."""
    cfg = make_cfg(env, True)
    o = observe(JC.load, copy.deepcopy(payload), cfg.classes, _payload=payload)
    case = {"side": "direct", "payload": payload, "flag": True, "kind": kind, "path": path, "classes": "of the environment"}
    check_imports(ctx, case, o, payload, True, "direct")
    _check_single_bad(ctx, case, o, payload, "direct")
    _pend(ctx, pending, env, True, payload, {"result": _expect_from(o, False), "imports": o.calls, "side": "direct"}, case)
    _count(ctx, case, o, kind, path)


def _one_bounded(ctx, env, pg, pending, payload, kind, path, sides, flag=True, where=None):
    for side in sides:
        p = copy.deepcopy(payload)
        if side == "direct":
            _side_direct(ctx, env, p, kind, path, pending)
        elif side == "loads":
            _side_loads(ctx, env, p, kind, path, flag, pending, False, ctx.rng.choice(["plain", "compact", "plain", pick_style(ctx.rng)]))
        elif side == "client":
            _side_client(ctx, env, p, kind, path, flag, pending)
        else:
            _side_server(ctx, env, pg, p, kind, path, flag, pending, False,
                         where or ctx.rng.choice(["params-list", "params-dict", "whole", "extra-member", "batch"]))
        ctx.hist["bounds/%s/%s/%s" % (path, kind, side if flag else side + "-off")] += 1


ALL_SIDES = ["direct", "loads", "client", "server"]


def _depth_width(ctx, env, pg, pending):
    """Descriptors at the boundary depths (0…10, 31, 32, 33, 64, 100, 257 container levels above them: lists, dicts, fields of valid
    descriptors, alternating, mixed) and in wide containers (1, 10, 1000 members; first, middle, last; scalar and bean siblings),
    batches of 1 / 10 / 1000 requests: invalid names and malformed shapes (must be rejected wherever they sit), valid ones (the
    model says what comes out), flag on and off — decoded directly, as a text, as a reply, as a request body."""
    rng = ctx.rng
    fields = _bean_fields(pg)
    for depth in DEPTHS:
        for how in WRAPS:
            path = "depth-%d/%s" % (depth, how)
            inv = wrap_at_depth(rng, _bounded_descriptor(pg, "invalid-name"), depth, how, fields)
            _one_bounded(ctx, env, pg, pending, inv, "invalid-name", path, ALL_SIDES)
            _one_bounded(ctx, env, pg, pending, inv, "invalid-name", path, [rng.choice(ALL_SIDES[1:])], flag=False)
            for kind in ("malformed", "valid-canary", "valid-existing"):
                v = wrap_at_depth(rng, _bounded_descriptor(pg, kind), depth, how, fields)
                _one_bounded(ctx, env, pg, pending, v, kind, path, [rng.choice(ALL_SIDES)])
    for width in WIDTHS:
        for how in ("list", "dict", "attr"):
            for pos in sorted(set([0, width // 2, width - 1])):
                for depth in (1, 3, 34):
                    path = "width-%d/%s/at-%d/depth-%d" % (width, how, pos, depth)
                    bean_sib = width == 10 and rng.random() < 0.5
                    inv = wrap_at_depth(rng, _bounded_descriptor(pg, "invalid-name"), depth, how, fields, width, pos, bean_sib)
                    _one_bounded(ctx, env, pg, pending, inv, "invalid-name", path, ALL_SIDES if width < 1000 else [rng.choice(ALL_SIDES)])
                    kind = rng.choice(["malformed", "valid-canary", "valid-existing"])
                    v = wrap_at_depth(rng, _bounded_descriptor(pg, kind), depth, how, fields, width, pos, bean_sib)
                    _one_bounded(ctx, env, pg, pending, v, kind, path, [rng.choice(ALL_SIDES)], flag=rng.random() < 0.8)
        # batches of `width` requests, the descriptor in one of them
        for pos in sorted(set([0, width // 2, width - 1])):
            for kind in ("invalid-name", "malformed", "valid-existing"):
                v = wrap_at_depth(rng, _bounded_descriptor(pg, kind), rng.choice([0, 1, 33]), "list", fields)
                _one_bounded(ctx, env, pg, pending, v, kind, "batch-%d/at-%d" % (width, pos), ["server"],
                             flag=kind != "valid-existing" or rng.random() < 0.5, where="batch:%d:%d" % (width, pos))


def long_names(rng, thorough):
    """Class names of the boundary lengths: all valid, or with one character outside [a-zA-Z0-9_.] first / in the middle / last."""
    out = []
    for n in NAME_LENGTHS + ([65536] if thorough else []):
        base = "".join(rng.choice("abzAZ09_") for _ in range(n))
        base = base[:n // 2] + "." + base[n // 2 + 1:]
        out.append((base, "len-%d/valid" % n))
        for pos, label in ((0, "first"), (n // 2, "middle"), (n - 1, "last")):
            ch = rng.choice(LOOKALIKES + ALPHABET[5:])
            out.append((base[:pos] + ch + base[pos + 1:], "len-%d/bad-%s" % (n, label)))
    return out


# ---- the run -------------------------------------------------------------------------------------------------------

def make_cfg(env, flag, version=2.0):
    cfg = impl.jsonrpclib.config.Config(version=version, use_jsonclass=flag)
    for n, cid in class_pairs(env):
        cfg.classes.add(env.cls[cid], n)
    return cfg


def class_pairs(env):
    """Config.classes: every class of `__main__` under its name, plus the aliases of `registered_as` (invalid names)."""
    out = []
    for s in env.specs:
        if s["module"] == "__main__" and s["kind"] != "decimal":
            out.append([s["name"], s["id"]])
            for alias in s.get("registered_as", []):
                out.append([alias, s["id"]])
    return out


def extra_specs(rng, tag):
    """Classes whose constructor raises (module-qualified and locally registered) and a counting bean registered in the
    local class table under invalid names."""
    out = []
    for i, exc in enumerate(rng.sample(RAISING, 3)):
        out.append({"id": "r%d_%s" % (i, tag), "module": "jrvm_%s" % tag if i else "__main__", "name": "Raiser%d" % i, "bases": [],
                    "slots": None, "kind": "raising", "raises": exc, "class_attrs": {}})
    out.append({"id": "inv_%s" % tag, "module": "__main__", "name": "InvalidlyNamed", "bases": [], "slots": None, "kind": "bean",
                "own": [("hits", 0)], "class_attrs": {}, "registered_as": rng.sample(INVALID_REGISTERED, 4)})
    return out


def model_line(env, flag, value):
    """The driver line, or None when the codec cannot carry the value (lone surrogates)."""
    v = model_enc(value)
    if v is None:
        return None
    return "rpcload %s %s %s %s" % ("T" if flag else "F", pyval.enc(class_pairs(env)),
                                    env.enc([env.lean_classes(), ["os", "json", "decimal", CANARY]]), v)


def parse_model(mo):
    parts = mo.split(" | ")
    if len(parts) != 3:
        return None
    res = impl.canon_model_line(parts[0], keep_arg=())
    log = pyval.from_tree(pyval.parse(parts[1]))
    imports = [e[1] for e in log if e[0] == "import"]
    return res, imports, parts[2]


def run(ctx):
    ctx.rule = ("every public entry point that is constructed with a Config (SimpleJSONRPCDispatcher, CGIJSONRPCRequestHandler, "
                "SimpleJSONRPCServer, PooledJSONRPCServer, both over TCP and over a Unix socket, keyword and positional construction; "
                "ServerProxy / Server over a loop transport and over the package's own Transport / UnixTransport; MultiCall; "
                "jsonrpc.dump/dumps/load/loads) built with a non-default Config (use_jsonclass on and off, custom names and content "
                "type) x descriptor payloads x 2.0-form and 1.0-form requests; "
                "payloads = descriptors (existing / missing / canary modules, names mutated with one bad character or look-alike, "
                "random Unicode, empty, every malformed shape: each JSON type, lists of length 0-3) at depth 0-3 of lists, dicts and "
                "attributes of valid descriptors, with siblings, and at the boundary depths 0-10, 31, 32, 33, 64, 100, 257 / in containers "
                "and batches of 1, 10, 1000 members; strings with lone surrogates, astral, NUL and control characters through the "
                "byte-level server paths (CGI, do_POST over TCP / pooled / Unix sockets); decoded directly (jsonrpclib.loads), as a reply through a real "
                "ServerProxy (LoopTransport) and as a request body through _marshaled_dispatch; use_jsonclass on and off; plus the "
                "class names of length <= 3 over the alphabet a Z 0 _ . - space newline e-acute fullwidth-a (exhaustive in the "
                "thorough tier); distinct_nontrivial = distinct (descriptor kind, nesting path, side, flag, outcome)")
    canary_setup()
    _SPELL["rng"] = ctx.derive_rng("text-spellings")
    pending = []  # (model line, expectation, case)
    try:
        _names_stream(ctx, pending)
        _entry_text_classes(ctx)  # first: what it finds is replayed without the generated classes of an environment
        n_envs = ctx.budget(14, 24)
        per_env = ctx.budget(260, 500)
        for e in range(n_envs):
            specs = jcenv.gen_specs(ctx.rng, gen, "q%d" % e, local_ratio=ctx.rng.choice([0.0, 0.3]))
            specs = specs[:-2] + extra_specs(ctx.rng, "q%d" % e) + specs[-2:]
            env = jcenv.Env(specs).install()
            try:
                _run_env(ctx, env, per_env, pending)
                if e < ctx.budget(2, 6):
                    _depth_width(ctx, env, PayloadGen(ctx.rng, env), pending)
            finally:
                env.uninstall()
        _dump_gate(ctx)
        _rpc_gates(ctx)
        _entry_points(ctx)
        _outside_domain(ctx)
    finally:
        canary_teardown()
    literals = _string_literals(ctx)
    outs = ctx.lean([p[0] for p in pending] + ["jsonstring S" + b.encode("utf-8").hex() for b in literals])
    _check_string_literals(ctx, literals, outs[len(pending):])
    outs = outs[:len(pending)]
    unmodelled = 0
    for (ln, exp, case), mo in zip(pending, outs):
        if "err Unmodelled" in mo:
            unmodelled += 1
            continue
        pm = parse_model(mo)
        if pm is None:
            ctx.disagree(ln[-600:], repr(exp)[:400], mo[:400], component="rpcload")
            continue
        res, imports, po = pm
        got = {"result": res if exp.get("full") else res.split(" ")[0] + (" " + res.split(" ")[1] if res.startswith("err ") else ""),
               "imports": imports}
        want = {"result": exp["result"], "imports": exp["imports"]}
        if "parse" in exp:
            got["parse"] = po
            want["parse"] = exp["parse"]
        if want["result"] is None:
            got["result"] = None
        if got != want:
            ctx.disagree(ln[-600:], json.dumps(want)[:500], json.dumps(got)[:500], component="rpcload/" + exp.get("side", ""))
    ctx.traces_validated += len(pending) - unmodelled
    ctx.extra["unmodelled_cases"] = unmodelled
    ctx.exhaustive = False
    ctx.assumptions.append("__import__/getattr are represented by the class environment and the list of importable modules handed to "
                           "the model; `import` audit events are attributed to the translator when jsonclass.load is on the stack; "
                           "a static `import x` statement inside jsonclass.py of a module that is already loaded and whose name "
                           "does not come from the payload is not counted as an effect of decoding")
    ctx.assumptions.append("domain: class names that resolve to classes (or callables) whose call has no effect beyond raising an "
                           "Exception or returning an object — a name such as sys.exit resolves to a callable that raises "
                           "SystemExit, which no `except Exception` of the library catches (%d such cases were run and recorded in "
                           "the histogram, not judged)" % ctx.extra.get("outside_domain_cases", 0))
    ctx.assumptions.append("%d cases with a lone surrogate in a string (no UTF-8 form, outside Lean's Char) and %d cases naming "
                           "library classes the model's class environment does not describe (fractions.Fraction(1, 0), "
                           "decimal.Decimal('abc'), …) were decided by the monitor alone"
                           % (ctx.extra.get("uncodable_cases", 0), ctx.extra.get("monitor_only_cases", 0)))


def _pend(ctx, pending, env, flag, value, exp, case, monitor_only=False):
    """Queues the model line of a case; cases the model's class environment / codec cannot describe are counted."""
    if monitor_only:
        ctx.extra["monitor_only_cases"] = ctx.extra.get("monitor_only_cases", 0) + 1
        return
    line = model_line(env, flag, value)
    if line is None:
        ctx.extra["uncodable_cases"] = ctx.extra.get("uncodable_cases", 0) + 1
        return
    pending.append((line, exp, case))


def _expect_from(o, full):
    if o.kind == "ok":
        try:
            return "ok " + pyval.enc(o.value, canon=True) if full else "ok"
        except (pyval.Unencodable, UnicodeEncodeError):
            return None
    return "err " + type(o.value).__name__


def _names_stream(ctx, pending):
    """Class names: short names over the representative alphabet, random Unicode, look-alikes — direct jsonclass.load."""
    rng = ctx.rng
    env = jcenv.Env([dict(jcenv.DEC_SPEC)])
    names = short_names(ctx.thorough, rng)
    names += [random_unicode(rng) for _ in range(ctx.budget(150, 1500))]
    names += [mutate_name(rng, b) for b in [CANARY + ".Boom", "os.getcwd", "decimal.Decimal"] for _ in range(ctx.budget(25, 200))]
    lengths = dict(long_names(rng, ctx.thorough))
    names += list(lengths)
    for s in names:
        if s in lengths:
            ctx.hist["names/" + lengths[s]] += 1
        for params in ([], {}):
            payload = {"__jsonclass__": [s, params]}
            if ctx.rng.random() < 0.3:
                payload = [1, {"k": payload}]
            o = observe(JC.load, copy.deepcopy(payload), None, _payload=payload)
            case = {"side": "direct", "payload": payload, "name": s, "flag": True}
            ok_name = name_ok(s)
            if not ok_name:
                if not (o.kind == "err" and type(o.value).__name__ == "TranslationError"):
                    ctx.violate(case, "class name %r (empty or with a character outside [a-zA-Z0-9_.]) was not rejected with "
                                      "TranslationError: %s %r" % (s, o.kind, o.value), key="invalid-name-accepted")
            check_imports(ctx, case, o, payload, True, "direct")
            exp = _expect_from(o, True)
            if exp is not None:
                _pend(ctx, pending, env, True, payload, {"result": exp, "imports": o.calls, "full": True, "side": "names"}, case)
            ctx.count(case_repr=case if len(s) == 3 and s[1] == "é" and params == [] and ctx.evaluations < 400 else None,
                      nontrivial_key=("name", "".join("v" if ch in VALID else "x" for ch in s)[:6], exp),
                      kind="names/%s/%s" % ("valid" if ok_name else "invalid", exp.split(" ")[-1] if exp else "?"))
    ctx.extra["names_checked"] = len(names)
    ctx.extra["short_names_exhaustive_len3"] = bool(ctx.thorough)


def _run_env(ctx, env, per_env, pending):
    rng = ctx.rng
    pg = PayloadGen(rng, env)
    for i in range(per_env):
        pg.monitor_only = False
        d, kind = pg.descriptor(1)
        depth = rng.choice([0, 1, 1, 2, 2, 3])
        payload, path = pg.nest(d, depth)
        flag = rng.random() < 0.6
        side = rng.choice(["loads", "client", "server", "server"])
        if kind in ("valid-raising", "valid-library-raising") and rng.random() < 0.6:
            flag, side = True, "server"
        if side == "loads":
            _side_loads(ctx, env, payload, kind, path, flag, pending, pg.monitor_only)
        elif side == "client":
            _side_client(ctx, env, payload, kind, path, flag, pending, pg.monitor_only)
        else:
            _side_server(ctx, env, pg, payload, kind, path, flag, pending, pg.monitor_only)
    _deep_nesting(ctx, env)
    _direct_shapes(ctx, env, pg, pending)
    _minimal_texts(ctx, env, pending)


def _minimal_texts(ctx, env, pending):
    """The SHORTEST texts that carry a descriptor: a payload that is nothing but one malformed / invalidly named descriptor, in
    the compact spelling (no white space), in the spelling json.dumps writes and with one escaped character in the member
    name — decoded directly with the flag on (a decision taken on the length or on the first characters of the text shows
    here)."""
    payloads = [({"__jsonclass__": m}, "malformed") for m in MALFORMED[:11]] + \
               [({"__jsonclass__": [n, a]}, "invalid-short") for n in ("", " ", "a b", "é") for a in ([], {})] + \
               [([{"__jsonclass__": ["", []]}], "invalid-empty"), ({"a": {"__jsonclass__": 0}}, "malformed")]
    for payload, kind in payloads:
        for style in ("compact", "plain", "escape-jsonclass-key-one"):
            _side_loads(ctx, env, copy.deepcopy(payload), kind, "minimal-text", True, pending, False, style)


def _single_bad(payload):
    ds = descriptors(payload)
    return ds[0] if len(ds) == 1 and shape(ds[0]) != "valid" else None


def reached_descriptors(v, acc=None):
    """Every dict with a "__jsonclass__" member the translator comes to when nothing before it fails: at any depth of lists, of
    dict values and of the other members of a descriptor (the fields of the object) — not inside a "__jsonclass__" member (the
    class name and the constructor arguments are handed over as they are)."""
    acc = [] if acc is None else acc
    if isinstance(v, dict):
        if "__jsonclass__" in v:
            acc.append(v)
        for k, x in v.items():
            if k != "__jsonclass__":
                reached_descriptors(x, acc)
    elif isinstance(v, list):
        for x in v:
            reached_descriptors(x, acc)
    return acc


def _any_bad(payload):
    """A descriptor with an invalid name / a malformed one somewhere in the payload (under any number of lists, dicts and fields of
    valid descriptors), or None: decoding such a payload cannot succeed — either something before it fails, or it is rejected."""
    for d in reached_descriptors(payload):
        if shape(d) != "valid":
            return d
    return None


def _check_single_bad(ctx, case, o, payload, where):
    """A payload whose only descriptor is invalid / malformed must be rejected (TranslationError when well-formed); a payload with
    such a descriptor among others must be rejected too (by whatever fails first)."""
    d = _single_bad(payload)
    if d is None:
        d = _any_bad(payload)
        if d is not None and o.kind != "err":
            ctx.violate(case, "%s: the payload holds the %s descriptor %r (among others) but decoding succeeded: %.300r"
                        % (where, shape(d), d["__jsonclass__"], o.value), key="bad-descriptor-accepted-nested:" + shape(d))
        return
    if o.kind != "err":
        ctx.violate(case, "%s: the payload's only descriptor %r is %s but decoding succeeded: %r"
                    % (where, d["__jsonclass__"], shape(d), o.value), key="bad-descriptor-accepted:" + shape(d))
    elif shape(d) == "invalid-name" and type(o.value).__name__ != "TranslationError":
        ctx.violate(case, "%s: invalid class name %r rejected with %s instead of TranslationError"
                    % (where, d["__jsonclass__"][0], type(o.value).__name__), key="invalid-name-wrong-error")


def _side_loads(ctx, env, payload, kind, path, flag, pending, mo=False, style=None):
    cfg = make_cfg(env, flag)
    style = style or pick_style(ctx.rng)
    text, payload = spelled(ctx, "loads", style, payload)
    o = observe(impl.jsonrpclib.loads, text, cfg, _payload=payload)
    case = {"side": "loads", "text": text, "flag": flag, "kind": kind, "path": path, "style": style}
    check_imports(ctx, case, o, payload, flag, "loads")
    if not flag:
        if not (o.kind == "ok" and strict_equal(o.value, json.loads(text))):
            ctx.violate(case, "use_jsonclass off: loads gave %s %r instead of json.loads' %r" % (o.kind, o.value, json.loads(text)),
                        key="off-not-plain-json:loads")
    else:
        _check_single_bad(ctx, case, o, payload, "loads")
    exp = _expect_from(o, False)
    full = False
    if o.kind == "ok":
        try:
            exp = "ok " + env.enc(o.value, canon=True)
            full = True
        except (pyval.Unencodable, UnicodeEncodeError):
            pass
    _pend(ctx, pending, env, flag, json.loads(text), {"result": exp, "imports": o.calls, "full": full, "side": "loads"}, case, mo)
    _count(ctx, case, o, kind, path)


def _side_client(ctx, env, payload, kind, path, flag, pending, mo=False):
    """The payload as the result (or the error data) of a reply decoded by a real ServerProxy."""
    cfg = make_cfg(env, flag)
    as_error = ctx.rng.random() < 0.2
    version = ctx.rng.choice([1.0, 2.0])

    def handler(body):
        rid = json.loads(body).get("id")
        if as_error:
            rep = {"id": rid, "error": {"code": -32000, "message": "m", "data": payload}}
        else:
            rep = {"id": rid, "result": payload}
        if version >= 2:
            rep["jsonrpc"] = "2.0"
        elif "error" not in rep:
            rep["error"] = None
        elif "result" not in rep:
            rep["result"] = None

        def envelope(x):
            doc = copy.copy(rep)
            if as_error:
                doc["error"] = dict(rep["error"], data=x)
            else:
                doc["result"] = x
            return doc

        handler.reply, handler.payload = spelled(ctx, "client", style, payload, envelope)
        return handler.reply

    style = pick_style(ctx.rng)
    proxy = impl.jsonrpclib.jsonrpc.ServerProxy("http://localhost/", transport=impl.LoopTransport(handler), config=cfg, version=version)
    o = observe(proxy.ping, 1, _payload=payload)
    reply = json.loads(getattr(handler, "reply", "null"))
    payload = getattr(handler, "payload", payload)  # the payload the reply text denotes
    case = {"side": "client", "reply": getattr(handler, "reply", None), "flag": flag, "kind": kind, "path": path, "version": version,
            "style": style}
    check_imports(ctx, case, o, payload, flag, "client")
    if not flag:
        if as_error:
            if not (o.kind == "err" and type(o.value).__name__ in ("AppError", "ProtocolError")):
                ctx.violate(case, "use_jsonclass off: error reply gave %s %r" % (o.kind, o.value), key="off-client-error")
        elif not (o.kind == "ok" and strict_equal(o.value, reply.get("result"))):
            ctx.violate(case, "use_jsonclass off: the proxy returned %s %r instead of the JSON result %r"
                        % (o.kind, o.value, reply.get("result")), key="off-not-plain-json:client")
    else:
        d = _single_bad(payload)
        if d is not None and not (o.kind == "err" and type(o.value).__name__ not in ("AppError", "ProtocolError")):
            ctx.violate(case, "client: the reply's only descriptor %r is %s but the call gave %s %r"
                        % (d["__jsonclass__"], shape(d), o.kind, o.value), key="bad-descriptor-accepted:client")
        elif d is not None and shape(d) == "invalid-name" and type(o.value).__name__ != "TranslationError":
            ctx.violate(case, "client: invalid class name %r rejected with %s" % (d["__jsonclass__"][0], type(o.value).__name__),
                        key="invalid-name-wrong-error")
        elif d is None and _any_bad(payload) is not None and not (o.kind == "err" and type(o.value).__name__ not in ("AppError", "ProtocolError")):
            d = _any_bad(payload)
            ctx.violate(case, "client: the reply holds the %s descriptor %r (among others) but the call gave %s %.300r"
                        % (shape(d), d["__jsonclass__"], o.kind, o.value), key="bad-descriptor-accepted-nested:client")
    # model: the translator runs on the whole reply document
    if o.kind == "err" and type(o.value).__name__ in ("AppError", "ProtocolError"):
        exp = "ok"  # decoding succeeded; the error is the reply's
    else:
        exp = _expect_from(o, False)
    _pend(ctx, pending, env, flag, reply, {"result": exp, "imports": o.calls, "side": "client"}, case, mo)
    _count(ctx, case, o, kind, path)


def _side_server(ctx, env, pg, payload, kind, path, flag, pending, mo=False, where=None):
    """The payload inside a request body handled by _marshaled_dispatch (`where`: its place in the request document; `batch:<n>:<i>`
    = the i-th of a batch of n requests)."""
    rng = ctx.rng
    cfg = make_cfg(env, flag)
    disp = SimpleJSONRPCDispatcher(config=cfg)
    invoked = []

    def echo(*args, **kwargs):
        invoked.append((args, kwargs))
        return [list(args), kwargs] if kwargs else list(args)

    disp.register_function(echo, "echo")
    where = where or rng.choice(["params-list", "params-list", "params-dict", "id", "whole", "batch", "method", "extra-member"])

    def envelope(x):
        req = {"jsonrpc": "2.0", "method": "echo", "id": 7}
        if where.startswith("batch:"):
            n, i = [int(t) for t in where.split(":")[1:]]
            req = [{"jsonrpc": "2.0", "method": "echo", "id": j, "params": [x] if j == i else [j]} for j in range(n)]
        elif where == "params-list":
            req["params"] = [x, 1]
        elif where == "params-dict":
            req["params"] = {"p": x}
        elif where == "id":
            req["id"] = x
            req["params"] = [1]
        elif where == "method":
            req["method"] = x
        elif where == "extra-member":
            req["params"] = [1]
            req["extra"] = x
        elif where == "whole":
            req = x
        else:
            req = [{"jsonrpc": "2.0", "method": "echo", "id": 1, "params": [1]}, {"jsonrpc": "2.0", "method": "echo", "id": 2, "params": [x]}]
        return req

    style = pick_style(rng)
    body, payload = spelled(ctx, "server", style, payload, envelope)
    req = json.loads(body)
    o = observe(disp._marshaled_dispatch, body, _payload=req)
    case = {"side": "server", "body": body, "flag": flag, "kind": kind, "path": where + "/" + path, "style": style}
    check_imports(ctx, case, o, req, flag, "server")
    reply = None
    if o.kind == "ok" and o.value:
        try:
            reply = json.loads(o.value)
        except ValueError:
            reply = None
    is_32700 = isinstance(reply, dict) and isinstance(reply.get("error"), dict) and reply["error"].get("code") == -32700
    # does the translator reject this document?  (decided by the translator itself, observed separately)
    rejected = False
    if flag:
        k2, _r2 = impl.outcome(JC.load, json.loads(body), cfg.classes)
        sys.modules.pop(CANARY, None)
        rejected = k2 == "err"
    if o.kind == "err":
        ctx.violate(case, "_marshaled_dispatch raised %s: %s" % (type(o.value).__name__, o.value), key="server-raises")
    elif rejected:
        if not is_32700 or invoked:
            ctx.violate(case, "the translator rejects the payload but the server answered %r and invoked %r" % (o.value, invoked),
                        key="rejected-not-32700")
    elif is_32700:
        ctx.violate(case, "the server answered -32700 to a payload the translator accepts (use_jsonclass=%s): %r" % (flag, o.value),
                    key="unexpected-32700")
    d = (_single_bad(req) or _any_bad(req)) if flag else None
    if d is not None and (not is_32700 or invoked):
        ctx.violate(case, "server: the body holds the %s descriptor %r but the reply is %.300r and %d method call(s) were made"
                    % (shape(d), d["__jsonclass__"], o.value, len(invoked)), key="bad-descriptor-accepted:server")
    if o.kind == "ok" and isinstance(o.value, str):
        # what the server answers travels as UTF-8 on every transport of the package (utils.to_bytes / str.encode)
        try:
            o.value.encode("utf-8")
        except UnicodeEncodeError as ex:
            ctx.violate(case, "server: the reply %.300r cannot be sent (no UTF-8 form: %s), so the request gets no answer%s"
                        % (o.value, ex, " — the translator rejects it: a -32700 answer is due" if rejected else ""),
                        key="reply-not-encodable")
    if not flag and where in ("params-list", "params-dict"):
        # nothing is interpreted: the method receives exactly the JSON parameters
        payload = json.loads(json.dumps(payload))  # as JSON carries it (a surrogate pair becomes one character)
        want = ((payload, 1), {}) if where == "params-list" else ((), {"p": payload})
        if len(invoked) != 1 or not strict_equal([list(invoked[0][0]), invoked[0][1]], [list(want[0]), want[1]]):
            ctx.violate(case, "use_jsonclass off: the method received %r instead of the JSON parameters %r" % (invoked, want),
                        key="off-not-plain-json:server")
        elif not (isinstance(reply, dict) and strict_equal(reply.get("result"), [payload, 1] if where == "params-list" else [[], {"p": payload}])):
            ctx.violate(case, "use_jsonclass off: the reply %r does not carry the parameters back verbatim" % (o.value,),
                        key="off-reply-not-verbatim")
    exp = {"result": "err *" if (flag and rejected) else "ok", "imports": o.calls, "parse": "parseError" if is_32700 else "parsed",
           "side": "server"}
    if flag and rejected:
        # class of the exception is not observable through the server; compare the rest
        exp["result"] = None
    _pend(ctx, pending, env, flag, json.loads(body), exp, case, mo)
    _count(ctx, case, o, kind, where + "/" + path, extra="32700" if is_32700 else ("invoked%d" % len(invoked)))


def _count(ctx, case, o, kind, path, extra=""):
    outc = "ok" if o.kind == "ok" else type(o.value).__name__
    ctx.count(case_repr=case if ctx.evaluations % 400 == 0 else None,
              nontrivial_key=(kind, path, case["side"], case["flag"], outc, extra),
              kind="%s/%s/%s/%s%s" % (case["side"], "on" if case["flag"] else "off", kind, outc, "/" + extra if extra else ""))


def _dump_gate(ctx):
    """jsonrpc.dump with the flag off: parameters and results pass through untouched (no class translation, no handler)."""
    J = impl.jsonrpclib.jsonrpc

    class Bean(object):
        def __init__(self):
            self.a = 1

    def handler(obj, sm, ia, ig, cfg):
        return "HANDLED"

    for flag in (False, True):
        cfg = impl.jsonrpclib.config.Config(use_jsonclass=flag)
        cfg.serialize_handlers[str] = handler
        cfg.serialize_handlers[set] = handler
        for params, label in (([{"__jsonclass__": ["os.getcwd", []]}, "s"], "plain"), ([Bean()], "bean"), ([{1, 2}], "set"),
                              (["text", ("t",)], "str")):
            for resp in (False, True):
                k, d = impl.outcome(J.dump, params, None if resp else "m", 5, 2.0, resp, None, cfg)
                case = {"side": "dump", "flag": flag, "label": label, "response": resp, "params": repr(params)}
                got = d.get("result" if resp else "params") if k == "ok" and isinstance(d, dict) else None
                if not flag:
                    if k != "ok" or got is not params:
                        ctx.violate(case, "use_jsonclass off: jsonrpc.dump changed the parameters %r into %r (%s)" % (params, got, k),
                                    key="off-dump-not-verbatim")
                elif label == "str" and (k != "ok" or got != ["HANDLED", ["HANDLED"]]):
                    ctx.violate(case, "use_jsonclass on: jsonrpc.dump did not apply the configured handler: %r" % (got,),
                                key="on-dump-no-handler")
                ctx.count(kind="dump/%s/%s/%s" % ("on" if flag else "off", label, k))
        # through the client: a bean parameter cannot be sent with the flag off (nothing is translated)
        sent = []
        proxy = J.ServerProxy("http://localhost/", config=cfg,
                              transport=impl.LoopTransport(lambda body: sent.append(body) or '{"jsonrpc":"2.0","id":1,"result":null}'))
        k, r = impl.outcome(proxy.m, Bean())
        if not flag and (sent and "__jsonclass__" in sent[0]):
            ctx.violate({"side": "dump", "flag": flag, "label": "proxy-bean"}, "use_jsonclass off: the client sent a translated object: %r"
                        % sent[0], key="off-dump-not-verbatim")
        ctx.count(kind="dump/proxy/%s/%s" % ("on" if flag else "off", k))


def _deep_bodies():
    """(label, body): nestings no decoder survives, and — `translator-<n>` — nestings of n lists / dicts the real code does get
    through (or not: a RecursionError of the translator is a rejection like any other), with an invalid class name at the bottom."""
    d = json.dumps({"__jsonclass__": [CANARY + ".Boom x", []]})
    out = [("json-decoder", "[" * 100000 + "]" * 100000),
           ("translator", "[" * 3000 + d + "]" * 3000),
           ("translator-dicts", '{"a":' * 3000 + "1" + "}" * 3000)]
    for n in (40, 300, 500, 700, 900):
        out.append(("translator-%d" % n, "[" * n + d + "]" * n))
        out.append(("translator-dicts-%d" % n, '{"a":' * n + d + "}" * n))
        out.append(("translator-params-%d" % n, '{"jsonrpc":"2.0","id":1,"method":"echo","params":[' + '{"a":[' * (n // 2) + d
                    + "]}" * (n // 2) + "]}"))
    return out


def _deep_nesting(ctx, env):
    """Bodies nested so deeply that the JSON decoder or the translator runs out of stack (RecursionError): the server
    still answers -32700 (any failure of `loads` does) and no method runs."""
    for label, body in _deep_bodies():
        for flag in (True, False):
            cfg = make_cfg(env, flag)
            disp = SimpleJSONRPCDispatcher(config=cfg)
            invoked = []
            disp.register_function(lambda *a, **k: invoked.append(1) or 1, "echo")
            o = observe(disp._marshaled_dispatch, body, _payload=None)
            case = {"side": "server", "body_py": "%r * %d + ..." % (body[:6], 1), "deep": label, "flag": flag,
                    "kind": "deep-nesting", "path": label}
            rejected = True  # flag on: the decoder fails, the stack runs out, or the invalid class name at the bottom is refused
            if not flag and label != "json-decoder":
                # with the flag off only the JSON decoder sees the nesting
                rejected = impl.outcome(json.loads, body)[0] == "err"
            if o.kind == "err":
                ctx.violate(case, "_marshaled_dispatch raised %s on a deeply nested body (%s)" % (type(o.value).__name__, label),
                            key="server-raises")
            elif rejected and ("-32700" not in str(o.value) or invoked):
                ctx.violate(case, "a body that cannot be decoded (%s) was answered %r" % (label, str(o.value)[:200]),
                            key="rejected-not-32700")
            ctx.count(kind="server/%s/deep-nesting/%s/%s" % ("on" if flag else "off", label,
                                                            "32700" if "-32700" in str(o.value) else o.kind))


def _direct_shapes(ctx, env, pg, pending):
    """Descriptor shapes only a direct call of jsonclass.load can be given (JSON has no tuples and no integer keys):
    tuples, dicts with the keys 0 and 1, further items — with valid, invalid and invalidly-registered names."""
    rng = ctx.rng
    cfg = make_cfg(env, True)
    names = [(n, "valid-existing") for n in pg.valid_names()[:3]] + [(CANARY + ".Nope", "valid-canary")] + \
            [(mutate_name(rng, b), "invalid-mutated") for b in [CANARY + ".Boom", "os.getcwd"] + pg.valid_names()[:2]] + \
            [(n, "invalid-registered") for n in pg.invalid_registered[:2]] + [("", "invalid-empty")]
    for name, kind in names:
        for params in ([], {}):
            for member, how in (((name, params), "tuple"), ({0: name, 1: params}, "dict-int-keys"),
                                ({False: name, 1.0: params, "x": 1}, "dict-bool-float-keys"), ([name, params, "extra", None], "list4"),
                                ({"0": name, "1": params}, "dict-str-keys")):
                payload = [1, {"k": {"__jsonclass__": member}}] if rng.random() < 0.4 else {"__jsonclass__": member}
                o = observe(JC.load, copy.deepcopy(payload), cfg.classes, _payload=payload)
                case = {"side": "direct-shapes", "payload_enc": model_enc(payload), "payload": repr(payload), "flag": True, "kind": kind,
                        "path": how, "name": name}
                check_imports(ctx, case, o, payload, True, "direct")
                _check_single_bad(ctx, case, o, payload, "direct")
                exp = _expect_from(o, False)
                _pend(ctx, pending, env, True, payload, {"result": exp, "imports": o.calls, "side": "direct-shapes"}, case)
                ctx.count(nontrivial_key=("shape", how, kind, exp), kind="direct/%s/%s/%s" % (how, kind, exp))


def _outside_domain(ctx):
    """Names that resolve to a callable with a side effect: `sys.exit` raises SystemExit, which is no Exception and
    leaves jsonclass.load, jsonrpclib.loads and _marshaled_dispatch alike.  The property is about classes whose
    construction has no effect beyond the object (recorded in the trusted base); the outcomes are recorded, not judged
    — and the check survives them."""
    env = jcenv.Env([dict(jcenv.DEC_SPEC)])
    for params in ([], [3]):
        payload = {"__jsonclass__": ["sys.exit", params]}
        for side in ("direct", "loads", "server"):
            if side == "direct":
                o = observe(JC.load, copy.deepcopy(payload), None, _payload=payload)
            elif side == "loads":
                o = observe(impl.jsonrpclib.loads, json.dumps(payload), make_cfg(env, True), _payload=payload)
            else:
                disp = SimpleJSONRPCDispatcher(config=make_cfg(env, True))
                disp.register_function(lambda *a: 1, "echo")
                o = observe(disp._marshaled_dispatch, json.dumps({"jsonrpc": "2.0", "method": "echo", "id": 1, "params": [payload]}),
                            _payload=payload)
            ctx.hist["outside-domain/sys.exit/%s/%s" % (side, type(o.value).__name__ if o.kind == "err" else "ok")] += 1
    ctx.extra["outside_domain_cases"] = 6


# ---- the use_jsonclass gates on every path of a remote call -----------------------------------------------------------

GATE_MOD = "jrv_gate_mod"
_GATE_CASES = ["bean", "jcdict", "canary"]
_GATE_MODES = ["positional", "keyword", "notify", "multicall"]


def _gate_values():
    import types
    if GATE_MOD not in sys.modules:
        m = types.ModuleType(GATE_MOD)

        class GateBean(object):
            def __init__(self):
                self.a = 1

        GateBean.__module__ = GATE_MOD
        m.GateBean = GateBean
        sys.modules[GATE_MOD] = m
    bean_cls = sys.modules[GATE_MOD].GateBean
    return {"bean": bean_cls(), "jcdict": {"__jsonclass__": [GATE_MOD + ".GateBean", []], "a": 5},
            "canary": {"__jsonclass__": [CANARY + ".Boom", []], "k": [1]}, "plain": [1, "s"]}


def gate_exchange(cflag, sflag, version, mode, pkind, rkind):
    """One remote call with separate client and server configurations.  -> observation dict"""
    J = impl.jsonrpclib.jsonrpc
    vals = _gate_values()
    cfg_c = impl.jsonrpclib.config.Config(version=version, use_jsonclass=cflag)
    cfg_s = impl.jsonrpclib.config.Config(version=version, use_jsonclass=sflag)
    disp = SimpleJSONRPCDispatcher(config=cfg_s)
    received, sent, replies, results = [], [], [], []

    def meth(*args, **kwargs):
        received.append(kwargs["x"] if kwargs else args[0])
        return _gate_values()[rkind] if rkind != "echo" else received[-1]

    disp.register_function(meth, "m")

    def handler(body):
        sent.append(body)
        r = disp._marshaled_dispatch(body)
        replies.append(r)
        return r

    proxy = J.ServerProxy("http://localhost/", transport=impl.LoopTransport(handler), config=cfg_c, version=version)
    param = vals[pkind]

    def go():
        if mode == "positional":
            results.append(proxy.m(param))
        elif mode == "keyword":
            results.append(proxy.m(x=param))
        elif mode == "notify":
            proxy._notify.m(param)
        else:
            mc = J.MultiCall(proxy, config=cfg_c)
            mc.m(param)
            mc._notify.m(param)
            mc.m(x=param)
            results.extend(list(mc()))

    payload = [vals["jcdict"], vals["canary"]] if "canary" in (pkind, rkind) else [vals["jcdict"]]
    o = observe(go, _payload=payload)
    return {"o": o, "received": received, "sent": sent, "replies": replies, "results": results, "param": param}


def gate_verdicts(cflag, sflag, mode, pkind, rkind, x):
    """What the statement requires of one exchange: [(key, detail)]."""
    hits = []
    o = x["o"]
    json_param = x["param"] if pkind != "bean" else None
    # nothing is imported or constructed on a side whose flag is off; the canary is named by no side that is on … unless
    # a side with the flag on decodes it (then its import is the valid descriptor's)
    decoding_on = (sflag and pkind == "canary" and x["sent"]) or (cflag and rkind == "canary") or \
                  (cflag and rkind == "echo" and pkind == "canary" and not sflag)
    if o.canary and not decoding_on:
        hits.append(("canary:gate", "the canary module was touched (%s) although every side that saw its descriptor has "
                     "use_jsonclass off" % o.canary))
    if not cflag:
        # the client translates nothing: a bean cannot be sent at all, a dict is sent as it is
        for body in x["sent"]:
            if pkind == "bean" and "__jsonclass__" in body:
                hits.append(("off-client-sends-translated", "use_jsonclass off on the client, yet it sent %s" % body[:300]))
            if json_param is not None:
                docs = json.loads(body)
                for doc in (docs if isinstance(docs, list) else [docs]):
                    p = doc.get("params")
                    got = p.get("x") if isinstance(p, dict) else (p[0] if p else None)
                    if not strict_equal(got, json_param):
                        hits.append(("off-client-param-not-verbatim", "the client sent %r for the parameter %r" % (got, json_param)))
        # … and what it gets back is the JSON result as it is
        for body, res_i in zip(x["replies"][-1:], [x["results"]]):
            if not body:
                continue
            docs = json.loads(body)
            docs = docs if isinstance(docs, list) else [docs]
            want = [dd.get("result") for dd in docs if isinstance(dd, dict) and "error" not in dd or dd.get("error") is None]
            want = [w for w, dd in zip(want, docs)]
            if o.kind == "ok" and len(want) == len(res_i) and not all(strict_equal(a, b) for a, b in zip(want, res_i)):
                hits.append(("off-client-result-not-verbatim", "the caller got %r for the JSON results %r" % (res_i, want)))
    if not sflag:
        # the server interprets nothing: the method receives the JSON parameter as it is …
        for body, got in zip([b for b in x["sent"]], [x["received"]]):
            docs = json.loads(body)
            wants = []
            for doc in (docs if isinstance(docs, list) else [docs]):
                p = doc.get("params")
                wants.append(p.get("x") if isinstance(p, dict) else (p[0] if p else None))
            if len(wants) != len(got) or not all(strict_equal(a, b) for a, b in zip(wants, got)):
                hits.append(("off-server-param-not-verbatim", "the method received %r for the JSON parameters %r" % (got, wants)))
        # … and a result that is not JSON is not translated either
        for body in x["replies"]:
            if body and rkind == "bean" and "__jsonclass__" in body:
                hits.append(("off-server-sends-translated", "use_jsonclass off on the server, yet it replied %s" % body[:300]))
            if body and rkind in ("jcdict", "canary"):
                docs = json.loads(body)
                for doc in (docs if isinstance(docs, list) else [docs]):
                    if isinstance(doc, dict) and doc.get("error") is None and "result" in doc \
                            and not strict_equal(doc["result"], _gate_values()[rkind]):
                        hits.append(("off-server-result-not-verbatim", "the server replied %r for the result %r"
                                     % (doc["result"], _gate_values()[rkind])))
    return hits


def _rpc_gates(ctx, only=None):
    """use_jsonclass on/off, independently on the client and on the server, on every path: positional call, keyword
    call, notification, MultiCall (parameters and results), both protocol versions; parameters and results that are
    objects, dicts with a "__jsonclass__" member, and the canary descriptor."""
    for cflag in (False, True):
        for sflag in (False, True):
            for version in (1.0, 2.0):
                for mode in _GATE_MODES:
                    for pkind in _GATE_CASES:
                        for rkind in ("echo", "bean", "jcdict", "canary"):
                            if cflag and sflag and ctx.rng.random() < 0.7 and only is None:
                                continue  # both on: the translation itself is C07's subject
                            if only is not None and only != [cflag, sflag, version, mode, pkind, rkind]:
                                continue
                            x = gate_exchange(cflag, sflag, version, mode, pkind, rkind)
                            case = {"side": "gate", "gate": [cflag, sflag, version, mode, pkind, rkind], "flag": cflag,
                                    "kind": "gate", "path": mode}
                            for key, detail in gate_verdicts(cflag, sflag, mode, pkind, rkind, x)[:2]:
                                ctx.violate(case, "client use_jsonclass=%s, server use_jsonclass=%s, version %s, %s call, parameter "
                                                  "%s, result %s: %s" % (cflag, sflag, version, mode, pkind, rkind, detail), key=key)
                            outc = "ok" if x["o"].kind == "ok" else type(x["o"].value).__name__
                            ctx.count(nontrivial_key=("gate", cflag, sflag, version, mode, pkind, rkind, outc),
                                      kind="gate/c=%s/s=%s/%s/%s" % ("on" if cflag else "off", "on" if sflag else "off", mode, outc))


# ---- every public entry point that is constructed with a configuration ------------------------------------------------

ENTRY_REQUESTS = ["echo", "echo-1.0-form", "echo-batch", "bean", "bean-1.0-form"]


def _entry_cfg(flag, variant):
    """A configuration that differs from the default one in more than the flag."""
    kw = {"use_jsonclass": flag}
    if variant == 1:
        kw.update(serialize_method="_to_json", ignore_attribute="_skip", content_type="application/json")
    elif variant == 2:
        kw.update(version=1.0, user_agent="jrv-agent")
    return impl.jsonrpclib.config.Config(**kw)


def _entry_payloads(rng):
    vals = _gate_values()
    out = [("valid-canary", {"__jsonclass__": [CANARY + ".Boom", []], "x": 1}),
           ("valid-canary-nested", {"deep": [{"__jsonclass__": [CANARY + ".Boom", {"a": 1}]}]}),
           ("valid-existing", vals["jcdict"]),
           ("invalid-name", {"__jsonclass__": ["bad name!", []]}),
           ("invalid-mutated", {"__jsonclass__": [mutate_name(rng, CANARY + ".Boom"), []], "a": 1}),
           ("invalid-empty", {"k": [{"__jsonclass__": ["", {}]}]}),
           ("malformed", {"__jsonclass__": 42}),
           ("malformed-short", [{"__jsonclass__": [CANARY + ".Boom"]}])]
    return out


def _entry_methods(received):
    def echo(*args, **kwargs):
        received.append([list(args), kwargs])
        return list(args)

    def bean():
        received.append([[], {}])
        return _gate_values()["bean"]

    return {"echo": echo, "bean": bean}


def entry_server_exchange(kind, flag, variant, form, payload, style="plain", seed=0, ctx=None, shared=None):
    """One request through the public path of a server-side entry point built with a non-default configuration; the body is
    spelt in `style` (harness/jsonspell.py; `seed` makes the spelling reproducible).
    -> (observation, the request as the body denotes it, reply document | None, what the registered methods received, payload)"""
    cfg = _entry_cfg(flag, variant)
    if shared is not None:
        entry, received = shared  # an entry point that stays up for a series of requests (same kind, flag and variant)
        del received[:]
    else:
        received = []
        entry = None

    meth = "bean" if form.startswith("bean") else "echo"

    def envelope(x):
        req = {"method": meth, "id": 7, "params": [] if meth == "bean" else [x]}
        if not form.endswith("1.0-form"):
            req["jsonrpc"] = "2.0"
        if form == "echo-batch":
            req = [{"jsonrpc": "2.0", "method": "echo", "id": 1, "params": [1]}, req]
        return req

    body, payload = spelled(ctx, "entry:" + kind, style, payload, envelope, seed=seed)
    req = json.loads(body)
    if entry is None:
        entry = jcentries.ServerEntry(kind, cfg, _entry_methods(received))
    try:
        o = observe(entry.send, body, _payload=req)
    finally:
        if shared is None:
            entry.close()
    reply = None
    if o.kind == "ok" and o.value:
        try:
            reply = json.loads(o.value)
        except ValueError:
            reply = None
    return o, req, reply, received, payload


def entry_server_verdicts(kind, flag, form, payload, o, req, reply, received):
    """What the statement requires of the exchange: [(key, detail)]."""
    hits = []
    where = "entry:" + kind
    if o.kind == "err":
        return [("entry-raises", "%s raised %s: %s" % (where, type(o.value).__name__, o.value))]
    docs = reply if isinstance(reply, list) else [reply]
    last = docs[-1] if docs and isinstance(docs[-1], dict) else {}
    is_32700 = any(isinstance(d, dict) and isinstance(d.get("error"), dict) and d["error"].get("code") == -32700 for d in docs)
    if form.startswith("bean"):
        # a result that is not JSON: translated only when the flag is on — whatever the form of the request
        text = o.value or ""
        if not flag and "__jsonclass__" in text:
            hits.append(("off-server-sends-translated:" + kind, "%s built with use_jsonclass=False answered the %s request %s"
                         % (where, form, text[:300])))
        if flag and not (isinstance(last.get("result"), dict) and "__jsonclass__" in last["result"]):
            hits.append(("on-server-not-translated:" + kind, "%s built with use_jsonclass=True answered the %s request %s"
                         % (where, form, text[:300])))
        return hits
    echoes = [r for r in received if r[0] and r[0] != [1]]
    if isinstance(o.value, str):
        try:
            o.value.encode("utf-8")  # what every transport of the package does with the reply text
        except UnicodeEncodeError as ex:
            hits.append(("reply-not-encodable:" + kind, "%s (use_jsonclass=%s): the reply %.300r cannot be sent (no UTF-8 form: %s), so "
                         "the request gets no answer" % (where, flag, o.value, ex)))
    if reply is None:
        hits.append(("entry-no-answer:" + kind, "%s (use_jsonclass=%s) answered the request with %.200r, which is no JSON-RPC document"
                     % (where, flag, o.value)))
    if flag:
        # whatever the translator rejects (asked separately: the entry's class table is empty) is answered with -32700, no method runs
        k2, r2 = impl.outcome(JC.load, copy.deepcopy(req), None)
        sys.modules.pop(CANARY, None)
        if k2 == "err" and (not is_32700 or received):
            hits.append(("rejected-not-32700:" + kind, "%s built with use_jsonclass=True: the translator rejects the body (%s) but the "
                         "reply is %.300r and the methods received %r" % (where, type(r2).__name__, o.value, received)))
    if not flag:
        # nothing is interpreted: the method receives the JSON parameter, the reply carries it back verbatim
        if len(echoes) != 1 or not strict_equal(echoes[0], [[payload], {}]):
            hits.append(("off-not-plain-json:" + kind, "%s built with use_jsonclass=False: the method received %r instead of the "
                         "JSON parameter %r (reply %s)" % (where, echoes, payload, str(o.value)[:300])))
        elif not strict_equal(last.get("result"), [payload]):
            hits.append(("off-reply-not-verbatim:" + kind, "%s built with use_jsonclass=False: the reply %s does not carry the "
                         "parameter %r back verbatim" % (where, str(o.value)[:300], payload)))
    else:
        d = _single_bad(req) or _any_bad(req)
        if d is not None and (not is_32700 or received):
            hits.append(("bad-descriptor-accepted:" + kind, "%s built with use_jsonclass=True: the body's descriptor %r is %s "
                         "but the reply is %s and the methods received %r"
                         % (where, d["__jsonclass__"], shape(d), str(o.value)[:300], received)))
    return hits


ENTRY_REPLY_INVALID = {"__jsonclass__": ["bad name!", []], "k": 1}


def entry_client_exchange(kind, flag, variant, mode, rkind, style="plain", seed=0, ctx=None):
    """One call through a client-side entry point built with a non-default configuration; the peer answers the JSON
    value `rkind` of _gate_values() (or, `invalid`, a descriptor with an invalid class name), the reply text spelt in `style`.
    -> (observation, bodies sent, results, reply texts)"""
    import random
    J = impl.jsonrpclib.jsonrpc
    cfg = _entry_cfg(flag, variant)
    vals = _client_vals()
    replies = []
    srng = random.Random(seed)

    def peer(body):
        docs = json.loads(body)
        out = []
        for doc in (docs if isinstance(docs, list) else [docs]):
            if doc.get("id") is None:
                continue
            rep = {"id": doc["id"], "result": None}
            if "jsonrpc" in doc:
                rep["jsonrpc"] = "2.0"
            else:
                rep["error"] = None
            out.append(rep)
        if not out:
            text = ""
        else:
            def envelope(x):
                reps = [dict(r, result=x) for r in out]
                return reps if isinstance(docs, list) else reps[0]

            text, _denoted = spelled(ctx, "entry:" + kind, style, vals[rkind], envelope, seed=srng.randrange(1 << 30))
        replies.append(text)
        return text

    results = []
    client = jcentries.Client(kind, cfg, peer)
    try:
        def go():
            if mode == "call":
                results.append(client.proxy.m(vals["jcdict"]))
            elif mode == "keyword":
                results.append(client.proxy.m(x=vals["canary"]))
            elif mode == "notify":
                client.proxy._notify.m(vals["canary"])
            else:
                mc = J.MultiCall(client.proxy, config=cfg)
                mc.m(vals["canary"])
                mc.m(x=vals["jcdict"])
                results.extend(list(mc()))

        o = observe(go, _payload=[vals["jcdict"], vals["canary"]])
    finally:
        client.close()
    return o, list(client.sent), results, replies


def entry_client_verdicts(kind, flag, mode, rkind, o, sent, results, replies):
    hits = []
    vals = _client_vals()
    where = "entry:" + kind
    # the results the (last) reply text denotes — what a repeated member name leaves is the decoder's business
    want = []
    if replies and replies[-1]:
        docs = json.loads(replies[-1])
        want = [d.get("result") for d in (docs if isinstance(docs, list) else [docs])]
    as_intended = all(jsonspell.same_payload(w, json.loads(json.dumps(vals[rkind]))) for w in want)
    if not flag:
        if o.kind == "err":
            hits.append(("off-client-raises:" + kind, "%s built with use_jsonclass=False: the %s call raised %s: %s"
                         % (where, mode, type(o.value).__name__, o.value)))
        if o.canary or o.calls or o.events:
            hits.append(("off-client-imports:" + kind, "%s built with use_jsonclass=False: imports %r / %r, canary %r"
                         % (where, o.calls, o.events, o.canary)))
        for r, w in zip(results, want):
            if not strict_equal(r, w):
                hits.append(("off-not-plain-json:" + kind, "%s built with use_jsonclass=False: the %s call returned %r instead of the "
                             "JSON result %r" % (where, mode, r, w)))
        if len(results) != len(want) and o.kind == "ok":
            hits.append(("off-not-plain-json:" + kind, "%s built with use_jsonclass=False: the %s call returned %d results for the %d "
                         "of the reply" % (where, mode, len(results), len(want))))
        for body in sent:
            docs = json.loads(body)
            for doc in (docs if isinstance(docs, list) else [docs]):
                p = doc.get("params")
                got = p.get("x") if isinstance(p, dict) else (p[0] if p else None)
                if not any(strict_equal(got, vals[k]) for k in ("jcdict", "canary")):
                    hits.append(("off-client-param-not-verbatim:" + kind, "%s sent %r" % (where, got)))
    elif not as_intended:
        pass  # a repeated member name replaced the descriptor: nothing to require of this reply
    elif rkind == "canary" and mode != "notify":
        # the flag is on: the valid descriptor of the reply is acted upon (the canary class is constructed)
        if "constructed" not in o.canary:
            hits.append(("on-client-not-translated:" + kind, "%s built with use_jsonclass=True: the %s call gave %s %r and the "
                         "canary saw %r" % (where, mode, o.kind, o.value, o.canary)))
    elif rkind.startswith("invalid") and mode != "notify":
        # the flag is on: a reply whose descriptor has an invalid class name is rejected with TranslationError
        if not (o.kind == "err" and type(o.value).__name__ == "TranslationError"):
            hits.append(("bad-descriptor-accepted:" + kind, "%s built with use_jsonclass=True: the reply %s carries a descriptor with "
                         "the invalid class name %r, yet the %s call gave %s %r"
                         % (where, (replies or ["?"])[-1][:300], descriptors(vals[rkind])[0]["__jsonclass__"][0], mode, o.kind, o.value)))
    return hits


# ---- the characters a JSON text can denote, through the byte-level paths ------------------------------------------------------------

TEXT_CLASSES = [("lone-high-surrogate", "\ud800"), ("lone-low-surrogate", "\udc80"), ("surrogates-reversed", "\udc00\ud800"),
                ("astral", "\U0001f600"), ("astral-max", "\U0010ffff"), ("nul", "\x00"), ("control", "\x01\x1f"), ("del-c1", "\x7f\x85"),
                ("line-separator", "\u2028"), ("bom-nonchar", "\ufeff\uffff"), ("latin-1", "\xe9\xff")]


def _text_payloads():
    """(character class, kind, payload): descriptors — invalid names, valid ones, malformed — and plain values whose strings hold a
    lone surrogate (JSON writes it \\udXXX; it has no UTF-8 form), astral characters, NUL, control characters, U+2028, U+FEFF/U+FFFF."""
    _gate_values()  # defines GATE_MOD.GateBean
    out = []
    for label, ch in TEXT_CLASSES:
        out.append((label, "invalid-name", {"__jsonclass__": ["os.path" + ch, []]}))
        out.append((label, "invalid-name-nested", {"k": [{"__jsonclass__": [ch, {}]}]}))
        out.append((label, "invalid-name-field", {"__jsonclass__": [ch + ".Bean", []], ch: ch}))
        out.append((label, "valid-existing", {"__jsonclass__": [GATE_MOD + ".GateBean", []], "a": ch, "b": [ch + "x"]}))
        out.append((label, "valid-missing", {"__jsonclass__": ["nosuchmod_jrv.Cls", [ch]], "t": ch}))
        out.append((label, "malformed", {"__jsonclass__": [ch]}))
        out.append((label, "no-descriptor", [ch, {ch: "x" + ch}]))
    return out


def _entry_text_classes(ctx):
    """Every server-side entry point — the dispatcher, the CGI handler (bytes written to stdout), do_POST of the TCP / pooled / Unix
    socket servers over a real socket — x flag x the payloads of _text_payloads: the request must be ANSWERED (a reply that cannot
    be encoded is no answer), with -32700 when the translator rejects it."""
    rng = ctx.rng
    payloads = _text_payloads()
    for kind in jcentries.SERVER_ENTRIES:
        for flag in (False, True):
            variant = rng.randrange(3)
            received = []
            entry = jcentries.ServerEntry(kind, _entry_cfg(flag, variant), _entry_methods(received))
            try:
                for label, pname, payload in payloads:
                    form = rng.choice(["echo", "echo", "echo-batch"] + (["echo-1.0-form"] if variant != 2 else []))
                    style = rng.choice(["plain", "plain", "escape-class-names", "raw-unicode", "mixed"])
                    _entry_server_case(ctx, kind, flag, variant, form, pname + "/" + label, copy.deepcopy(payload), style,
                                       rng.randrange(1 << 30), shared=(entry, received))
                    ctx.hist["text-class/%s/%s/%s/%s" % ("socket" if kind in jcentries.SOCKET else kind.split("-")[0], label, pname,
                                                       "on" if flag else "off")] += 1
            finally:
                entry.close()


def _client_vals():
    """The values a peer answers with (entry_client_exchange): _gate_values() and descriptors with an invalid class name — ASCII, with a
    lone surrogate, with NUL / control characters, with an astral character under a list."""
    return dict(_gate_values(), **{"invalid": ENTRY_REPLY_INVALID,
                                   "invalid-surrogate": {"__jsonclass__": ["os.path\udc80", []], "k": "\ud800"},
                                   "invalid-control": {"__jsonclass__": ["\x00\x1f", {}]},
                                   "invalid-astral": {"k": [{"__jsonclass__": ["\U0001f600.Bean", []], "s": "\U0010ffff"}]}})


def _entry_server_case(ctx, kind, flag, variant, form, pname, payload, style, seed, shared=None):
    o, req, reply, received, denoted = entry_server_exchange(kind, flag, variant, form, payload, style, seed, ctx, shared)
    case = {"side": "entry-server", "entry": kind, "flag": flag, "variant": variant, "form": form,
            "payload": payload, "kind": pname, "path": form, "style": style, "spell_seed": seed}
    check_imports(ctx, case, o, req, flag, "entry:" + kind, new_modules=kind in jcentries.IN_PROCESS)
    for key, detail in entry_server_verdicts(kind, flag, form, denoted, o, req, reply, received)[:2]:
        ctx.violate(case, detail, key=key)
    outc = "ok" if o.kind == "ok" else type(o.value).__name__
    ctx.count(nontrivial_key=("entry", kind, flag, form, pname, outc, style != "plain"),
              kind="entry/%s/%s/%s" % (kind, "on" if flag else "off", form))


def _entry_points(ctx, only=None):
    """Every constructor of the package that takes a `config`, with a configuration that is not the default one: the
    flag it carries decides, on the public path of the object built."""
    rng = ctx.rng
    payloads = _entry_payloads(rng)
    for kind in jcentries.SERVER_ENTRIES:
        for flag in (False, True):
            n = 0
            for form in ENTRY_REQUESTS:
                for pname, payload in (payloads if form.startswith("echo") else [("-", None)]):
                    if form != "echo" and pname not in ("-", "valid-canary", "invalid-name"):
                        continue
                    if kind in jcentries.SOCKET and form == "echo" and pname not in ("valid-canary", "valid-existing", "invalid-name",
                                                                                   "malformed") and not ctx.thorough:
                        continue
                    variant = n % 3
                    n += 1
                    if form.endswith("1.0-form") and variant == 2:
                        variant = 1  # a 1.0-form request on a 2.0 server: answered through a copy of the configuration
                    # the same request in the spelling json.dumps writes and in another one RFC 8259 allows
                    styles = ["plain"]
                    if form.startswith("echo") and (pname in ("invalid-name", "valid-canary", "malformed") or ctx.thorough):
                        styles.append(rng.choice(SPELL_STYLES))
                    for style in styles:
                        _entry_server_case(ctx, kind, flag, variant, form, pname, payload, style, rng.randrange(1 << 30))
    for kind in jcentries.CLIENT_ENTRIES:
        for flag in (False, True):
            n = 0
            for mode in ("call", "keyword", "notify", "multicall"):
                for rkind in ("jcdict", "canary", "invalid", "invalid-surrogate", "invalid-control", "invalid-astral"):
                    if rkind.count("-") and mode not in ("call", "multicall"):
                        continue
                    variant = n % 3
                    n += 1
                    # the reply in the spelling json.dumps writes and in another one RFC 8259 allows
                    for style in ("plain", rng.choice(SPELL_STYLES)):
                        if rkind.startswith("invalid") and mode == "notify":
                            continue
                        seed = rng.randrange(1 << 30)
                        o, sent, results, replies = entry_client_exchange(kind, flag, variant, mode, rkind, style, seed, ctx)
                        case = {"side": "entry-client", "entry": kind, "flag": flag, "variant": variant, "mode": mode, "rkind": rkind,
                                "kind": "entry-client", "path": mode, "style": style, "spell_seed": seed}
                        for key, detail in entry_client_verdicts(kind, flag, mode, rkind, o, sent, results, replies)[:2]:
                            ctx.violate(case, detail, key=key)
                        outc = "ok" if o.kind == "ok" else type(o.value).__name__
                        ctx.count(nontrivial_key=("entry", kind, flag, mode, rkind, outc, style != "plain"),
                                  kind="entry/%s/%s/%s" % (kind, "on" if flag else "off", mode))
    _entry_functions_only(ctx)


def _entry_functions_only(ctx):
    """jsonrpc.load / loads / dump / dumps called directly with a non-default configuration, positionally and by keyword."""
    J = impl.jsonrpclib.jsonrpc
    vals = _gate_values()
    for flag in (False, True):
        for variant in (0, 1, 2):
            cfg = _entry_cfg(flag, variant)
            doc = {"jsonrpc": "2.0", "id": 1, "result": [vals["canary"], vals["jcdict"]]}
            for fname, fn, arg in (("load", J.load, doc), ("loads", J.loads, json.dumps(doc))):
                for how in ("positional", "keyword"):
                    o = observe(fn, copy.deepcopy(arg), cfg, _payload=doc) if how == "positional" else \
                        observe(fn, copy.deepcopy(arg), config=cfg, _payload=doc)
                    case = {"side": "entry-function", "entry": fname, "flag": flag, "variant": variant, "how": how,
                            "kind": "entry-function", "path": fname}
                    if not flag and not (o.kind == "ok" and strict_equal(o.value, doc) and not o.canary and not o.calls):
                        ctx.violate(case, "jsonrpc.%s(…, config with use_jsonclass=False) gave %s %r, imports %r, canary %r"
                                    % (fname, o.kind, o.value, o.calls, o.canary), key="off-not-plain-json:" + fname)
                    if flag and "constructed" not in o.canary:
                        ctx.violate(case, "jsonrpc.%s(…, config with use_jsonclass=True) did not act on the valid descriptor: %s %r"
                                    % (fname, o.kind, o.value), key="on-not-translated:" + fname)
                    ctx.count(nontrivial_key=("entry", fname, flag, how, o.kind), kind="entry/%s/%s" % (fname, "on" if flag else "off"))
            for fname in ("dump", "dumps"):
                for how in ("positional", "keyword"):
                    params = [vals["bean"], vals["jcdict"]]
                    if fname == "dump":
                        k, d = impl.outcome(J.dump, params, "m", 5, None, None, None, cfg) if how == "positional" else \
                            impl.outcome(J.dump, params, "m", rpcid=5, config=cfg)
                        got = d.get("params") if k == "ok" else None
                        translated = k == "ok" and isinstance(got[0], dict)
                        verbatim = k == "ok" and got is params
                    else:
                        k, d = impl.outcome(J.dumps, params, "m", None, None, 5, None, None, cfg) if how == "positional" else \
                            impl.outcome(J.dumps, params, "m", rpcid=5, config=cfg)
                        translated = k == "ok" and "__jsonclass__\": [\"" + GATE_MOD in d
                        verbatim = k == "err" and type(d).__name__ == "TypeError"  # a bean is not JSON: nothing translates it
                    case = {"side": "entry-function", "entry": fname, "flag": flag, "variant": variant, "how": how,
                            "kind": "entry-function", "path": fname}
                    if not flag and not verbatim:
                        ctx.violate(case, "jsonrpc.%s(…, config with use_jsonclass=False) translated its parameters: %s %r"
                                    % (fname, k, d), key="off-dump-not-verbatim:" + fname)
                    if flag and not translated:
                        ctx.violate(case, "jsonrpc.%s(…, config with use_jsonclass=True) did not translate the object: %s %r"
                                    % (fname, k, d), key="on-dump-not-translated:" + fname)
                    ctx.count(nontrivial_key=("entry", fname, flag, how, k), kind="entry/%s/%s" % (fname, "on" if flag else "off"))


# ---- replay -------------------------------------------------------------------------------------------------------

def replay(payload):
    case = payload.get("case") or {}
    print("replaying %s side, use_jsonclass=%s" % (case.get("side"), case.get("flag")))
    canary_setup()
    try:
        flag = bool(case.get("flag"))
        cfg = impl.jsonrpclib.config.Config(use_jsonclass=flag)
        side = case.get("side")
        if side == "direct":
            o = observe(JC.load, case["payload"], None, _payload=case["payload"])
            doc = case["payload"]
        elif side == "loads":
            if case.get("style"):
                print("the text, spelt in the style %r: %s" % (case["style"], case["text"][:600]))
            doc = json.loads(case["text"])
            o = observe(impl.jsonrpclib.loads, case["text"], cfg, _payload=doc)
        elif side == "client":
            proxy = impl.jsonrpclib.jsonrpc.ServerProxy("http://localhost/", config=cfg, version=case.get("version", 2.0),
                                                        transport=impl.LoopTransport(lambda body: case["reply"]))
            doc = json.loads(case["reply"])
            o = observe(proxy.ping, 1, _payload=doc)
        elif side == "server" and not case.get("deep"):
            disp = SimpleJSONRPCDispatcher(config=cfg)
            invoked = []
            disp.register_function(lambda *a, **k: invoked.append((a, k)) or list(a), "echo")
            if case.get("style"):
                print("the body, spelt in the style %r: %s" % (case["style"], case["body"][:600]))
            doc = json.loads(case["body"])
            o = observe(disp._marshaled_dispatch, case["body"], _payload=doc)
            print("invoked:", invoked)
        elif side == "gate":
            print("detail recorded by the check:", payload.get("detail"))
            g = case["gate"]
            x = gate_exchange(*g)
            print("sent:", x["sent"], "\nreplies:", x["replies"], "\nreceived:", x["received"], "\nresults:", x["results"],
                  "\noutcome:", x["o"].kind, repr(x["o"].value)[:200], "canary:", x["o"].canary or "untouched")
            hits = gate_verdicts(g[0], g[1], g[3], g[4], g[5], x)
            for key, detail in hits:
                print("VIOLATION reproduced [%s]: %s" % (key, detail))
            if not hits:
                print("no violation")
            return 1 if hits else 0
        elif side == "entry-server":
            print("detail recorded by the check:", payload.get("detail"))
            o, req, reply, received, denoted = entry_server_exchange(case["entry"], flag, case["variant"], case["form"], case["payload"],
                                                                     case.get("style", "plain"), case.get("spell_seed", 0))
            case = dict(case, payload=denoted)
            print("entry point %s built with Config(use_jsonclass=%s, variant %d), %s request, body spelt in the style %r\n"
                  "the body denotes: %s\nreply: %s\nmethods received: %r"
                  % (case["entry"], flag, case["variant"], case["form"], case.get("style", "plain"), json.dumps(req),
                     str(o.value)[:500], received))
            print("imports by the translator:", o.calls, "canary:", o.canary or "untouched")
            hits = entry_server_verdicts(case["entry"], flag, case["form"], case["payload"], o, req, reply, received)
            if o.kind == "err":
                print("the request got no answer: %s: %s" % (type(o.value).__name__, o.value))
            allowed = allowed_imports(req) if flag else set()
            if [m for m in o.calls + o.events if m not in allowed] or (o.canary and CANARY not in allowed):
                hits.append(("import-not-allowed", "imports %r, canary %r" % (o.calls, o.canary)))
            for key, detail in hits:
                print("VIOLATION reproduced [%s]: %s" % (key, detail))
            if not hits:
                print("no violation")
            return 1 if hits else 0
        elif side == "entry-client":
            print("detail recorded by the check:", payload.get("detail"))
            o, sent, results, replies = entry_client_exchange(case["entry"], flag, case["variant"], case["mode"], case["rkind"],
                                                              case.get("style", "plain"), case.get("spell_seed", 0))
            print("sent:", sent, "\nreplies:", replies, "\nresults:", results, "\noutcome:", o.kind, repr(o.value)[:200],
                  "canary:", o.canary or "untouched")
            hits = entry_client_verdicts(case["entry"], flag, case["mode"], case["rkind"], o, sent, results, replies)
            for key, detail in hits:
                print("VIOLATION reproduced [%s]: %s" % (key, detail))
            if not hits:
                print("no violation")
            return 1 if hits else 0
        elif side == "entry-function":
            print("detail recorded by the check:", payload.get("detail"))

            class C2(object):
                violations = []
                thorough = False
                rng = __import__("random").Random(1)

                def violate(self, c, d, key=None):
                    if c.get("side") == "entry-function":
                        self.violations.append(d)

                def count(self, **kw):
                    pass

            c2 = C2()
            _entry_functions_only(c2)
            for d in c2.violations:
                print("VIOLATION reproduced:", d)
            if not c2.violations:
                print("no violation")
            return 1 if c2.violations else 0
        elif side == "direct-shapes":
            doc = pyval.from_tree(pyval.parse(case["payload_enc"])) if case.get("payload_enc") else None
            if doc is None:
                print("payload not recorded in the codec:", case.get("payload"))
                return 0
            env = jcenv.Env([dict(jcenv.DEC_SPEC)])
            o = observe(JC.load, copy.deepcopy(doc), None, _payload=doc)
        elif side == "server" and case.get("deep"):
            bodies = dict(_deep_bodies())
            disp = SimpleJSONRPCDispatcher(config=cfg)
            invoked = []
            disp.register_function(lambda *a, **k: invoked.append(1) or 1, "echo")
            print("body: %.80s… (%d characters, %s)" % (bodies[case["deep"]], len(bodies[case["deep"]]), case["deep"]))
            o = observe(disp._marshaled_dispatch, bodies[case["deep"]], _payload=None)
            print("outcome:", o.kind, repr(o.value)[:300], "method calls:", len(invoked))
            if o.kind == "err" or "-32700" not in str(o.value) or invoked:
                print("VIOLATION reproduced")
                return 1
            print("no violation")
            return 0
        else:
            print("case:", json.dumps(case)[:1500])
            print(payload.get("detail"))

            class C(object):
                violations = []

                def violate(self, c, d, key=None):
                    self.violations.append(d)

                def count(self, **kw):
                    pass

            c = C()
            _dump_gate(c)
            for d in c.violations:
                print("VIOLATION reproduced:", d)
            return 1 if c.violations else 0
        print("outcome:", o.kind, repr(o.value)[:500])
        print("__import__ calls by the translator:", o.calls, "audit import events:", o.events, "canary:", o.canary or "untouched")
        allowed = allowed_imports(doc) if flag else set()
        bad = [m for m in o.calls + o.events if m not in allowed]
        hit = bool(bad) or bool(o.canary and CANARY not in allowed)
        if not flag and side in ("loads",) and not (o.kind == "ok" and strict_equal(o.value, doc)):
            hit = True
        d = _single_bad(doc) if flag else None
        nested_bad = _any_bad(doc) if flag and d is None and side != "direct-shapes" else None
        if nested_bad is not None:
            print("the payload holds the %s descriptor %r" % (shape(nested_bad), nested_bad["__jsonclass__"]))
            if side in ("direct", "loads") and o.kind != "err":
                hit = True
            if side == "server" and ("-32700" not in str(o.value) or invoked):
                hit = True
            if side == "client" and not (o.kind == "err" and type(o.value).__name__ not in ("AppError", "ProtocolError")):
                hit = True
        if side == "server" and o.kind == "ok" and isinstance(o.value, str):
            try:
                o.value.encode("utf-8")
            except UnicodeEncodeError as ex:
                print("the reply cannot be sent: it has no UTF-8 form (%s)" % ex)
                hit = True
        if d is not None and side in ("direct", "loads") and not (o.kind == "err" and (shape(d) != "invalid-name" or
                                                                                      type(o.value).__name__ == "TranslationError")):
            hit = True
        if side == "server" and d is not None and "-32700" not in str(o.value):
            hit = True
        if side == "client" and d is not None:
            if case.get("style"):
                print("the reply, spelt in the style %r: %s" % (case["style"], case["reply"][:600]))
            # the reply's only descriptor is invalid / malformed: the call must fail in the translator, not go on to the reply
            tname = type(o.value).__name__
            if not (o.kind == "err" and tname not in ("AppError", "ProtocolError")) or (shape(d) == "invalid-name" and tname != "TranslationError"):
                hit = True
        if side == "server" and flag and not case.get("deep"):
            # whatever the translator rejects (in this process: the generated classes of the run are not defined here) must be
            # answered with -32700 and no registered method may run
            k2, r2 = impl.outcome(JC.load, json.loads(case["body"]), cfg.classes)
            sys.modules.pop(CANARY, None)
            if k2 == "err":
                print("the translator rejects the decoded body: %s: %s" % (type(r2).__name__, r2))
                if "-32700" not in str(o.value) or invoked:
                    hit = True
        print("detail recorded by the check:", payload.get("detail"))
        if hit:
            print("VIOLATION reproduced")
            return 1
        print("no violation")
        return 0
    finally:
        canary_teardown()
