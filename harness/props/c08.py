"""
C08 — Class translation is inert when disabled and validates names before importing.

Model   : lean/JRV/Model/JsonClass.lean (load with effect log), lean/JRV/Model/JsonClassGate.lean (rpcLoad: the
          use_jsonclass gate + translator, serverParse), lean/JRV/Model/Payload.lean, lean/JRV/Model/Server.lean
Theorems: lean/JRV/Properties/C08.lean
Tie     : extracted facts (INVALID_MODULE_CHARS ranges, validation before __import__, both use_jsonclass gates,
          loads -> load, loads guarded by try/except in _marshaled_dispatch with Fault(-32700))
          + differential correspondence of the decoding paths against the driver component `rpcload`
          (result / exception class, sequence of __import__ calls made by the translator, parsed|parseError).
Monitor : from the property statement.  Observation of one decoding (`observe`): a process-wide audit hook
          collecting `import` events raised while jsonclass.load is on the stack, a wrapper of builtins.__import__
          recording the calls made by jsonrpclib.jsonclass, and a **canary module** (a file in a mktemp directory on
          sys.path that appends to a file when imported, with a class that appends when constructed).
          * flag off: the decoded value equals json.loads of the text (client: jsonrpclib.loads and a real
            ServerProxy over a LoopTransport; server: what the registered method receives), nothing is imported
            or constructed; jsonrpc.dump leaves the parameters untouched (no handler, no class translation);
          * flag on: every import observed is explained by a descriptor of the payload whose class name is
            non-empty and made of [a-zA-Z0-9_.] only (so a descriptor with an invalid name causes none, at any
            depth); a payload whose only descriptor has an invalid name raises TranslationError (when otherwise
            well-formed) / raises (malformed); whatever the translator rejects is answered by the server with a
            single -32700 error object and no registered method runs.
"""
import builtins
import copy
import json
import os
import shutil
import sys
import tempfile

import gen
import impl
import jcenv
import pyval

import jsonrpclib.jsonclass as JC
from jsonrpclib.SimpleJSONRPCServer import SimpleJSONRPCDispatcher

REQUIRED_THEOREMS = [
    "C08_inert", "C08_inert_effects", "C08_rpcLoad_res", "C08_inert_loads", "C08_inert_dump", "C08_allowed_iff",
    "C08_allowed_generated", "C08_validName_iff", "C08_nameAccepted_iff", "C08_reject_before_import",
    "C08_reject_before_import_list", "C08_malformed", "C08_failure_at_depth", "C08_reject_at_depth",
    "C08_malformed_at_depth", "C08_imports_validated", "C08_server_32700", "C08_server_32700_malformed_json",
    "C08_server_rejects_bad_descriptor", "C08_gen_moduleCharClass", "C08_gen_validationPrecedesImport",
    "C08_gen_useJsonclassGates", "C08_gen_loadsCallsLoad", "C08_gen_loadsGuarded",
]

ALPHABET = ["a", "Z", "0", "_", ".", "-", " ", "\n", "é", "ａ"]
VALID = set("abcdefghijklmnopqrstuvwxyzABCDEFGHIJKLMNOPQRSTUVWXYZ0123456789_.")
LOOKALIKES = ["é", "ａ", "а", "Α", "․", "．", "١", "µ", "\x00", "​", "K", "ſ",
              "퟿", "\U0001d41a", "\t", "/", "\\", ":", "$", "%", "(", ";", "'", "\"", "*", "+", ",", "\x7f", "\xa0"]

CANARY = "jrv_canary_mod"
_STATE = {"dir": None, "file": None}
_AUDIT = {"on": False, "events": []}


def _audit_hook(event, args):
    if _AUDIT["on"] and event == "import":
        f = sys._getframe(1)
        while f is not None:
            if f.f_code.co_name == "load" and f.f_globals.get("__name__") == "jsonrpclib.jsonclass":
                _AUDIT["events"].append(args[0])
                return
            f = f.f_back


sys.addaudithook(_audit_hook)  # once per process (a hook cannot be removed); gated by _AUDIT["on"]


def canary_setup():
    d = tempfile.mkdtemp(prefix="jrv_c08_")
    path = os.path.join(d, "canary.log")
    with open(os.path.join(d, CANARY + ".py"), "w") as fh:
        fh.write("_P = %r\nwith open(_P, 'a') as _fh:\n    _fh.write('imported\\n')\n\n\n"
                 "class Boom(object):\n    def __init__(self, *a, **k):\n        with open(_P, 'a') as fh:\n"
                 "            fh.write('constructed\\n')\n" % path)
    open(path, "w").close()
    sys.path.insert(0, d)
    _STATE["dir"] = d
    _STATE["file"] = path


def canary_teardown():
    d = _STATE["dir"]
    if d:
        if d in sys.path:
            sys.path.remove(d)
        sys.modules.pop(CANARY, None)
        shutil.rmtree(d, ignore_errors=True)
    _STATE["dir"] = _STATE["file"] = None


def canary_size():
    try:
        return os.path.getsize(_STATE["file"])
    except (OSError, TypeError):
        return 0


class Obs(object):
    pass


def observe(fn, *args, **kwargs):
    """Runs fn and reports: outcome, the __import__ calls made by jsonrpclib.jsonclass, the audit `import` events raised
    under jsonclass.load, whether the canary module was imported / its class constructed."""
    sys.modules.pop(CANARY, None)
    size0 = canary_size()
    calls = []
    orig = builtins.__import__

    def recording_import(name, globals=None, locals=None, fromlist=(), level=0):
        if sys._getframe(1).f_globals.get("__name__") == "jsonrpclib.jsonclass":
            calls.append(name)
        return orig(name, globals, locals, fromlist, level)

    _AUDIT["events"] = []
    builtins.__import__ = recording_import
    _AUDIT["on"] = True
    try:
        k, v = impl.outcome(fn, *args, **kwargs)
    finally:
        _AUDIT["on"] = False
        builtins.__import__ = orig
    o = Obs()
    o.kind, o.value = k, v
    o.calls = calls
    o.events = list(_AUDIT["events"])
    o.canary = ""
    if canary_size() != size0:
        with open(_STATE["file"]) as fh:
            fh.seek(size0)
            o.canary = fh.read().replace("\n", ",")
    return o


# ---- what the property allows ------------------------------------------------------------------------------------

def name_ok(s):
    return isinstance(s, str) and s != "" and all(ch in VALID for ch in s)


def descriptors(v, acc=None):
    """Every dict of the payload that has a "__jsonclass__" member (any depth), in document order."""
    if acc is None:
        acc = []
    if isinstance(v, dict):
        if "__jsonclass__" in v:
            acc.append(v)
        for x in v.values():
            descriptors(x, acc)
    elif isinstance(v, list):
        for x in v:
            descriptors(x, acc)
    return acc


def shape(d):
    """'valid' | 'invalid-name' (well-formed, name empty or with a character outside [a-zA-Z0-9_.]) | 'malformed'"""
    j = d["__jsonclass__"]
    if isinstance(j, list) and len(j) >= 2 and isinstance(j[0], str):
        return "valid" if name_ok(j[0]) else "invalid-name"
    if isinstance(j, str) and len(j) >= 2:
        return "valid" if name_ok(j[0]) else "invalid-name"  # Python indexes strings too: name = j[0]
    return "malformed"


def allowed_imports(payload):
    """Module names whose import a valid descriptor of the payload may cause (with parent packages)."""
    out = set()
    for d in descriptors(payload):
        if shape(d) != "valid":
            continue
        name = d["__jsonclass__"][0]
        tree = ".".join(name.split(".")[:-1])
        out.add(tree)
        out.add(name)  # __import__(tree, fromlist=[cls]) also looks for a submodule called like the class
        while tree:
            tree = tree.rpartition(".")[0]
            out.add(tree)
    return out


def check_imports(ctx, case, o, payload, flag, where):
    allowed = allowed_imports(payload) if flag else set()
    bad = [m for m in o.calls + o.events if m not in allowed]
    if bad:
        ctx.violate(case, "%s: module(s) %r imported although no descriptor with a valid class name names them "
                          "(use_jsonclass=%s; __import__ calls %r, audit events %r)" % (where, bad, flag, o.calls, o.events),
                    key="import-not-allowed:%s:%s" % (where, "on" if flag else "off"))
    if o.canary and CANARY not in allowed:
        ctx.violate(case, "%s: the canary module was touched (%s) although no valid descriptor names it (use_jsonclass=%s)"
                    % (where, o.canary, flag), key="canary:%s:%s" % (where, "on" if flag else "off"))


def strict_equal(a, b):
    try:
        return pyval.enc(a, canon=True) == pyval.enc(b, canon=True)
    except pyval.Unencodable:
        return False


# ---- generators ---------------------------------------------------------------------------------------------------

def short_names(thorough, rng):
    out = [""]
    for a in ALPHABET:
        out.append(a)
        for b in ALPHABET:
            out.append(a + b)
    l3 = [a + b + c for a in ALPHABET for b in ALPHABET for c in ALPHABET]
    out.extend(l3 if thorough else rng.sample(l3, 160))
    return out


def mutate_name(rng, base):
    """An invalid name close to a valid one: a bad character inserted / appended / prepended, or a look-alike swapped in."""
    ch = rng.choice(LOOKALIKES + ALPHABET[5:])
    r = rng.random()
    if r < 0.35:
        return base + ch + rng.choice(["", "x", ".X"])
    if r < 0.55:
        return ch + base
    i = rng.randint(0, len(base))
    if r < 0.85:
        return base[:i] + ch + base[i:]
    return base[:i] + ch + base[i + 1:]


def random_unicode(rng):
    n = rng.randint(1, 6)
    out = []
    for _ in range(n):
        r = rng.random()
        if r < 0.4:
            out.append(rng.choice("abzAZ09_."))
        elif r < 0.7:
            out.append(rng.choice(LOOKALIKES))
        else:
            cp = rng.choice([rng.randint(0, 0x7f), rng.randint(0x80, 0x7ff), rng.randint(0x800, 0xd7ff),
                             rng.randint(0xe000, 0xffff), rng.randint(0x10000, 0x10ffff)])
            out.append(chr(cp))
    return "".join(out)


MALFORMED = [None, True, False, 0, 5, 1.5, "", "a", [], {}, {"0": "a"}, {"a": 1}]
FIRST = [None, 0, 5, True, False, 1.5, [], ["a"], {}, {"a": 1}, "", "é.X", "os.path x"]
SECOND = [[], {}, None, 5, "s", [1], {"k": 1}]


def malformed_descriptors(env_names):
    out = [dict([("__jsonclass__", m)]) for m in MALFORMED]
    for f in FIRST + env_names[:2] + ["nosuchmod_jrv.Cls", CANARY + ".Nope"]:
        out.append({"__jsonclass__": [f]})
        for s in SECOND:
            out.append({"__jsonclass__": [f, s]})
            out.append({"__jsonclass__": [f, s, "extra"]})
    return out


class PayloadGen(object):
    def __init__(self, rng, env):
        self.rng = rng
        self.env = env
        self.beans = [s for s in env.specs if s["kind"] == "bean" and not any(x.startswith("unset_") for x in (s["slots"] or []))]

    def emit_name(self, s):
        return s["name"] if s["module"] in ("", "__main__") else "%s.%s" % (s["module"], s["name"])

    def valid_names(self):
        return [self.emit_name(s) for s in self.beans]

    def descriptor(self, depth=1):
        """-> (dict, kind)"""
        rng = self.rng
        r = rng.random()
        if r < 0.22 and self.beans:
            s = rng.choice(self.beans)
            d = {"__jsonclass__": [self.emit_name(s), []]}
            inst = self.env.cls[s["id"]]()
            for n, _x in self.env.stored(inst)[:2]:
                if not n.startswith("__") and rng.random() < 0.6:
                    d[n] = self.value(depth - 1) if depth > 0 else gen.json_scalar(rng)
            return d, "valid-existing"
        if r < 0.30:
            return {"__jsonclass__": [rng.choice(["nosuchmod_jrv.Cls", "nosuchpkg_jrv.sub.Cls", "os.NoSuchThing", "json.Missing",
                                                  "Unregistered", "a.b.c"]), rng.choice([[], {}, [1]])]}, "valid-missing"
        if r < 0.36:
            return {"__jsonclass__": [CANARY + ".Nope", []]}, "valid-canary"
        if r < 0.62:
            base = rng.choice(self.valid_names() + [CANARY + ".Boom", CANARY + ".Boom", "os.getcwd", "os.path.join", "decimal.Decimal"])
            return {"__jsonclass__": [mutate_name(rng, base), rng.choice([[], {}, ["id"]])], "a": 1}, "invalid-mutated"
        if r < 0.72:
            return {"__jsonclass__": [random_unicode(rng), []]}, "random-unicode"
        if r < 0.78:
            return {"__jsonclass__": ["", rng.choice([[], {}])]}, "invalid-empty"
        if r < 0.88:
            return {"__jsonclass__": [rng.choice(ALPHABET[4:]) .join(rng.sample(["a", "Z", "0", "_"], 2)), []]}, "invalid-short"
        m = rng.choice(malformed_descriptors(self.valid_names()))
        return copy.deepcopy(m), "malformed"

    def value(self, depth):
        rng = self.rng
        r = rng.random()
        if depth <= 0 or r < 0.3:
            return gen.json_scalar(rng)
        if r < 0.5:
            return self.descriptor(depth - 1)[0]
        n = rng.randint(0, 3)
        if r < 0.75:
            return [self.value(depth - 1) for _ in range(n)]
        return dict((rng.choice(gen.KEYS[:6]), self.value(depth - 1)) for _ in range(n))

    def nest(self, d, depth):
        """Puts the descriptor dict at some depth of lists / dicts / attributes of a valid descriptor, with siblings."""
        rng = self.rng
        v = d
        path = []
        for _ in range(depth):
            r = rng.random()
            sib = [self.value(1) for _ in range(rng.randint(0, 2))]
            if r < 0.4:
                i = rng.randint(0, len(sib))
                v = sib[:i] + [v] + sib[i:]
                path.append("list")
            elif r < 0.8 or not self.beans:
                keys = rng.sample(gen.KEYS[:6], min(len(sib) + 1, 6))
                items = list(zip(keys[1:], sib))
                i = rng.randint(0, len(items))
                items.insert(i, (keys[0], v))
                v = dict(items)
                path.append("dict")
            else:
                s = rng.choice(self.beans)
                inst = self.env.cls[s["id"]]()
                names = [n for n, _x in self.env.stored(inst) if not n.startswith("__")] or ["extra_attr"]
                v = {"__jsonclass__": [self.emit_name(s), []], rng.choice(names): v}
                path.append("attr")
        return v, "/".join(path) or "top"


# ---- the run -------------------------------------------------------------------------------------------------------

def make_cfg(env, flag, version=2.0):
    cfg = impl.jsonrpclib.config.Config(version=version, use_jsonclass=flag)
    for s in env.specs:
        if s["module"] == "__main__" and s["kind"] != "decimal":
            cfg.classes.add(env.cls[s["id"]], s["name"])
    return cfg


def class_pairs(env):
    return [[s["name"], s["id"]] for s in env.specs if s["module"] == "__main__" and s["kind"] != "decimal"]


def model_line(env, flag, value):
    return "rpcload %s %s %s %s" % ("T" if flag else "F", pyval.enc(class_pairs(env)),
                                    env.enc([env.lean_classes(), ["os", "json", "decimal", CANARY]]), pyval.enc(value))


def parse_model(mo):
    parts = mo.split(" | ")
    if len(parts) != 3:
        return None
    res = impl.canon_model_line(parts[0], keep_arg=())
    log = pyval.from_tree(pyval.parse(parts[1]))
    imports = [e[1] for e in log if e[0] == "import"]
    return res, imports, parts[2]


def run(ctx):
    ctx.rule = ("payloads = descriptors (existing / missing / canary modules, names mutated with one bad character or look-alike, "
                "random Unicode, empty, every malformed shape: each JSON type, lists of length 0-3) at depth 0-3 of lists, dicts and "
                "attributes of valid descriptors, with siblings; decoded directly (jsonrpclib.loads), as a reply through a real "
                "ServerProxy (LoopTransport) and as a request body through _marshaled_dispatch; use_jsonclass on and off; plus the "
                "class names of length <= 3 over the alphabet a Z 0 _ . - space newline e-acute fullwidth-a (exhaustive in the "
                "thorough tier); distinct_nontrivial = distinct (descriptor kind, nesting path, side, flag, outcome)")
    canary_setup()
    pending = []  # (model line, expectation, case)
    try:
        _names_stream(ctx, pending)
        n_envs = ctx.budget(6, 24)
        per_env = ctx.budget(260, 500)
        for e in range(n_envs):
            specs = jcenv.gen_specs(ctx.rng, gen, "q%d" % e, local_ratio=ctx.rng.choice([0.0, 0.3]))
            env = jcenv.Env(specs).install()
            try:
                _run_env(ctx, env, per_env, pending)
            finally:
                env.uninstall()
        _dump_gate(ctx)
    finally:
        canary_teardown()
    outs = ctx.lean([p[0] for p in pending])
    unmodelled = 0
    for (ln, exp, case), mo in zip(pending, outs):
        if "err Unmodelled" in mo:
            unmodelled += 1
            continue
        pm = parse_model(mo)
        if pm is None:
            ctx.disagree(ln[-600:], repr(exp)[:400], mo[:400], component="rpcload")
            continue
        res, imports, po = pm
        got = {"result": res if exp.get("full") else res.split(" ")[0] + (" " + res.split(" ")[1] if res.startswith("err ") else ""),
               "imports": imports}
        want = {"result": exp["result"], "imports": exp["imports"]}
        if "parse" in exp:
            got["parse"] = po
            want["parse"] = exp["parse"]
        if want["result"] is None:
            got["result"] = None
        if got != want:
            ctx.disagree(ln[-600:], json.dumps(want)[:500], json.dumps(got)[:500], component="rpcload/" + exp.get("side", ""))
    ctx.traces_validated += len(pending) - unmodelled
    ctx.extra["unmodelled_cases"] = unmodelled
    ctx.exhaustive = False
    ctx.assumptions.append("__import__/getattr are represented by the class environment and the list of importable modules handed to "
                           "the model; `import` audit events are attributed to the translator when jsonclass.load is on the stack")


def _expect_from(o, full):
    if o.kind == "ok":
        try:
            return "ok " + pyval.enc(o.value, canon=True) if full else "ok"
        except pyval.Unencodable:
            return None
    return "err " + type(o.value).__name__


def _names_stream(ctx, pending):
    """Class names: short names over the representative alphabet, random Unicode, look-alikes — direct jsonclass.load."""
    rng = ctx.rng
    env = jcenv.Env([dict(jcenv.DEC_SPEC)])
    names = short_names(ctx.thorough, rng)
    names += [random_unicode(rng) for _ in range(ctx.budget(150, 1500))]
    names += [mutate_name(rng, b) for b in [CANARY + ".Boom", "os.getcwd", "decimal.Decimal"] for _ in range(ctx.budget(25, 200))]
    for s in names:
        for params in ([], {}):
            payload = {"__jsonclass__": [s, params]}
            if ctx.rng.random() < 0.3:
                payload = [1, {"k": payload}]
            o = observe(JC.load, copy.deepcopy(payload), None)
            case = {"side": "direct", "payload": payload, "name": s, "flag": True}
            ok_name = name_ok(s)
            if not ok_name:
                if not (o.kind == "err" and type(o.value).__name__ == "TranslationError"):
                    ctx.violate(case, "class name %r (empty or with a character outside [a-zA-Z0-9_.]) was not rejected with "
                                      "TranslationError: %s %r" % (s, o.kind, o.value), key="invalid-name-accepted")
            check_imports(ctx, case, o, payload, True, "direct")
            exp = _expect_from(o, True)
            if exp is not None:
                try:
                    pending.append((model_line(env, True, payload), {"result": exp, "imports": o.calls, "full": True, "side": "names"}, case))
                except pyval.Unencodable:
                    pass
            ctx.count(case_repr=case if len(s) == 3 and s[1] == "é" and params == [] and ctx.evaluations < 400 else None,
                      nontrivial_key=("name", "".join("v" if ch in VALID else "x" for ch in s)[:6], exp),
                      kind="names/%s/%s" % ("valid" if ok_name else "invalid", exp.split(" ")[-1] if exp else "?"))
    ctx.extra["names_checked"] = len(names)
    ctx.extra["short_names_exhaustive_len3"] = bool(ctx.thorough)


def _run_env(ctx, env, per_env, pending):
    rng = ctx.rng
    pg = PayloadGen(rng, env)
    for i in range(per_env):
        d, kind = pg.descriptor(1)
        depth = rng.choice([0, 1, 1, 2, 2, 3])
        payload, path = pg.nest(d, depth)
        flag = rng.random() < 0.6
        side = rng.choice(["loads", "client", "server", "server"])
        if side == "loads":
            _side_loads(ctx, env, payload, kind, path, flag, pending)
        elif side == "client":
            _side_client(ctx, env, payload, kind, path, flag, pending)
        else:
            _side_server(ctx, env, pg, payload, kind, path, flag, pending)


def _single_bad(payload):
    ds = descriptors(payload)
    return ds[0] if len(ds) == 1 and shape(ds[0]) != "valid" else None


def _check_single_bad(ctx, case, o, payload, where):
    """A payload whose only descriptor is invalid / malformed must be rejected (TranslationError when well-formed)."""
    d = _single_bad(payload)
    if d is None:
        return
    if o.kind != "err":
        ctx.violate(case, "%s: the payload's only descriptor %r is %s but decoding succeeded: %r"
                    % (where, d["__jsonclass__"], shape(d), o.value), key="bad-descriptor-accepted:" + shape(d))
    elif shape(d) == "invalid-name" and type(o.value).__name__ != "TranslationError":
        ctx.violate(case, "%s: invalid class name %r rejected with %s instead of TranslationError"
                    % (where, d["__jsonclass__"][0], type(o.value).__name__), key="invalid-name-wrong-error")


def _side_loads(ctx, env, payload, kind, path, flag, pending):
    cfg = make_cfg(env, flag)
    text = json.dumps(payload)
    o = observe(impl.jsonrpclib.loads, text, cfg)
    case = {"side": "loads", "text": text, "flag": flag, "kind": kind, "path": path}
    check_imports(ctx, case, o, payload, flag, "loads")
    if not flag:
        if not (o.kind == "ok" and strict_equal(o.value, json.loads(text))):
            ctx.violate(case, "use_jsonclass off: loads gave %s %r instead of json.loads' %r" % (o.kind, o.value, json.loads(text)),
                        key="off-not-plain-json:loads")
    else:
        _check_single_bad(ctx, case, o, payload, "loads")
    exp = _expect_from(o, False)
    full = False
    if o.kind == "ok":
        try:
            exp = "ok " + env.enc(o.value, canon=True)
            full = True
        except pyval.Unencodable:
            pass
    pending.append((model_line(env, flag, json.loads(text)), {"result": exp, "imports": o.calls, "full": full, "side": "loads"}, case))
    _count(ctx, case, o, kind, path)


def _side_client(ctx, env, payload, kind, path, flag, pending):
    """The payload as the result (or the error data) of a reply decoded by a real ServerProxy."""
    cfg = make_cfg(env, flag)
    as_error = ctx.rng.random() < 0.2
    version = ctx.rng.choice([1.0, 2.0])

    def handler(body):
        rid = json.loads(body).get("id")
        if as_error:
            rep = {"id": rid, "error": {"code": -32000, "message": "m", "data": payload}}
        else:
            rep = {"id": rid, "result": payload}
        if version >= 2:
            rep["jsonrpc"] = "2.0"
        elif "error" not in rep:
            rep["error"] = None
        elif "result" not in rep:
            rep["result"] = None
        handler.reply = json.dumps(rep)
        return handler.reply

    proxy = impl.jsonrpclib.jsonrpc.ServerProxy("http://localhost/", transport=impl.LoopTransport(handler), config=cfg, version=version)
    o = observe(proxy.ping, 1)
    reply = json.loads(getattr(handler, "reply", "null"))
    case = {"side": "client", "reply": getattr(handler, "reply", None), "flag": flag, "kind": kind, "path": path, "version": version}
    check_imports(ctx, case, o, payload, flag, "client")
    if not flag:
        if as_error:
            if not (o.kind == "err" and type(o.value).__name__ in ("AppError", "ProtocolError")):
                ctx.violate(case, "use_jsonclass off: error reply gave %s %r" % (o.kind, o.value), key="off-client-error")
        elif not (o.kind == "ok" and strict_equal(o.value, payload)):
            ctx.violate(case, "use_jsonclass off: the proxy returned %s %r instead of the JSON result %r" % (o.kind, o.value, payload),
                        key="off-not-plain-json:client")
    else:
        d = _single_bad(payload)
        if d is not None and not (o.kind == "err" and type(o.value).__name__ not in ("AppError", "ProtocolError")):
            ctx.violate(case, "client: the reply's only descriptor %r is %s but the call gave %s %r"
                        % (d["__jsonclass__"], shape(d), o.kind, o.value), key="bad-descriptor-accepted:client")
        elif d is not None and shape(d) == "invalid-name" and type(o.value).__name__ != "TranslationError":
            ctx.violate(case, "client: invalid class name %r rejected with %s" % (d["__jsonclass__"][0], type(o.value).__name__),
                        key="invalid-name-wrong-error")
    # model: the translator runs on the whole reply document
    if o.kind == "err" and type(o.value).__name__ in ("AppError", "ProtocolError"):
        exp = "ok"  # decoding succeeded; the error is the reply's
    else:
        exp = _expect_from(o, False)
    pending.append((model_line(env, flag, reply), {"result": exp, "imports": o.calls, "side": "client"}, case))
    _count(ctx, case, o, kind, path)


def _side_server(ctx, env, pg, payload, kind, path, flag, pending):
    """The payload inside a request body handled by _marshaled_dispatch."""
    rng = ctx.rng
    cfg = make_cfg(env, flag)
    disp = SimpleJSONRPCDispatcher(config=cfg)
    invoked = []

    def echo(*args, **kwargs):
        invoked.append((args, kwargs))
        return [list(args), kwargs] if kwargs else list(args)

    disp.register_function(echo, "echo")
    where = rng.choice(["params-list", "params-list", "params-dict", "id", "whole", "batch", "method", "extra-member"])
    req = {"jsonrpc": "2.0", "method": "echo", "id": 7}
    if where == "params-list":
        req["params"] = [payload, 1]
    elif where == "params-dict":
        req["params"] = {"p": payload}
    elif where == "id":
        req["id"] = payload
        req["params"] = [1]
    elif where == "method":
        req["method"] = payload
    elif where == "extra-member":
        req["params"] = [1]
        req["extra"] = payload
    elif where == "whole":
        req = payload
    else:
        req = [{"jsonrpc": "2.0", "method": "echo", "id": 1, "params": [1]}, {"jsonrpc": "2.0", "method": "echo", "id": 2, "params": [payload]}]
    body = json.dumps(req)
    o = observe(disp._marshaled_dispatch, body)
    case = {"side": "server", "body": body, "flag": flag, "kind": kind, "path": where + "/" + path}
    check_imports(ctx, case, o, req, flag, "server")
    reply = None
    if o.kind == "ok" and o.value:
        try:
            reply = json.loads(o.value)
        except ValueError:
            reply = None
    is_32700 = isinstance(reply, dict) and isinstance(reply.get("error"), dict) and reply["error"].get("code") == -32700
    # does the translator reject this document?  (decided by the translator itself, observed separately)
    rejected = False
    if flag:
        k2, _r2 = impl.outcome(JC.load, json.loads(body), cfg.classes)
        sys.modules.pop(CANARY, None)
        rejected = k2 == "err"
    if o.kind == "err":
        ctx.violate(case, "_marshaled_dispatch raised %s: %s" % (type(o.value).__name__, o.value), key="server-raises")
    elif rejected:
        if not is_32700 or invoked:
            ctx.violate(case, "the translator rejects the payload but the server answered %r and invoked %r" % (o.value, invoked),
                        key="rejected-not-32700")
    elif is_32700:
        ctx.violate(case, "the server answered -32700 to a payload the translator accepts (use_jsonclass=%s): %r" % (flag, o.value),
                    key="unexpected-32700")
    d = _single_bad(req) if flag else None
    if d is not None and not is_32700:
        ctx.violate(case, "server: the body's only descriptor %r is %s but the reply is %r" % (d["__jsonclass__"], shape(d), o.value),
                    key="bad-descriptor-accepted:server")
    if not flag and where in ("params-list", "params-dict"):
        # nothing is interpreted: the method receives exactly the JSON parameters
        want = ((payload, 1), {}) if where == "params-list" else ((), {"p": payload})
        if len(invoked) != 1 or not strict_equal([list(invoked[0][0]), invoked[0][1]], [list(want[0]), want[1]]):
            ctx.violate(case, "use_jsonclass off: the method received %r instead of the JSON parameters %r" % (invoked, want),
                        key="off-not-plain-json:server")
        elif not (isinstance(reply, dict) and strict_equal(reply.get("result"), [payload, 1] if where == "params-list" else [[], {"p": payload}])):
            ctx.violate(case, "use_jsonclass off: the reply %r does not carry the parameters back verbatim" % (o.value,),
                        key="off-reply-not-verbatim")
    exp = {"result": "err *" if (flag and rejected) else "ok", "imports": o.calls, "parse": "parseError" if is_32700 else "parsed",
           "side": "server"}
    if flag and rejected:
        # class of the exception is not observable through the server; compare the rest
        exp["result"] = None
    pending.append((model_line(env, flag, json.loads(body)), exp, case))
    _count(ctx, case, o, kind, where + "/" + path, extra="32700" if is_32700 else ("invoked%d" % len(invoked)))


def _count(ctx, case, o, kind, path, extra=""):
    outc = "ok" if o.kind == "ok" else type(o.value).__name__
    ctx.count(case_repr=case if ctx.evaluations % 400 == 0 else None,
              nontrivial_key=(kind, path, case["side"], case["flag"], outc, extra),
              kind="%s/%s/%s/%s%s" % (case["side"], "on" if case["flag"] else "off", kind, outc, "/" + extra if extra else ""))


def _dump_gate(ctx):
    """jsonrpc.dump with the flag off: parameters and results pass through untouched (no class translation, no handler)."""
    J = impl.jsonrpclib.jsonrpc

    class Bean(object):
        def __init__(self):
            self.a = 1

    def handler(obj, sm, ia, ig, cfg):
        return "HANDLED"

    for flag in (False, True):
        cfg = impl.jsonrpclib.config.Config(use_jsonclass=flag)
        cfg.serialize_handlers[str] = handler
        cfg.serialize_handlers[set] = handler
        for params, label in (([{"__jsonclass__": ["os.getcwd", []]}, "s"], "plain"), ([Bean()], "bean"), ([{1, 2}], "set"),
                              (["text", ("t",)], "str")):
            for resp in (False, True):
                k, d = impl.outcome(J.dump, params, None if resp else "m", 5, 2.0, resp, None, cfg)
                case = {"side": "dump", "flag": flag, "label": label, "response": resp, "params": repr(params)}
                got = d.get("result" if resp else "params") if k == "ok" and isinstance(d, dict) else None
                if not flag:
                    if k != "ok" or got is not params:
                        ctx.violate(case, "use_jsonclass off: jsonrpc.dump changed the parameters %r into %r (%s)" % (params, got, k),
                                    key="off-dump-not-verbatim")
                elif label == "str" and (k != "ok" or got != ["HANDLED", ["HANDLED"]]):
                    ctx.violate(case, "use_jsonclass on: jsonrpc.dump did not apply the configured handler: %r" % (got,),
                                key="on-dump-no-handler")
                ctx.count(kind="dump/%s/%s/%s" % ("on" if flag else "off", label, k))
        # through the client: a bean parameter cannot be sent with the flag off (nothing is translated)
        sent = []
        proxy = J.ServerProxy("http://localhost/", config=cfg,
                              transport=impl.LoopTransport(lambda body: sent.append(body) or '{"jsonrpc":"2.0","id":1,"result":null}'))
        k, r = impl.outcome(proxy.m, Bean())
        if not flag and (sent and "__jsonclass__" in sent[0]):
            ctx.violate({"side": "dump", "flag": flag, "label": "proxy-bean"}, "use_jsonclass off: the client sent a translated object: %r"
                        % sent[0], key="off-dump-not-verbatim")
        ctx.count(kind="dump/proxy/%s/%s" % ("on" if flag else "off", k))


# ---- replay -------------------------------------------------------------------------------------------------------

def replay(payload):
    case = payload.get("case") or {}
    print("replaying %s side, use_jsonclass=%s" % (case.get("side"), case.get("flag")))
    canary_setup()
    try:
        flag = bool(case.get("flag"))
        cfg = impl.jsonrpclib.config.Config(use_jsonclass=flag)
        side = case.get("side")
        if side == "direct":
            o = observe(JC.load, case["payload"], None)
            doc = case["payload"]
        elif side == "loads":
            o = observe(impl.jsonrpclib.loads, case["text"], cfg)
            doc = json.loads(case["text"])
        elif side == "client":
            proxy = impl.jsonrpclib.jsonrpc.ServerProxy("http://localhost/", config=cfg, version=case.get("version", 2.0),
                                                        transport=impl.LoopTransport(lambda body: case["reply"]))
            o = observe(proxy.ping, 1)
            doc = json.loads(case["reply"])
        elif side == "server":
            disp = SimpleJSONRPCDispatcher(config=cfg)
            invoked = []
            disp.register_function(lambda *a, **k: invoked.append((a, k)) or list(a), "echo")
            o = observe(disp._marshaled_dispatch, case["body"])
            doc = json.loads(case["body"])
            print("invoked:", invoked)
        else:
            print("case:", json.dumps(case)[:1500])
            print(payload.get("detail"))

            class C(object):
                violations = []

                def violate(self, c, d, key=None):
                    self.violations.append(d)

                def count(self, **kw):
                    pass

            c = C()
            _dump_gate(c)
            for d in c.violations:
                print("VIOLATION reproduced:", d)
            return 1 if c.violations else 0
        print("outcome:", o.kind, repr(o.value)[:500])
        print("__import__ calls by the translator:", o.calls, "audit import events:", o.events, "canary:", o.canary or "untouched")
        allowed = allowed_imports(doc) if flag else set()
        bad = [m for m in o.calls + o.events if m not in allowed]
        hit = bool(bad) or bool(o.canary and CANARY not in allowed)
        if not flag and side in ("loads",) and not (o.kind == "ok" and strict_equal(o.value, doc)):
            hit = True
        d = _single_bad(doc) if flag else None
        if d is not None and side in ("direct", "loads") and not (o.kind == "err" and (shape(d) != "invalid-name" or
                                                                                      type(o.value).__name__ == "TranslationError")):
            hit = True
        if side == "server" and d is not None and "-32700" not in str(o.value):
            hit = True
        print("detail recorded by the check:", payload.get("detail"))
        if hit:
            print("VIOLATION reproduced")
            return 1
        print("no violation")
        return 0
    finally:
        canary_teardown()
