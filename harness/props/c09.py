"""
C09 — The pool runs every accepted task exactly once and reports it faithfully.

Model   : lean/JRV/Model/Pool.lean (labelled transition system at synchronisation-operation granularity)
Theorems: lean/JRV/Properties/C09.lean (invariants in lean/JRV/Lemmas/Pool*.lean, PoolC09*.lean)
Tie     : extracted lock discipline / growth / retirement facts (tools/extractors/pool.py) + LOCKSTEP correspondence:
          every execution of the real ThreadPool under the deterministic scheduler (harness/sched.py) is replayed action
          by action by the model and the projections must agree after every step.
Monitor : harness/poolcommon.py (written from the property statement): at most one execution per task, own arguments,
          future identity, nothing begins between the return of stop() and the next start() and no worker is left able to
          take a task when stop() returns, FIFO with one worker, no task lost at the end of a run, exactly once in
          programs that drain; enqueue(non-callable) raises the documented ValueError; observations of a future through
          the public API: done() True only for a task that has ended, result() that answers delivers THE returned object /
          raises THE raised exception, and once a client has been told that a future is done every later done() is True
          and every later result() (any time-out) answers at once with that outcome.
Inputs  : tasks presented as named callables, bare callable instances and functools.partial objects (no __name__),
          returning truthy / falsy-but-not-None / None objects or raising exceptions with empty args / OSError / falsy exception
          objects / HOSTILE exception objects (harness/hostile.py: `__str__`, `__repr__`, `__format__`, `args`, `__bool__`,
          `__eq__`, `__hash__` raising, `__str__` returning None, 1 MiB / format-directive / lone-surrogate messages, classes
          with required constructor arguments; in random programs and - every kind, in every run - with a follower queued
          behind the failing task on a single worker: poolcommon.hostile_sweep; extracted fact poolRunLogsExcOpaque), called with tuples, with nothing or with falsy arguments (poolcommon.gen_variant).
          Observations done() / result(0) / result(0.0) / result(1.0) / result() and done-then-result, in random programs
          and - in every run - placed before and after every operation of the worker that completes a returning / raising
          task (poolcommon.observe_sweep), the point between the future's flag and the return of Event.set() included
          (`fut.published`, a scheduling point of the shim for the futures' events).
          Argument lists of every shape (poolcommon.gen_argspec / argument_sweep): 0-4 positional arguments (objects,
          tuples, dicts, lists, None, 0, strings, callables) and keyword arguments whose NAMES are options somewhere in the
          pool / threading / queue API (callback, timeout, name, args, kwargs, block, daemon, target, result, extra, ...):
          the task body checks that it received exactly the objects enqueue() was given (`wrong-arguments`), and a callable
          handed to a task may be called by nobody else (`argument-hijacked`).  A keyword named `self` / `method` cannot be
          passed through enqueue(self, method, *args, **kwargs): Python raises TypeError at the call, the task is not
          accepted (counted: args/keyword-refused-by-python).  Extracted fact poolTaskArgsForwarded ties the source.
"""
import poolcommon as pc

REQUIRED_THEOREMS = [
    "C09_at_most_once", "C09_exec_count_phase", "C09_single_holder", "C09_queue_nodup",
    "C09_future_faithful", "C09_result_faithful", "C09_done_faithful", "C09_done_stable", "C09_done_then_result",
    "C09_none_after_stop", "C09_fifo_single", "C09_single_worker",
    "C09_queued_has_server", "C09_eventually_once", "C09_eventually_begins",
    "C09_gen_poolUnlockedAccesses", "C09_gen_poolPendingStores", "C09_gen_poolGrowthRule", "C09_gen_poolRetireRule",
    "C09_gen_poolRunHandlerSafe", "C09_gen_poolStartRollback", "C09_gen_poolFuturePublishesLast", "C09_gen_poolQueuePuts", "C09_gen_poolTaskArgsForwarded",
    "C09_gen_poolRunLogsExcOpaque",
]

MIX = [(3, "L1", None), (2, "L2", None), (2, "G", None), (1, "W", None), (1, "GR", None), (1, "L1", (1, 1)), (1, "L2", (1, 0)),
       (2, "S", None), (1, "F", None), (1, "N", None), (1, "B", None), (1, "C", None)]


def run(ctx):
    pc.check(ctx, "C09", MIX, 400, 9000)


def search(ctx):
    """Tie broken and no monitor hit yet: one bounded search for a failing input (no lockstep)."""
    pc.check(ctx, "C09", MIX, 450, 1500)


def replay(payload):
    return pc.replay(payload, "C09")
