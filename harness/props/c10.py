"""
C10 — Pool concurrency is bounded by max_threads yet grows to it when work waits.

Model/Tie: as C09 (lean/JRV/Model/Pool.lean, lockstep correspondence under harness/sched.py) + `poolctor` (mkPool?).
Theorems : lean/JRV/Properties/C10.lean
Monitor  : harness/poolcommon.py: tasks inside their body <= max, serving workers <= max, >= min from the return of start()
           until stop() is called, starvation at quiescence (a queued task, all serving workers busy, fewer than max
           workers), deadlock of gate-dependent workloads; constructor table below (documented behaviour); a counter of
           waiting / running tasks never goes negative (`counter-drift`).  Class C: the growth claim is also judged after a
           direct clear() on a running pool, in programs built so that clear() is certain to return (poolcommon.gen_clear_running:
           every accepted task is inside its body, nobody else enqueues - the deadlock of DESIGN.md 10.1 cannot occur).
"""
import math

import impl  # noqa: F401
import jsonrpclib.threadpool as tp

import poolcommon as pc

REQUIRED_THEOREMS = [
    "C10_running_le_max", "C10_serving_le_max", "C10_ctor_max_rejected", "C10_ctor_min_rejected", "C10_ctor_accepted",
    "C10_ctor_nonfinite", "C10_counters_exact", "C10_start_failure_rollback", "C10_threads_le_max",
    "C10_no_starvation_owed", "C10_no_starvation", "C10_no_starvation_unlocked", "C10_free_worker_exists",
    "C10_min_floor", "C10_serving_eq_threads",
    "C10_progress_no_stuck_worker", "C10_progress_no_stuck", "C10_progress_measure",
    "C10_gen_poolGrowthRule", "C10_gen_poolSpawnRefusal", "C10_gen_poolRetireRule", "C10_gen_poolPendingStores",
    "C10_gen_poolClearDecrementsTasksOnly", "C10_gen_poolCtorDefaults", "C10_gen_poolUnlockedAccesses",
    "C10_gen_poolCtorCatches", "C10_gen_poolStartRollback", "C10_gen_poolRunHandlerSafe", "C10_gen_poolQueuePuts",
]

MIX = [(3, "GR", None), (2, "G", (3, 0)), (1, "G", (2, 0)), (2, "G", None), (2, "L1", None), (2, "L2", None), (1, "W", None),
       (2, "F", None), (1, "S", None), (1, "N", None), (1, "C", None), (1, "B", None)]

INF = float("inf")
ARGS = [1, 2, 3, 0, -1, -5, 7, True, False, 1.0, 2.7, 0.5, -0.5, -3.2, 3.999, "2", " 3 ", "-1", "0", "x", "", "2.5", "1e3",
        None, [], {}, (1,), b"2", 10 ** 6,
        # non-finite and huge values: int() raises OverflowError (inf; 1e400 is inf) / ValueError (nan)
        INF, -INF, float("nan"), 1e400, 1e308, -1e308, 10 ** 400, "inf", "nan"]


def abstract(v):
    if isinstance(v, bool) or isinstance(v, int):
        return "i%d" % int(v)
    if isinstance(v, float):
        if v != v:
            return "fnan"
        if v in (INF, -INF):
            return "finf" if v > 0 else "f-inf"
        return "f%d" % math.trunc(v)
    if isinstance(v, (str, bytes)):
        try:
            return "s%d" % int(v)
        except ValueError:
            return "sx"
    if v is None:
        return "n"
    return "o"


def numeric(v):
    """int(v) as the documentation means it: the value or None when v is not numeric."""
    try:
        return int(v)
    except (TypeError, ValueError, OverflowError):
        # inf / nan are not numbers of threads either
        return None


def ctor_monitor(mx, mn, qs, kind, val):
    """Documented behaviour (docstring + property statement), checked on the real outcome."""
    m = numeric(mx)
    if m is None or m < 1:
        if kind != "err" or not isinstance(val, ValueError):
            return "max_threads=%r not rejected with ValueError (%s %r)" % (mx, kind, val)
        return None
    n = numeric(mn)
    if n is None:
        if kind != "err" or not isinstance(val, ValueError):
            return "non-numeric min_threads=%r not rejected with ValueError" % (mn,)
        return None
    if kind != "ok":
        return "valid arguments (%r, %r, %r) rejected: %r" % (mx, mn, qs, val)
    exp_min = min(max(n, 0), m)
    if val._max_threads != m or val._min_threads != exp_min:
        return "(%r, %r): pool has max=%r min=%r, documented %r / %r" % (mx, mn, val._max_threads, val._min_threads, m, exp_min)
    q = numeric(qs)
    exp_q = q if (q is not None and q > 0) else 0
    got_q = val._queue.maxsize if val._queue.maxsize > 0 else 0
    if got_q != exp_q:
        return "queue_size=%r gives bound %r, documented %r" % (qs, got_q, exp_q)
    return None


def ctor_cases(ctx):
    cases = []
    for mx in ARGS:
        for mn in [1, 0, -2, 5, 2.9, "1", "x", None, [], True, INF, float("nan")]:
            cases.append((mx, mn, 0))
    for mn in ARGS:
        cases.append((3, mn, 0))
        cases.append((1, mn, 1))
    for qs in ARGS:
        cases.append((2, 1, qs))
    for _ in range(ctx.budget(150, 3000)):
        cases.append((ctx.rng.choice(ARGS), ctx.rng.choice(ARGS), ctx.rng.choice(ARGS)))
    return cases


def ctor_check(ctx):
    lines, impl_out = [], []
    for mx, mn, qs in ctor_cases(ctx):
        kind, val = impl.outcome(tp.ThreadPool, mx, mn, qs)
        msg = ctor_monitor(mx, mn, qs, kind, val)
        if msg:
            ctx.violate({"ctor": [repr(mx), repr(mn), repr(qs)]}, "[C10] constructor: " + msg, key="ctor:" + msg[:50])
        if kind == "ok":
            mq = val._queue.maxsize
            io = "ok %d %d %d" % (val._max_threads, val._min_threads, mq if mq > 0 else 0)
        else:
            io = "err " + type(val).__name__
        lines.append("poolctor %s %s %s" % (abstract(mx), abstract(mn), abstract(qs)))
        impl_out.append(io)
        def cls(a):
            return a if a in ("finf", "f-inf", "fnan") else a[0]
        ctx.count(None, ("ctor", cls(abstract(mx)), cls(abstract(mn)), cls(abstract(qs)), io.split(" ")[0]), "ctor/" + io.split(" ")[0])
    outs = ctx.lean(lines)
    for ln, mo, io in zip(lines, outs, impl_out):
        if mo != io:
            ctx.disagree(ln, io, mo, component="poolctor")
    ctx.traces_validated += len(lines)


def run(ctx):
    ctor_check(ctx)
    pc.check(ctx, "C10", MIX, 600, 9000)


def search(ctx):
    """Tie broken and no monitor hit yet: one bounded search for a failing input (no lockstep)."""
    pc.check(ctx, "C10", MIX, 500, 1500)


def replay(payload):
    case = payload.get("case") or {}
    if "ctor" in case:
        print("constructor case (reprs):", case["ctor"])
        print(payload.get("detail"))
        return 1
    return pc.replay(payload, "C10")
