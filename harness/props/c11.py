"""
C11 — join() means finished; stop() always terminates; the pool is restartable.

Model/Tie: as C09 (lean/JRV/Model/Pool.lean, lockstep correspondence under harness/sched.py).
Theorems : lean/JRV/Properties/C11.lean
Monitor  : harness/poolcommon.py: join()/join(t) return values against the completion state of the tasks accepted before
           the call, stop() returns in every explored schedule (deadlock / step-limit detection), all workers dead and
           fresh-pool accounting at the return of stop(), redundant start()/stop() are single no-op operations,
           the same monitors across restarts; join(0) / join(0.0) answer at once (never blocked) with the right Boolean.
           stop() does not depend on the pool's idle time-out (`stop-needs-idle-timeout`: nobody enabled, the stopping
           thread parked in Thread.join, a worker asleep in queue.get on an empty queue - no stop marker left for it;
           theorems C11_stop_markers_cover / C11_stop_waiter_enabled say that the unchanged pool never gets there); class B:
           bounded queues smaller than the number of idle workers at stop(), also with timeout=None.
Assumed  : a finite pool `timeout` (hypothesis `cfg.timeoutNone = false` of C11_stop_no_stuck); pools built with
           timeout=None are run for the correspondence and the safety monitors only (class N).
"""
import poolcommon as pc

REQUIRED_THEOREMS = [
    "C11_join_true", "C11_join_timeout", "C11_join_true_running", "C11_join_timeout_true_running",
    "C11_idempotent_start", "C11_idempotent_stop",
    "C11_workers_exit", "C11_no_sentinel", "C11_restart", "C11_workers_exit_restart", "C11_restart_start", "C11_restart_spawn", "C11_restart_reach", "C11_dead_forever",
    "C11_stop_no_stuck", "C11_stop_measure", "C11_stop_flag", "C11_stop_markers_cover", "C11_stop_waiter_enabled",
    "C11_gen_poolJoinShape", "C11_gen_poolUnlockedAccesses", "C11_gen_poolSpawnRefusal", "C11_gen_poolClearDecrementsTasksOnly",
    "C11_gen_poolStartRollback", "C11_gen_poolQueuePuts",
]

MIX = [(4, "L1", None), (3, "L2", None), (1, "G", None), (1, "W", None), (1, "GR", None), (2, "S", None), (1, "F", None), (1, "N", None), (2, "B", None), (1, "C", None)]


def run(ctx):
    pc.check(ctx, "C11", MIX, 400, 9000)


def search(ctx):
    """Tie broken and no monitor hit yet: one bounded search for a failing input (no lockstep)."""
    pc.check(ctx, "C11", MIX, 450, 1500)


def replay(payload):
    return pc.replay(payload, "C11")
