"""
C12 — Servers isolate concurrent clients and always shut down cleanly.

Model   : lean/JRV/Model/ServerLife.lean (life-cycle LTS: serving thread, closing thread, shutdown caller, handlers)
Theorems: lean/JRV/Properties/C12.lean
Tie     : extracted bodies of PooledJSONRPCServer.server_close / serve_forever / process_request
          (tools/extractors/serverlife.py) + correspondence: life-cycle histories enumerated exhaustively on the REAL
          server classes over real TCP / Unix sockets (with a watchdog) vs the model run on the same history.
Monitor : the property statement: every reply answers its own request (unique tokens, concurrent clients, all pool
          sizes), a malformed or failing request does not stop the service, every stop operation returns once in-flight
          requests complete, afterwards the listening socket is closed and the workers of the stopped pool are dead.
Stage 2 : the hand-over to the request pool under the deterministic scheduler (harness/poolpaths.py, no sockets): a real
          PooledJSONRPCServer (bind_and_activate=False, default or user pool) whose `process_request_thread` is a recording
          stub; a managed accept-loop thread calls `process_request` for a sequence of fake requests, interleaved with the
          pool workers in every way (random, PCT; thorough: bounded-preemption DFS); then `server_close()`.  Monitor: every
          accepted request is handled exactly once while the pool is not stopped (none lost, none duplicated);
          `server_close()` returns once in-flight handlers complete, socket closed, pool stopped, every worker terminates.
"""
import itertools
import json
import os
import shutil
import socket
import tempfile
import threading
import time

import impl
import poolpaths as pp

REQUIRED_THEOREMS = [
    "C12_isolation", "C12_once", "C12_close_no_stuck", "C12_shutdown_no_stuck", "C12_close_steps_enabled",
    "C12_close_post", "C12_close_without_serving", "C12_pool_instantiation", "C09_at_most_once", "C09_none_after_stop",
    "C12_gen_serverClose", "C12_gen_serveFlag", "C12_gen_processRequest",
    "C12_gen_poolRetireRule", "C12_gen_poolGrowthRule", "C12_gen_poolPendingStores", "C12_gen_poolUnlockedAccesses",
]

WATCHDOG = 6.0


def run_with_watchdog(fn, timeout=WATCHDOG):
    """Runs fn in a thread; returns ('ok', value) | ('err', exc) | ('hang', None)."""
    box = []

    def target():
        try:
            box.append(("ok", fn()))
        except BaseException as ex:  # noqa: BLE001
            box.append(("err", ex))
    t = threading.Thread(target=target)
    t.daemon = True
    t.start()
    t.join(timeout)
    if t.is_alive():
        return ("hang", t)
    return box[0]


class Life(object):
    """One real server under a life-cycle history."""
    counter = 0

    def __init__(self, kind, family, tmpdir, pool_spec):
        import jsonrpclib.SimpleJSONRPCServer as SRV
        import jsonrpclib.threadpool as TP
        self.kind, self.family = kind, family
        self.gates = {}
        self.entered = {}
        self.pool = None
        self.own_pool = None
        self.cfg = impl.jsonrpclib.config.Config()
        if family == "unix":
            Life.counter += 1
            self.addr = os.path.join(tmpdir, "s%d.sock" % Life.counter)
            fam = socket.AF_UNIX
        else:
            self.addr = ("127.0.0.1", 0)
            fam = socket.AF_INET
        if kind == "pooled":
            if pool_spec is not None:
                self.pool = TP.ThreadPool(pool_spec[0], pool_spec[1])
                self.pool.start()
            self.server = SRV.PooledJSONRPCServer(self.addr, logRequests=False, address_family=fam, config=self.cfg,
                                                  thread_pool=self.pool)
            self.pool = self.server._PooledJSONRPCServer__request_pool
        else:
            self.server = SRV.SimpleJSONRPCServer(self.addr, logRequests=False, address_family=fam, config=self.cfg)
        self.server.register_function(lambda tok: tok + 1000, "echo")
        self.server.register_function(self._slow, "slow")

        def boom(tok):
            raise ValueError("boom %s" % tok)
        self.server.register_function(boom, "boom")
        self.serve_thread = None
        self.client_threads = []
        self.replies = {}
        self.pool_threads = []

    def _slow(self, tok):
        self.entered[tok].set()
        self.gates[tok].wait(20)
        return tok + 1000

    def url(self):
        if self.family == "unix":
            return "unix+http://%s" % self.addr
        return "http://127.0.0.1:%d/" % self.server.server_address[1]

    def serve(self):
        self.serve_thread = threading.Thread(target=self.server.serve_forever, args=(0.01,))
        self.serve_thread.daemon = True
        self.serve_thread.start()
        # "serving": wait until a request can be answered
        return True

    def request(self, tok, method="echo"):
        J = impl.jsonrpclib.jsonrpc
        p = J.ServerProxy(self.url(), config=self.cfg)
        try:
            return getattr(p, method)(tok)
        finally:
            p("close")()

    def slow(self, tok):
        self.gates[tok] = threading.Event()
        self.entered[tok] = threading.Event()

        def client():
            try:
                self.replies[tok] = self.request(tok, "slow")
            except Exception as ex:  # noqa: BLE001
                self.replies[tok] = ex
        t = threading.Thread(target=client)
        t.daemon = True
        t.start()
        self.client_threads.append(t)
        return self.entered[tok].wait(WATCHDOG)

    def snapshot_pool_threads(self):
        if self.pool is not None:
            self.pool_threads = list(self.pool._threads)

    def cleanup(self):
        for g in self.gates.values():
            g.set()
        try:
            if self.serve_thread is not None and self.serve_thread.is_alive():
                run_with_watchdog(self.server.shutdown, 2)
            run_with_watchdog(self.server.server_close, 2)
        except Exception:
            pass


def legal_histories(kind, maxlen):
    """Histories over {serve, req, slow, shutdown, close}; see the property's life-cycle alphabet."""
    out = []
    # never served
    out.append(["close"])
    body_ops = ["req", "slow"] if kind == "pooled" else ["req"]
    for n in range(0, maxlen - 1):
        for mids in itertools.product(body_ops, repeat=n):
            if list(mids).count("slow") > 2:
                continue
            base = ["serve"] + list(mids)
            if len(base) + 2 <= maxlen + 1:
                out.append(base + ["shutdown", "close"])
            if kind == "pooled" and len(base) + 1 <= maxlen:
                out.append(base + ["close"])
    return out


def run_history(ctx, kind, family, tmpdir, pool_spec, hist):
    """Executes one history on the real server.  Returns (result tokens, final projection string, violations)."""
    L = Life(kind, family, tmpdir, pool_spec)
    results, viol = [], []
    tok = 0
    model_ops = []
    inflight = []
    pending_close = None
    try:
        for op in hist:
            if op == "serve":
                L.serve()
                results.append("ok")
                model_ops.append("serve")
            elif op == "req":
                tok += 1
                k, v = run_with_watchdog(lambda: L.request(tok))
                if k != "ok" or v != tok + 1000:
                    viol.append("request %d answered %r %r" % (tok, k, v))
                results.append("ok" if k == "ok" else k)
                model_ops.append("req%d" % tok)
                L.replies[tok] = v
            elif op == "slow":
                tok += 1
                ok = L.slow(tok)
                if not ok:
                    viol.append("slow request %d never reached its method" % tok)
                results.append("ok")
                inflight.append(tok)
                model_ops.append("slow%d" % tok)
            elif op == "shutdown":
                L.snapshot_pool_threads()
                if inflight and kind == "plain":
                    pass
                k, v = run_with_watchdog(L.server.shutdown)
                if k != "ok":
                    viol.append("shutdown() %s while %d requests in flight" % (k, len(inflight)))
                results.append("ok" if k == "ok" else k)
                model_ops.append("shutdown")
            elif op == "close":
                L.snapshot_pool_threads()
                if inflight:
                    # close while requests are in flight: it must wait for them and return once they complete
                    box = []
                    th = threading.Thread(target=lambda: box.append(impl.outcome(L.server.server_close)))
                    th.daemon = True
                    th.start()
                    th.join(0.3)
                    early = not th.is_alive()
                    results.append("ok" if early else "blocked")
                    model_ops.append("close")
                    # tokens in acceptance order = connection indices in the model
                    first_conn = {t: i for i, t in enumerate(sorted(L.replies.keys() | set(inflight)))}
                    for t in inflight:
                        L.gates[t].set()
                        model_ops.append("finish%d" % first_conn[t])
                        results.append("ok")
                    th.join(WATCHDOG)
                    if th.is_alive():
                        viol.append("server_close() did not return after the in-flight requests completed")
                    elif box and box[0][0] == "err":
                        viol.append("server_close() raised %r" % (box[0][1],))
                    inflight = []
                else:
                    k, v = run_with_watchdog(L.server.server_close)
                    if k == "hang":
                        viol.append("server_close() did not return (no request in flight, history %r)" % (hist,))
                    elif k == "err":
                        viol.append("server_close() raised %r" % (v,))
                    results.append("ok" if k == "ok" else "blocked")
                    model_ops.append("close")
        for t in L.client_threads:
            t.join(WATCHDOG)
        for t, v in L.replies.items():
            if v != t + 1000:
                viol.append("request %d got %r" % (t, v))
        closed = L.server.socket.fileno() == -1
        pool_state = "none"
        if L.pool is not None:
            deadline = time.time() + WATCHDOG
            while time.time() < deadline and any(t.is_alive() for t in L.pool_threads):
                time.sleep(0.01)
            alive = [t.name for t in L.pool_threads if t.is_alive()]
            stopped = L.pool._done_event.is_set()
            pool_state = "stopped" if stopped else "running"
            if "close" in hist and not any("did not return" in m for m in viol):
                if not stopped:
                    viol.append("request pool not stopped after server_close()")
                if alive:
                    viol.append("pool workers still alive after server_close(): %r" % alive)
        else:
            pool_state = "stopped" if "close" in hist else "running"
        if "close" in hist and not closed and not any("did not return" in m for m in viol):
            viol.append("listening socket still open after server_close()")
        toks = sorted(L.replies)
        proj = "sock=%s pool=%s close=%s replies=%s" % (
            "closed" if closed else "open", pool_state,
            "returned" if "close" in hist and not any("did not return" in m for m in viol) else ("idle" if "close" not in hist else "pending"),
            ",".join(str(L.replies[t]) if isinstance(L.replies[t], int) else "-" for t in toks))
    finally:
        L.cleanup()
    return results, proj, viol, model_ops


def concurrent_clients(ctx, kind, family, tmpdir, pool_spec, nclients, ncalls):
    """N concurrent clients with unique tokens against one serving server; returns list of violations."""
    J = impl.jsonrpclib.jsonrpc
    L = Life(kind, family, tmpdir, pool_spec)
    viol = []
    L.serve()
    if family == "unix":
        # a connect() with a timeout is non-blocking and fails at once with EAGAIN while the 5-entry backlog of a
        # Unix listener is full; a blocking connect waits for room, which is what a client normally does
        socket.setdefaulttimeout(None)
    lock = threading.Lock()
    env_errors = []
    seeds = [ctx.rng.random() for _ in range(nclients)]

    def client(ci):
        import random
        rng = random.Random(seeds[ci])
        p = J.ServerProxy(L.url(), config=L.cfg)
        try:
            for j in range(ncalls):
                tok = ci * 100000 + j
                r = rng.random()
                try:
                    if r < 0.5:
                        v = p.echo(tok)
                        if v != tok + 1000:
                            with lock:
                                viol.append("client %d call %d got %r (cross-talk or lost reply)" % (ci, j, v))
                    elif r < 0.6:
                        p._notify.echo(tok)
                    elif r < 0.75:
                        mc = J.MultiCall(p)
                        mc.echo(tok)
                        mc._notify.echo(tok + 1)
                        mc.echo(tok + 2)
                        res = mc()
                        got = [res[0], res[1]]
                        if got != [tok + 1000, tok + 1002]:
                            with lock:
                                viol.append("client %d batch got %r" % (ci, got))
                    elif r < 0.87:
                        try:
                            p.boom(tok)
                            with lock:
                                viol.append("client %d: failing method returned" % ci)
                        except J.ProtocolError as ex:
                            if str(tok) not in str(ex):
                                with lock:
                                    viol.append("client %d got the error of another request: %r" % (ci, ex))
                    else:
                        # malformed body on its own connection, then a normal call must still work
                        raw = p("transport").request(p._ServerProxy__host, "/", "{not json %d" % tok)
                        d = json.loads(raw)
                        if d.get("error", {}).get("code") != -32700:
                            with lock:
                                viol.append("malformed body answered %r" % (raw,))
                except (BlockingIOError, ConnectionResetError, ConnectionRefusedError, BrokenPipeError) as ex:
                    # the kernel's accept queue (listen backlog 5) overflows when many clients connect at once:
                    # EAGAIN on a Unix socket, a reset on TCP.  An environment limit, not a server reply: back off
                    # and go on, but a server that keeps refusing is reported
                    with lock:
                        env_errors.append(type(ex).__name__)
                    time.sleep(0.05)
                except Exception as ex:  # noqa: BLE001
                    with lock:
                        viol.append("client %d call %d raised %s: %s" % (ci, j, type(ex).__name__, ex))
        finally:
            try:
                p("close")()
            except Exception:
                pass

    ths = [threading.Thread(target=client, args=(i,)) for i in range(nclients)]
    for t in ths:
        t.daemon = True
        t.start()
        time.sleep(0.003)   # do not hit the 5-entry listen backlog with all clients in the same millisecond
    for t in ths:
        t.join(60)
        if t.is_alive():
            viol.append("a client did not finish within 60 s (lost reply)")
    if len(env_errors) > max(3, nclients * ncalls // 20):
        viol.append("%d connection-level failures out of %d calls: %r" % (len(env_errors), nclients * ncalls, env_errors[:5]))
    ctx.hist["env/connect-retry"] += len(env_errors)
    L.snapshot_pool_threads()
    k, _ = run_with_watchdog(L.server.shutdown)
    if k != "ok":
        viol.append("shutdown() %s after the clients finished" % k)
    k, _ = run_with_watchdog(L.server.server_close)
    if k != "ok":
        viol.append("server_close() %s after the clients finished" % k)
    L.cleanup()
    socket.setdefaulttimeout(20)
    return viol


def pooled_stage(ctx):
    """Second stage: process_request -> request pool on the real ThreadPool under harness/sched.py (budget: ~9 s quick)."""
    pp.explore(ctx, "C12", "pooled-requests", pp.gen_accept_program, pp.small_accept_programs, 900, 9000, 300)
    ctx.rule += ("; stage 2: random sequences of fake requests (handlers that return, raise, block on a gate) handed by a managed "
                 "accept loop to the REAL PooledJSONRPCServer.process_request / ThreadPool (default (30,0) and user pools max 1..3, "
                 "min 0..max) under harness/sched.py with uniform / sticky / PCT schedules (thorough: bounded-preemption DFS), "
                 "then server_close() after the drain or with handlers in flight")
    ctx.assumptions.append("C12 stage 2: harness/sched.py shims stand for CPython's threading/queue; the handler body "
                           "(socketserver's process_request_thread) is a recording stub; time-outs expire only at quiescence")


def run(ctx):
    run_sockets(ctx)
    pooled_stage(ctx)


def search(ctx):
    """Tie broken and no monitor hit yet: one bounded search (scheduler stage first: cheap; then the socket stage once)."""
    pooled_stage(ctx)
    if not ctx.violations:
        run_sockets(ctx)


def run_sockets(ctx):
    ctx.rule = ("life-cycle histories over {serve, request, slow request in flight, shutdown, server_close} enumerated "
                "exhaustively up to length 4 (quick) / 5 (thorough) for plain and pooled servers (default pool, user pools of "
                "size 1 and (2,1)), over TCP and Unix sockets, each op under a watchdog; plus N concurrent clients (quick 8, "
                "thorough up to 48) with unique tokens mixing calls, notifications, batches, failing and malformed requests "
                "against pools of size 1, 2, 30; distinct_nontrivial = distinct (server kind, pool, family, history) with a stop "
                "operation issued while serving or with requests in flight")
    tmpdir = tempfile.mkdtemp(prefix="jrv-c12-")
    old_to = socket.getdefaulttimeout()
    socket.setdefaulttimeout(20)
    lines, impl_out = [], []
    try:
        maxlen = 5 if ctx.thorough else 4
        combos = []
        for kind in ("pooled", "plain"):
            pools = [None, (1, 0), (2, 1)] if kind == "pooled" else [None]
            for pool_spec in pools:
                for family in ("tcp", "unix"):
                    for h in legal_histories(kind, maxlen):
                        # a handler can only be in flight if a pool worker is free for it (others stay queued and are
                        # dropped by stop(), which the model does not distinguish from "never accepted")
                        cap = 30 if pool_spec is None else pool_spec[0]
                        need, slows = 0, 0
                        for op in h:
                            if op == "slow":
                                slows += 1
                                need = max(need, slows)
                            elif op == "req":
                                need = max(need, slows + 1)
                        if need <= cap:
                            combos.append((kind, pool_spec, family, h))
        if not ctx.thorough:
            # quick: every history on the default pooled server over TCP, a seeded half of the other combinations
            keep = [c for c in combos if (c[0] == "pooled" and c[1] is None and c[2] == "tcp")]
            rest = [c for c in combos if c not in keep]
            ctx.rng.shuffle(rest)
            combos = keep + rest[: len(rest) // 3]
        else:
            ctx.exhaustive = not ctx.searching
        for kind, pool_spec, family, h in combos:
            results, proj, viol, model_ops = run_history(ctx, kind, family, tmpdir, pool_spec, h)
            for m in viol:
                ctx.violate({"server": kind, "pool": pool_spec, "family": family, "history": h}, m, key=m[:45])
            if kind == "pooled":
                lines.append("lifeseq " + " ".join(model_ops))
                impl_out.append(" ".join(results) + " ; " + proj)
            nontrivial = ("serve" in h) and ("close" in h)
            ctx.count(case_repr={"server": kind, "pool": pool_spec, "family": family, "history": h, "results": results, "final": proj},
                      nontrivial_key=(kind, pool_spec, family, tuple(h)) if nontrivial else None,
                      kind="history/%s/%s" % (kind, "inflight" if "slow" in h else ("served" if "serve" in h else "never-served")))
        # concurrent clients
        # keep-alive connections occupy a pool worker each and the listen backlog is 5: beyond workers + backlog the
        # kernel (not the server) turns connections away, so the number of simultaneous clients stays below that
        sizes = [(None, 8), ((1, 0), 5), ((2, 1), 6)] if not ctx.thorough else [(None, 32), ((1, 0), 5), ((2, 1), 6), ((30, 0), 24), ((8, 2), 12)]
        for pool_spec, n in sizes:
            for family in (("tcp",) if not ctx.thorough else ("tcp", "unix")):
                viol = concurrent_clients(ctx, "pooled", family, tmpdir, pool_spec, n, 12 if not ctx.thorough else 25)
                for m in viol:
                    ctx.violate({"server": "pooled", "pool": pool_spec, "family": family, "clients": n}, m, key="concurrent:" + m[:30])
                ctx.count(case_repr={"concurrent_clients": n, "pool": pool_spec, "family": family},
                          nontrivial_key=("conc", pool_spec, family, n), kind="concurrent/pooled", n=n * 12)
        viol = concurrent_clients(ctx, "plain", "tcp", tmpdir, None, 4, 10)
        for m in viol:
            ctx.violate({"server": "plain", "clients": 4}, m, key="concurrent:" + m[:30])
        ctx.count(kind="concurrent/plain", nontrivial_key=("conc", "plain"), n=40)
    finally:
        socket.setdefaulttimeout(old_to)
        shutil.rmtree(tmpdir, ignore_errors=True)
    outs = ctx.lean(lines)
    for ln, mo, io_ in zip(lines, outs, impl_out):
        if mo != io_:
            ctx.disagree(ln, io_, mo, component="lifeseq")
    ctx.traces_validated += len(lines)
    ctx.assumptions.append("socketserver.BaseServer (serve_forever/shutdown protocol), the kernel's listening sockets and the request "
                           "pool's stop() are an environment model in JRV.Model.ServerLife; the race between server_close() and a "
                           "serving thread that is just starting is explored in the model only (real runs serialise the operations)")


def replay(payload):
    case = payload.get("case", {})
    if case.get("stage") in pp.RUNNERS:
        return pp.replay(payload, "C12")
    print(json.dumps(case, indent=1, default=repr))
    if "history" not in case:
        return 2
    tmpdir = tempfile.mkdtemp(prefix="jrv-c12-")
    socket.setdefaulttimeout(20)

    class C(object):
        pass
    try:
        pool = tuple(case["pool"]) if case.get("pool") else None
        results, proj, viol, _ = run_history(C(), case["server"], case["family"], tmpdir, pool, case["history"])
    finally:
        shutil.rmtree(tmpdir, ignore_errors=True)
    print(results, proj)
    for v in viol:
        print("VIOLATION reproduced:", v)
    return 1 if viol else 0
